(* C07 - proofs about the certified maps of Model/C07_Maps.v *)
From Coq Require Import Reals ZArith List Bool Lra Lia.
From Coquelicot Require Import Coquelicot.
From NessaiV Require Import Lib.C07_Interval Model.C07_Maps.
Import ListNotations.
Local Open Scope R_scope.

(* ------------------------------------------------------------------ composition *)
Lemma cm_id_ok : cm_ok cm_id.
Proof.
  exists 0. intros x _. cbn. repeat split; try ring.
  exists 1. split.
  - apply (is_derive_id x).
  - rewrite Rabs_R1, Rplus_0_l, exp_0. reflexivity.
Qed.

Lemma cm_comp_ok : forall m1 m2, cm_ok m1 -> cm_ok m2 -> cm_ok (cm_comp m1 m2).
Proof.
  intros m1 m2 [c1 H1] [c2 H2]. exists (c1 + c2).
  intros x [Hd1 Hd2]. cbn.
  destruct (H1 x Hd1) as [Hg1 [Hl1 [d1 [Hder1 Habs1]]]].
  destruct (H2 (fwd m1 x) Hd2) as [Hg2 [Hl2 [d2 [Hder2 Habs2]]]].
  repeat split.
  - rewrite Hg2. exact Hg1.
  - rewrite Hl2, Hg2, Hl1. ring.
  - exists (d1 * d2). split.
    + replace (d1 * d2) with (scal d1 d2) by (unfold scal; cbn; unfold mult; cbn; ring).
      apply (is_derive_comp (fwd m2) (fwd m1) x d2 d1); assumption.
    + rewrite Rabs_mult, Habs1, Habs2, <- exp_plus. f_equal. ring.
Qed.

Theorem cm_compose_ok : forall l, List.Forall cm_ok l -> cm_ok (cm_compose l).
Proof.
  intros l H. induction H as [|m r Hm _ IH]; cbn [cm_compose].
  - exact cm_id_ok.
  - apply cm_comp_ok; assumption.
Qed.

(* ------------------------------------------------------------------ elementary maps *)
Ltac affine_der d := exists d; split; [auto_derive; [repeat split; try lra|field; lra]|].

Lemma zero_one_ok : forall a b, a < b -> cm_ok (cm_zero_one a b).
Proof.
  intros a b Hab. exists 0. intros x _. cbn. repeat split.
  - field. lra.
  - ring.
  - exists (/ (b - a)). split.
    + auto_derive; [lra|field; lra].
    + rewrite Rplus_0_r, exp_Ropp, exp_ln by lra. apply Rabs_pos_eq.
      left. apply Rinv_0_lt_compat. lra.
Qed.

Lemma minus_one_one_ok : forall a b, a < b -> cm_ok (cm_minus_one_one a b).
Proof.
  intros a b Hab. exists 0. intros x _. cbn. repeat split.
  - field. lra.
  - ring.
  - exists (2 / (b - a)). split.
    + auto_derive; [lra|field; lra].
    + rewrite Rplus_0_r. unfold Rminus at 2. rewrite exp_plus, exp_Ropp, !exp_ln by lra.
      apply Rabs_pos_eq. left. apply Rdiv_lt_0_compat; lra.
Qed.

Lemma to_bounds_ok : forall a b lo fac, a < b -> 0 < fac -> cm_ok (cm_to_bounds a b lo fac).
Proof.
  intros a b lo fac Hab Hf. exists 0. intros x _. cbn. repeat split.
  - field. lra.
  - ring.
  - exists (fac / (b - a)). split.
    + auto_derive; [lra|field; lra].
    + rewrite Rplus_0_r, exp_plus, exp_Ropp, !exp_ln by lra.
      rewrite Rabs_pos_eq; [field; lra|]. left. apply Rdiv_lt_0_compat; lra.
Qed.

Lemma shift_ok : forall o, cm_ok (cm_shift o).
Proof.
  intros o. exists 0. intros x _. cbn. repeat split; try ring.
  exists 1. split.
  - auto_derive; [exact I|ring].
  - rewrite Rabs_R1, Rplus_0_l, exp_0. reflexivity.
Qed.

Lemma Rabs_m1 : Rabs (-1) = 1.
Proof. replace (-1) with (- (1)) by lra. rewrite Rabs_Ropp. apply Rabs_R1. Qed.

Lemma flip_ok : cm_ok cm_flip.
Proof.
  exists 0. intros x _. cbn. repeat split; try ring.
  exists (-1). split.
  - auto_derive; [exact I|ring].
  - rewrite Rabs_m1, Rplus_0_l, exp_0. reflexivity.
Qed.

Lemma fold_ok : forall sgn, sgn = 1 \/ sgn = -1 -> cm_ok (cm_fold sgn).
Proof.
  intros sgn Hs. exists 0. intros x Hx. cbn in *. repeat split; try ring.
  - destruct Hs as [-> | ->].
    + rewrite Rmult_1_l. apply Rabs_pos_eq; exact Hx.
    + replace (-1 * x) with (- x) by ring. rewrite Rabs_Ropp. apply Rabs_pos_eq; exact Hx.
  - exists sgn. split.
    + auto_derive; [exact I|ring].
    + rewrite Rplus_0_l, exp_0. destruct Hs as [-> | ->].
      * apply Rabs_R1.
      * apply Rabs_m1.
Qed.

Lemma sigmoid_pos : forall y, 0 < sigmoidR y < 1.
Proof.
  intros y. unfold sigmoidR. pose proof (exp_pos (- y)) as He.
  split.
  - apply Rdiv_lt_0_compat; lra.
  - apply (Rmult_lt_reg_r (1 + exp (- y))); [lra|]. field_simplify; lra.
Qed.

Lemma sigmoid_logit : forall x, 0 < x < 1 -> sigmoidR (ln x - ln (1 - x)) = x.
Proof.
  intros x [H0 H1]. unfold sigmoidR.
  replace (- (ln x - ln (1 - x))) with (ln (1 - x) + - ln x) by ring.
  rewrite exp_plus, exp_Ropp, !exp_ln by lra. field. lra.
Qed.

Lemma logit_sigmoid : forall y, ln (sigmoidR y) - ln (1 - sigmoidR y) = y.
Proof.
  intros y. pose proof (exp_pos (- y)) as He. unfold sigmoidR.
  replace (1 - 1 / (1 + exp (- y))) with (exp (- y) / (1 + exp (- y))) by (field; lra).
  unfold Rdiv at 1. rewrite Rmult_1_l, ln_Rinv by lra.
  unfold Rdiv. rewrite ln_mult, ln_Rinv, ln_exp by (try apply Rinv_0_lt_compat; lra). ring.
Qed.

Lemma logit_ok : cm_ok cm_logit.
Proof.
  exists 0. intros x Hx. pose proof Hx as [H0 H1]. cbn. repeat split.
  - apply sigmoid_logit; exact Hx.
  - rewrite sigmoid_logit by exact Hx. ring.
  - exists (/ x + / (1 - x)). split.
    + auto_derive; [lra|field; lra].
    + rewrite Rplus_0_r. unfold Rminus at 2. rewrite exp_plus, !exp_Ropp, !exp_ln by lra.
      rewrite Rabs_pos_eq.
      * field. lra.
      * left. apply Rplus_lt_0_compat; apply Rinv_0_lt_compat; lra.
Qed.

Lemma sigmoid_ok : cm_ok cm_sigmoid.
Proof.
  exists 0. intros y _. cbn. pose proof (sigmoid_pos y) as [Hs0 Hs1].
  pose proof (exp_pos (- y)) as He. repeat split.
  - apply logit_sigmoid.
  - ring.
  - exists (exp (- y) / (1 + exp (- y)) ^ 2). split.
    + unfold sigmoidR. auto_derive; [lra|field; lra].
    + rewrite Rplus_0_r, exp_plus, !exp_ln by lra.
      rewrite Rabs_pos_eq.
      * unfold sigmoidR. field. lra.
      * left. apply Rdiv_lt_0_compat; [lra|]. apply pow_lt. lra.
Qed.

Lemma clip_id : forall lo hi x, lo <= x <= hi -> clipR lo hi x = x.
Proof.
  intros lo hi x [H1 H2]. unfold clipR. rewrite Rmax_left by lra. apply Rmin_left. lra.
Qed.

Lemma logit_eps_ok : forall eps, 0 < eps -> cm_ok (cm_logit_eps eps).
Proof.
  intros eps He. exists 0. intros x Hx. cbn in Hx.
  assert (H01 : 0 < x < 1) by lra.
  assert (Hc : eps <= x <= 1 - eps) by lra.
  cbn. rewrite (clip_id eps (1 - eps) x Hc). repeat split.
  - apply sigmoid_logit; exact H01.
  - rewrite sigmoid_logit by exact H01. ring.
  - exists (/ x + / (1 - x)). split.
    + (* inside the clipping interval the map is locally the plain logit *)
      apply (is_derive_ext_loc (fun t => ln t - ln (1 - t))).
      * assert (Hd : 0 < Rmin (x - eps) (1 - eps - x)) by (apply Rmin_glb_lt; lra).
        exists (mkposreal _ Hd). intros y Hy.
        unfold ball in Hy; cbn in Hy. unfold AbsRing_ball, abs, minus, plus, opp in Hy; cbn in Hy.
        assert (Hy' : Rabs (y - x) < x - eps /\ Rabs (y - x) < 1 - eps - x).
        { split; eapply Rlt_le_trans; try exact Hy; [apply Rmin_l|apply Rmin_r]. }
        destruct Hy' as [Hy1 Hy2].
        apply Rabs_def2 in Hy1. apply Rabs_def2 in Hy2.
        rewrite (clip_id eps (1 - eps) y) by lra. reflexivity.
      * auto_derive; [lra|field; lra].
    + rewrite Rplus_0_r. unfold Rminus at 2. rewrite exp_plus, !exp_Ropp, !exp_ln by lra.
      rewrite Rabs_pos_eq.
      * field. lra.
      * left. apply Rplus_lt_0_compat; apply Rinv_0_lt_compat; lra.
Qed.

Lemma log_ok : cm_ok cm_log.
Proof.
  exists 0. intros x Hx. cbn in *. repeat split.
  - apply exp_ln; exact Hx.
  - ring.
  - exists (/ x). split.
    + auto_derive; [exact Hx|field; lra].
    + rewrite Rplus_0_r, exp_Ropp, exp_ln by exact Hx. apply Rabs_pos_eq.
      left. apply Rinv_0_lt_compat; exact Hx.
Qed.

Lemma exp_ok : cm_ok cm_exp.
Proof.
  exists 0. intros x _. cbn. repeat split.
  - apply ln_exp.
  - rewrite ln_exp. reflexivity.
  - exists (exp x). split.
    + auto_derive; [exact I|ring].
    + rewrite Rplus_0_r. apply Rabs_pos_eq. left. apply exp_pos.
Qed.

Lemma scale_shift_ok : forall s t, s <> 0 -> cm_ok (cm_scale_shift s t).
Proof.
  intros s t Hs. exists 0. intros x _. cbn. repeat split.
  - field. exact Hs.
  - ring.
  - exists (/ s). split.
    + auto_derive; [first [exact I|exact Hs]|field; exact Hs].
    + rewrite Rplus_0_r, exp_Ropp, exp_ln by (apply Rabs_pos_lt; exact Hs).
      apply Rabs_inv.
Qed.

Lemma powerlaw_ok : forall p s, 0 < p -> 0 < s -> cm_ok (cm_powerlaw p s).
Proof.
  intros p s Hp Hs. exists 0. intros x Hx. cbn in *.
  assert (Hxs : 0 < x / s) by (apply Rdiv_lt_0_compat; assumption).
  repeat split.
  - rewrite Rpower_mult. replace (p * (1 / p)) with 1 by (field; lra).
    rewrite Rpower_1 by exact Hxs. field. lra.
  - unfold Rpower at 1. rewrite ln_exp.
    unfold Rdiv at 2. rewrite ln_mult, ln_Rinv by (try apply Rinv_0_lt_compat; lra).
    field. lra.
  - exists (p * / x * Rpower (x / s) p). split.
    + unfold Rpower. auto_derive; [repeat split; lra|].
      unfold Rdiv. field. split; lra.
    + rewrite Rplus_0_r.
      rewrite Rabs_pos_eq.
      * unfold Rpower. unfold Rdiv at 1. rewrite ln_mult, ln_Rinv by (try apply Rinv_0_lt_compat; lra).
        replace (- p * ln s + ln p + (p - 1) * ln x) with (ln p + - ln x + p * (ln x + - ln s)) by ring.
        rewrite !exp_plus, exp_Ropp, !exp_ln by lra. ring.
      * left. apply Rmult_lt_0_compat; [apply Rmult_lt_0_compat; [lra|apply Rinv_0_lt_compat; lra]|].
        unfold Rpower. apply exp_pos.
Qed.

(* ------------------------------------------------------------------ RescaleToBounds, any constants *)
Theorem rtb_ok : forall pre post o b0 b1 lo fac inversion e sgn,
  List.Forall cm_ok pre -> List.Forall cm_ok post -> b0 < b1 -> 0 < fac -> (sgn = 1 \/ sgn = -1) ->
  cm_ok (cm_compose (rtb_maps pre post o b0 b1 lo fac inversion e sgn)).
Proof.
  intros pre post o b0 b1 lo fac inversion e sgn Hpre Hpost Hb Hf Hs.
  apply cm_compose_ok. unfold rtb_maps.
  apply List.Forall_app. split; [exact Hpre|].
  constructor; [apply shift_ok|].
  apply List.Forall_app. split; [|exact Hpost].
  destruct inversion; [destruct e|]; repeat constructor;
    first [apply zero_one_ok; exact Hb | apply minus_one_one_ok; exact Hb | apply fold_ok; exact Hs
          | apply flip_ok | apply to_bounds_ok; assumption].
Qed.

Lemma pre_maps_ok : forall k, (match k with PrePower p s => 0 < dyR p /\ 0 < dyR s | _ => True end) ->
  List.Forall cm_ok (pre_maps k).
Proof.
  intros k H. destruct k; cbn; repeat constructor;
    first [exact log_ok | exact exp_ok | exact logit_ok | (destruct H; apply powerlaw_ok; assumption)].
Qed.

Lemma post_maps_ok : forall k, List.Forall cm_ok (post_maps k).
Proof. intros k. destruct k; cbn; repeat constructor; first [exact log_ok | exact exp_ok | exact logit_ok]. Qed.

(* every configuration of RescaleToBounds, whatever constants the bounds are (prior bounds or the
   bounds after update(x) with non-degenerate data): a certified map *)
Theorem rtb_cfg_ok : forall c o b0 b1 lo fac sgn,
  (match r_pre c with PrePower p s => 0 < dyR p /\ 0 < dyR s | _ => True end) ->
  b0 < b1 -> 0 < fac -> (sgn = 1 \/ sgn = -1) ->
  cm_ok (cm_compose (rtb_cmaps c o b0 b1 lo fac sgn)).
Proof.
  intros. unfold rtb_cmaps. apply rtb_ok; try assumption.
  - apply pre_maps_ok; assumption.
  - apply post_maps_ok.
Qed.

(* non-vacuity of the composed domain: the whole open prior box is in the domain of the logit pipeline *)
Lemma rtb_logit_domain : forall o b0 b1 x,
  b0 < b1 -> b0 + o < x < b1 + o ->
  dom (cm_compose (rtb_maps [] [cm_logit] o b0 b1 0 1 false ENone 1)) x.
Proof.
  intros o b0 b1 x Hb [H0 H1]. cbn.
  assert (Hd : 0 < b1 - b0) by lra.
  repeat split; try exact I.
  - replace (1 * ((x - o - b0) / (b1 - b0)) + 0) with ((x - o - b0) / (b1 - b0)) by (field; lra).
    apply Rdiv_lt_0_compat; lra.
  - replace (1 * ((x - o - b0) / (b1 - b0)) + 0) with ((x - o - b0) / (b1 - b0)) by (field; lra).
    apply (Rmult_lt_reg_r (b1 - b0)); [lra|]. unfold Rdiv. rewrite Rmult_assoc, Rinv_l by lra. lra.
Qed.

(* the closed box (bounds included) is in the domain when no singular pre/post-rescaling is used *)
Lemma rtb_affine_domain : forall o b0 b1 lo fac x,
  dom (cm_compose (rtb_maps [] [] o b0 b1 lo fac false ENone 1)) x.
Proof. intros. cbn. repeat split; exact I. Qed.

(* with an inversion edge the domain is the half line on the data side of the folded bound *)
Lemma rtb_fold_domain_lower : forall o b0 b1 sgn x,
  b0 < b1 -> b0 + o <= x ->
  dom (cm_compose (rtb_maps [] [] o b0 b1 0 1 true ELower sgn)) x.
Proof.
  intros o b0 b1 sgn x Hb Hx. cbn. repeat split; try exact I.
  apply Rmult_le_pos; [lra|]. left. apply Rinv_0_lt_compat. lra.
Qed.

(* ... and below it the implemented map is NOT injective: x and its mirror image share a prime value *)
Lemma rtb_fold_not_injective : forall b0 b1 d,
  b0 < b1 -> 0 < d ->
  fwd (cm_compose (rtb_maps [] [] 0 b0 b1 0 1 true ELower (-1))) (b0 - d)
  = fwd (cm_compose (rtb_maps [] [] 0 b0 b1 0 1 true ELower 1)) (b0 + d).
Proof. intros b0 b1 d Hb Hd. cbn. field. lra. Qed.

(* ------------------------------------------------------------------ expressions denote the certified maps *)
Lemma ev_c0 : forall env, evalR env c0 = 0. Proof. intros. cbn. ring. Qed.
Lemma ev_c1 : forall env, evalR env c1 = 1. Proof. intros. cbn. ring. Qed.
Lemma ev_c2 : forall env, evalR env c2 = 2. Proof. intros. cbn. ring. Qed.
Lemma ev_Kd : forall env d, evalR env (Kd d) = dyR d. Proof. intros env [m e]. reflexivity. Qed.

Ltac den := intros x; cbn [sf sljf sg sljg evalR nth X0 AUX P plus
                           st_zero_one st_minus_one_one st_to_bounds st_shift st_logit st_sigmoid st_log st_exp
                           st_fold st_flip st_powerlaw st_scale_shift st_id
                           e_logit e_logit_lj e_sigmoid e_sigmoid_lj e_pow];
            rewrite ?ev_c0, ?ev_c1, ?ev_c2, ?ev_Kd; cbn [fwd bwd ljf ljg
                           cm_zero_one cm_minus_one_one cm_to_bounds cm_shift cm_logit cm_sigmoid cm_log cm_exp
                           cm_fold cm_flip cm_powerlaw cm_scale_shift cm_id].

Lemma den_zero_one : forall sgn pa pb o b0 b1 lo hi fac,
  stage_den (sgn :: [pa; pb; o; b0; b1; lo; hi; fac]) (st_zero_one (P 3) (P 4)) (cm_zero_one b0 b1).
Proof. intros. den. repeat split; reflexivity. Qed.

Lemma den_minus_one_one : forall sgn pa pb o b0 b1 lo hi fac,
  stage_den (sgn :: [pa; pb; o; b0; b1; lo; hi; fac]) (st_minus_one_one (P 3) (P 4)) (cm_minus_one_one b0 b1).
Proof. intros. den. repeat split; reflexivity. Qed.

Lemma den_to_bounds : forall sgn pa pb o b0 b1 lo hi fac,
  stage_den (sgn :: [pa; pb; o; b0; b1; lo; hi; fac]) (st_to_bounds (P 3) (P 4) (P 5) (P 7)) (cm_to_bounds b0 b1 lo fac).
Proof. intros. den. repeat split; reflexivity. Qed.

Lemma den_shift : forall sgn pa pb o b0 b1 lo hi fac,
  stage_den (sgn :: [pa; pb; o; b0; b1; lo; hi; fac]) (st_shift (P 2)) (cm_shift o).
Proof. intros. den. repeat split; reflexivity. Qed.

Lemma den_fold : forall sgn tl, stage_den (sgn :: tl) st_fold (cm_fold sgn).
Proof. intros. den. repeat split; reflexivity. Qed.

Lemma den_flip : forall tl, stage_den tl st_flip cm_flip.
Proof. intros. den. repeat split; reflexivity. Qed.

Lemma den_logit : forall tl, stage_den tl st_logit cm_logit.
Proof. intros. den. unfold sigmoidR. repeat split; reflexivity. Qed.

Lemma den_log : forall tl, stage_den tl st_log cm_log.
Proof. intros. den. repeat split; reflexivity. Qed.

Lemma den_exp : forall tl, stage_den tl st_exp cm_exp.
Proof. intros. den. repeat split; reflexivity. Qed.

Lemma den_powerlaw : forall tl p s, stage_den tl (st_powerlaw (Kd p) (Kd s)) (cm_powerlaw (dyR p) (dyR s)).
Proof.
  intros. den. unfold Rpower. repeat split; reflexivity.
Qed.

Lemma den_scale_shift : forall x0 s t tl,
  stage_den (x0 :: s :: t :: tl) (st_scale_shift (P 0) (P 1) true) (cm_scale_shift s t).
Proof. intros. den. repeat split; reflexivity. Qed.

(* running a list of stages = the composed certified map *)
Lemma fwdR_den : forall tl ss ms, List.Forall2 (stage_den tl) ss ms ->
  forall x lj, fwdR ss tl x lj = (fwd (cm_compose ms) x, lj + ljf (cm_compose ms) x).
Proof.
  intros tl ss ms H. induction H as [|s m ss ms Hs _ IH]; intros x lj; cbn [fwdR cm_compose].
  - cbn. f_equal. ring.
  - destruct (Hs x) as [Hf [Hl _]]. rewrite Hf, Hl, IH. cbn. f_equal. ring.
Qed.

Lemma bwdR_app : forall tl a b y lj,
  bwdR (a ++ b) tl y lj = bwdR b tl (fst (bwdR a tl y lj)) (snd (bwdR a tl y lj)).
Proof.
  intros tl a. induction a as [|s a IH]; intros b y lj; cbn [bwdR app].
  - reflexivity.
  - apply IH.
Qed.

Lemma bwdR_den : forall tl ss ms, List.Forall2 (stage_den tl) ss ms ->
  forall y lj, bwdR (rev ss) tl y lj = (bwd (cm_compose ms) y, lj + ljg (cm_compose ms) y).
Proof.
  intros tl ss ms H. induction H as [|s m ss ms Hs _ IH]; intros y lj; cbn [rev cm_compose].
  - cbn. f_equal. ring.
  - rewrite bwdR_app, IH. cbn [fst snd bwdR].
    destruct (Hs (bwd (cm_compose ms) y)) as [_ [_ [Hg Hl]]]. rewrite Hg, Hl. cbn. f_equal. ring.
Qed.

Lemma Forall2_app' : forall (A B : Type) (R : A -> B -> Prop) l1 l2 l1' l2',
  List.Forall2 R l1 l1' -> List.Forall2 R l2 l2' -> List.Forall2 R (l1 ++ l2) (l1' ++ l2').
Proof. intros. apply List.Forall2_app; assumption. Qed.

(* the stage list of ANY RescaleToBounds configuration denotes its certified-map list,
   for any values of the constants *)
Theorem rtb_stages_den : forall c sgn pa pb o b0 b1 lo hi fac,
  List.Forall2 (stage_den (sgn :: [pa; pb; o; b0; b1; lo; hi; fac])) (rtb_stages c) (rtb_cmaps c o b0 b1 lo fac sgn).
Proof.
  intros c sgn pa pb o b0 b1 lo hi fac. unfold rtb_stages, rtb_cmaps, rtb_maps.
  apply Forall2_app'.
  - destruct (r_pre c); cbn; repeat constructor;
      first [apply den_log | apply den_exp | apply den_logit | apply den_powerlaw].
  - destruct (r_inv c); cbn [inv_on inv_edge app].
    + constructor; [apply den_shift|]. constructor; [apply den_to_bounds|].
      destruct (r_post c); cbn; repeat constructor; first [apply den_log | apply den_exp | apply den_logit].
    + constructor; [apply den_shift|]. constructor; [apply den_minus_one_one|].
      destruct (r_post c); cbn; repeat constructor; first [apply den_log | apply den_exp | apply den_logit].
    + constructor; [apply den_shift|]. constructor; [apply den_zero_one|]. constructor; [apply den_fold|].
      destruct (r_post c); cbn; repeat constructor; first [apply den_log | apply den_exp | apply den_logit].
    + constructor; [apply den_shift|]. constructor; [apply den_zero_one|]. constructor; [apply den_flip|].
      constructor; [apply den_fold|].
      destruct (r_post c); cbn; repeat constructor; first [apply den_log | apply den_exp | apply den_logit].
Qed.

(* hence: running the model pipeline forward then backward returns the input, with opposite log-Jacobians *)
Theorem rtb_pipeline_roundtrip : forall c sgn pa pb o b0 b1 lo hi fac x,
  (match r_pre c with PrePower p s => 0 < dyR p /\ 0 < dyR s | _ => True end) ->
  b0 < b1 -> 0 < fac -> (sgn = 1 \/ sgn = -1) ->
  dom (cm_compose (rtb_cmaps c o b0 b1 lo fac sgn)) x ->
  let tl := sgn :: [pa; pb; o; b0; b1; lo; hi; fac] in
  let fw := fwdR (rtb_stages c) tl x 0 in
  let bw := bwdR (rev (rtb_stages c)) tl (fst fw) 0 in
  fst bw = x /\ snd bw = - snd fw.
Proof.
  intros c sgn pa pb o b0 b1 lo hi fac x Hp Hb Hf Hs Hd tl fw bw.
  pose proof (rtb_stages_den c sgn pa pb o b0 b1 lo hi fac) as Hden.
  destruct (rtb_cfg_ok c o b0 b1 lo fac sgn Hp Hb Hf Hs) as [cc Hok].
  destruct (Hok x Hd) as [Hg [Hl _]].
  unfold bw, fw, tl. rewrite (fwdR_den _ _ _ Hden). cbn [fst snd].
  rewrite (bwdR_den _ _ _ Hden). cbn [fst snd]. split.
  - exact Hg.
  - rewrite Hl. ring.
Qed.

(* ------------------------------------------------------------------ the interval twin encloses the real model *)
Section Enclosure.
Variable prec : F.precision.
Variable k : Z.
Hypothesis Hk : (0 <= k)%Z.

Lemma nth_enclR : forall li l n, List.Forall2 enclR li l -> enclR (nth n li I.nai) (nth n l 0).
Proof.
  intros li l n H. revert n. induction H as [|i x li l Hix _ IH]; intros n.
  - destruct n; unfold enclR, encl; cbn [nth]; rewrite I.nai_correct; exact I.
  - destruct n; cbn [nth]; [exact Hix|apply IH].
Qed.

Lemma paramsI_sound : forall ps acci acc, List.Forall2 enclR acci acc ->
  List.Forall2 enclR (paramsI prec k ps acci) (paramsR ps acc).
Proof.
  induction ps as [|p ps IH]; intros acci acc H; cbn [paramsI paramsR].
  - exact H.
  - apply IH. apply List.Forall2_app; [exact H|]. constructor; [|constructor].
    apply evalI_sound; [exact Hk|]. repeat (constructor; [apply zeroI_sound|]). exact H.
Qed.

Lemma fwdI_sound : forall ss tli tl xi x lji lj,
  List.Forall2 enclR tli tl -> enclR xi x -> enclR lji lj ->
  enclR (fst (fwdI prec k ss tli xi lji)) (fst (fwdR ss tl x lj)) /\
  enclR (snd (fwdI prec k ss tli xi lji)) (snd (fwdR ss tl x lj)).
Proof.
  induction ss as [|s ss IH]; intros tli tl xi x lji lj Ht Hx Hl; cbn [fwdI fwdR].
  - split; assumption.
  - assert (He : List.Forall2 enclR (xi :: tli) (x :: tl)) by (constructor; assumption).
    apply IH; [exact Ht| |].
    + apply evalI_sound; assumption.
    + apply inflate_sound; [exact Hk|]. apply addI_sound; [exact Hl|]. apply evalI_sound; assumption.
Qed.

Lemma bwdI_sound : forall ss tli tl xi x lji lj,
  List.Forall2 enclR tli tl -> enclR xi x -> enclR lji lj ->
  enclR (fst (bwdI prec k ss tli xi lji)) (fst (bwdR ss tl x lj)) /\
  enclR (snd (bwdI prec k ss tli xi lji)) (snd (bwdR ss tl x lj)).
Proof.
  induction ss as [|s ss IH]; intros tli tl xi x lji lj Ht Hx Hl; cbn [bwdI bwdR].
  - split; assumption.
  - assert (He : List.Forall2 enclR (xi :: tli) (x :: tl)) by (constructor; assumption).
    apply IH; [exact Ht| |].
    + apply evalI_sound; assumption.
    + apply inflate_sound; [exact Hk|]. apply addI_sound; [exact Hl|]. apply evalI_sound; assumption.
Qed.

Lemma map_eval_sound : forall es envi env, List.Forall2 enclR envi env ->
  List.Forall2 enclR (map (evalI prec k envi) es) (map (evalR env) es).
Proof.
  induction es as [|e es IH]; intros envi env H; cbn [map]; constructor.
  - apply evalI_sound; assumption.
  - apply IH; exact H.
Qed.

Lemma blockI_fwd_sound : forall b xsi xs auxi aux lji lj,
  List.Forall2 enclR xsi xs -> enclR auxi aux -> enclR lji lj ->
  List.Forall2 enclR (fst (blockI_fwd prec k b xsi auxi lji)) (fst (blockR_fwd b xs aux lj)) /\
  enclR (snd (blockI_fwd prec k b xsi auxi lji)) (snd (blockR_fwd b xs aux lj)).
Proof.
  intros b xsi xs auxi aux lji lj Hx Ha Hl. destruct b as [ss ps|n fw fwlj bw bwlj ps]; cbn [blockI_fwd blockR_fwd].
  - assert (Hp : List.Forall2 enclR (auxi :: paramsI prec k ps []) (aux :: paramsR ps []))
      by (constructor; [exact Ha|apply paramsI_sound; constructor]).
    pose proof (fwdI_sound ss _ _ _ _ _ _ Hp (nth_enclR _ _ 0%nat Hx) Hl) as [H1 H2].
    destruct (fwdI prec k ss (auxi :: paramsI prec k ps []) (nth 0 xsi I.nai) lji) as [yi li].
    destruct (fwdR ss (aux :: paramsR ps []) (nth 0 xs 0) lj) as [y l]. cbn [fst snd] in *.
    split; [constructor; [exact H1|constructor]|exact H2].
  - assert (He : List.Forall2 enclR (xsi ++ auxi :: paramsI prec k ps []) (xs ++ aux :: paramsR ps [])).
    { apply List.Forall2_app; [exact Hx|]. constructor; [exact Ha|apply paramsI_sound; constructor]. }
    cbn [fst snd]. split.
    + apply map_eval_sound; exact He.
    + apply inflate_sound; [exact Hk|]. apply addI_sound; [exact Hl|]. apply evalI_sound; assumption.
Qed.

Lemma blockI_bwd_sound : forall b ysi ys auxi aux lji lj,
  List.Forall2 enclR ysi ys -> enclR auxi aux -> enclR lji lj ->
  List.Forall2 enclR (fst (blockI_bwd prec k b ysi auxi lji)) (fst (blockR_bwd b ys aux lj)) /\
  enclR (snd (blockI_bwd prec k b ysi auxi lji)) (snd (blockR_bwd b ys aux lj)).
Proof.
  intros b xsi xs auxi aux lji lj Hx Ha Hl. destruct b as [ss ps|n fw fwlj bw bwlj ps]; cbn [blockI_bwd blockR_bwd].
  - assert (Hp : List.Forall2 enclR (auxi :: paramsI prec k ps []) (aux :: paramsR ps []))
      by (constructor; [exact Ha|apply paramsI_sound; constructor]).
    pose proof (bwdI_sound (rev ss) _ _ _ _ _ _ Hp (nth_enclR _ _ 0%nat Hx) Hl) as [H1 H2].
    destruct (bwdI prec k (rev ss) (auxi :: paramsI prec k ps []) (nth 0 xsi I.nai) lji) as [yi li].
    destruct (bwdR (rev ss) (aux :: paramsR ps []) (nth 0 xs 0) lj) as [y l]. cbn [fst snd] in *.
    split; [constructor; [exact H1|constructor]|exact H2].
  - assert (He : List.Forall2 enclR (xsi ++ auxi :: paramsI prec k ps []) (xs ++ aux :: paramsR ps [])).
    { apply List.Forall2_app; [exact Hx|]. constructor; [exact Ha|apply paramsI_sound; constructor]. }
    cbn [fst snd]. split.
    + apply map_eval_sound; exact He.
    + apply inflate_sound; [exact Hk|]. apply addI_sound; [exact Hl|]. apply evalI_sound; assumption.
Qed.

(* blocks of a combined reparameterisation: same block, enclosed inputs and oracle value *)
Definition blk_rel (bi : block * list I.type * I.type) (br : block * list R * R) : Prop :=
  fst (fst bi) = fst (fst br) /\ List.Forall2 enclR (snd (fst bi)) (snd (fst br)) /\ enclR (snd bi) (snd br).

Theorem combI_fwd_sound : forall bsi bsr lji lj,
  List.Forall2 blk_rel bsi bsr -> enclR lji lj ->
  List.Forall2 (List.Forall2 enclR) (fst (combI_fwd prec k bsi lji)) (fst (combR_fwd bsr lj)) /\
  enclR (snd (combI_fwd prec k bsi lji)) (snd (combR_fwd bsr lj)).
Proof.
  intros bsi bsr lji lj H. revert lji lj.
  induction H as [|[[b xsi] auxi] [[b' xs] aux] bsi bsr [Hb [Hx Ha]] _ IH]; intros lji lj Hl; cbn [combI_fwd combR_fwd].
  - split; [constructor|exact Hl].
  - cbn in Hb, Hx, Ha. subst b'.
    pose proof (blockI_fwd_sound b xsi xs auxi aux lji lj Hx Ha Hl) as [H1 H2].
    destruct (blockI_fwd prec k b xsi auxi lji) as [ysi li]. destruct (blockR_fwd b xs aux lj) as [ys l].
    cbn [fst snd] in *. specialize (IH li l H2).
    destruct (combI_fwd prec k bsi li) as [ri li']. destruct (combR_fwd bsr l) as [rr l'].
    cbn [fst snd] in *. destruct IH as [IH1 IH2]. split; [constructor; assumption|exact IH2].
Qed.

Theorem combI_bwd_sound : forall bsi bsr lji lj,
  List.Forall2 blk_rel bsi bsr -> enclR lji lj ->
  List.Forall2 (List.Forall2 enclR) (fst (combI_bwd prec k bsi lji)) (fst (combR_bwd bsr lj)) /\
  enclR (snd (combI_bwd prec k bsi lji)) (snd (combR_bwd bsr lj)).
Proof.
  intros bsi bsr lji lj H. revert lji lj.
  induction H as [|[[b xsi] auxi] [[b' xs] aux] bsi bsr [Hb [Hx Ha]] _ IH]; intros lji lj Hl; cbn [combI_bwd combR_bwd].
  - split; [constructor|exact Hl].
  - cbn in Hb, Hx, Ha. subst b'.
    pose proof (blockI_bwd_sound b xsi xs auxi aux lji lj Hx Ha Hl) as [H1 H2].
    destruct (blockI_bwd prec k b xsi auxi lji) as [ysi li]. destruct (blockR_bwd b xs aux lj) as [ys l].
    cbn [fst snd] in *. specialize (IH li l H2).
    destruct (combI_bwd prec k bsi li) as [ri li']. destruct (combR_bwd bsr l) as [rr l'].
    cbn [fst snd] in *. destruct IH as [IH1 IH2]. split; [constructor; assumption|exact IH2].
Qed.
End Enclosure.

(* ------------------------------------------------------------------ polar map (Angle, ToCartesian) *)
Lemma polar_radius : forall s th r, 0 <= r -> radiusR (polar_x s th r) (polar_y s th r) = r.
Proof.
  intros s th r Hr. unfold radiusR, polar_x, polar_y.
  replace (r * cos (s * th) * (r * cos (s * th)) + r * sin (s * th) * (r * sin (s * th)))
    with (r * r * ((sin (s * th))² + (cos (s * th))²)) by (unfold Rsqr; ring).
  rewrite sin2_cos2, Rmult_1_r. apply sqrt_square; exact Hr.
Qed.

Lemma half_angle : forall t, - PI < t < PI -> sin t / (1 + cos t) = tan (t / 2).
Proof.
  intros t Ht.
  assert (Hc : 0 < cos (t / 2)) by (apply cos_gt_0; lra).
  replace t with (2 * (t / 2)) at 1 2 by field.
  rewrite sin_2a, cos_2a_cos. unfold tan.
  assert (H2 : 0 < cos (t / 2) * cos (t / 2)) by (apply Rmult_lt_0_compat; assumption).
  field. split; lra.
Qed.

Lemma atan2_polar : forall t r, 0 < r -> - PI < t < PI -> atan2R (r * sin t) (r * cos t) = t.
Proof.
  intros t r Hr Ht. unfold atan2R.
  replace (r * cos t * (r * cos t) + r * sin t * (r * sin t))
    with (r * r * ((sin t)² + (cos t)²)) by (unfold Rsqr; ring).
  rewrite sin2_cos2, Rmult_1_r, sqrt_square by lra.
  assert (Hc : 0 < 1 + cos t).
  { assert (H2 : 0 < cos (t / 2)) by (apply cos_gt_0; lra).
    replace t with (2 * (t / 2)) by field. rewrite cos_2a_cos.
    assert (0 < cos (t / 2) * cos (t / 2)) by (apply Rmult_lt_0_compat; assumption). lra. }
  assert (Hrc : 0 < r + r * cos t).
  { replace (r + r * cos t) with (r * (1 + cos t)) by ring. apply Rmult_lt_0_compat; assumption. }
  replace (r * sin t / (r + r * cos t)) with (sin t / (1 + cos t)) by (field; split; lra).
  rewrite half_angle by exact Ht. rewrite atan_tan by lra. field.
Qed.

Lemma atan2p_polar : forall t r, 0 < r -> 0 < t < 2 * PI -> atan2pR (r * sin t) (r * cos t) = t.
Proof.
  intros t r Hr Ht. unfold atan2pR.
  replace (- (r * sin t)) with (r * sin (t - PI)).
  2:{ unfold Rminus. rewrite sin_plus, cos_neg, sin_neg, cos_PI, sin_PI. ring. }
  replace (- (r * cos t)) with (r * cos (t - PI)).
  2:{ unfold Rminus. rewrite cos_plus, cos_neg, sin_neg, cos_PI, sin_PI. ring. }
  rewrite atan2_polar by lra. ring.
Qed.

(* the four partial derivatives of (th, r) -> (r cos (s th), r sin (s th)) and the determinant *)
Theorem polar_jacobian : forall s th r,
  is_derive (fun t => polar_x s t r) th (- s * r * sin (s * th)) /\
  is_derive (fun q => polar_x s th q) r (cos (s * th)) /\
  is_derive (fun t => polar_y s t r) th (s * r * cos (s * th)) /\
  is_derive (fun q => polar_y s th q) r (sin (s * th)) /\
  (- s * r * sin (s * th)) * sin (s * th) - cos (s * th) * (s * r * cos (s * th)) = - (s * r).
Proof.
  intros s th r. unfold polar_x, polar_y. split; [|split; [|split; [|split]]].
  - auto_derive; [exact I|ring].
  - auto_derive; [exact I|ring].
  - auto_derive; [exact I|ring].
  - auto_derive; [exact I|ring].
  - replace (- s * r * sin (s * th) * sin (s * th) - cos (s * th) * (s * r * cos (s * th)))
      with (- (s * r) * ((sin (s * th))² + (cos (s * th))²)) by (unfold Rsqr; ring).
    rewrite sin2_cos2. ring.
Qed.

(* reported log-Jacobian ln r ; true |det| = s r = exp (ln r + ln s): the constant is ln s *)
Theorem polar_logdet : forall s r, 0 < s -> 0 < r -> Rabs (- (s * r)) = exp (ln r + ln s).
Proof.
  intros s r Hs Hr. rewrite Rabs_Ropp, Rabs_pos_eq by (left; apply Rmult_lt_0_compat; assumption).
  rewrite exp_plus, !exp_ln by assumption. ring.
Qed.

(* round trip of the Angle map, both inverse branches *)
Theorem polar_roundtrip : forall s th r, 0 < s -> 0 < r ->
  radiusR (polar_x s th r) (polar_y s th r) = r /\
  (- PI < s * th < PI -> atan2R (polar_y s th r) (polar_x s th r) / s = th) /\
  (0 < s * th < 2 * PI -> atan2pR (polar_y s th r) (polar_x s th r) / s = th).
Proof.
  intros s th r Hs Hr. split; [apply polar_radius; lra|]. unfold polar_x, polar_y. split; intros Ht.
  - rewrite atan2_polar by assumption. field. lra.
  - rewrite atan2p_polar by assumption. field. lra.
Qed.

(* ToCartesian: th = sign * u * scale with u = (x - a)/(b - a) in (0, 1); inverse |atan2 / scale| *)
Theorem to_cartesian_roundtrip : forall a b sc sgn x r,
  a < b -> 0 < sc <= PI -> (sgn = 1 \/ sgn = -1) -> 0 < r -> a < x < b ->
  let u := (x - a) / (b - a) in
  let th := sgn * u * sc in
  (b - a) * Rabs (atan2R (r * sin th) (r * cos th) / sc) + a = x.
Proof.
  intros a b sc sgn x r Hab Hsc Hs Hr Hx u th.
  assert (Hu : 0 < u < 1).
  { unfold u. split.
    - apply Rdiv_lt_0_compat; lra.
    - apply (Rmult_lt_reg_r (b - a)); [lra|]. unfold Rdiv. rewrite Rmult_assoc, Rinv_l by lra. lra. }
  assert (Husc : 0 < u * sc < PI).
  { split; [apply Rmult_lt_0_compat; lra|].
    apply Rlt_le_trans with (1 * sc); [apply Rmult_lt_compat_r; lra|lra]. }
  assert (Hth : - PI < th < PI).
  { unfold th. destruct Hs as [-> | ->]; rewrite ?Rmult_1_l; [lra|].
    replace (-1 * u * sc) with (- (u * sc)) by ring. lra. }
  rewrite atan2_polar by assumption.
  unfold th. replace (sgn * u * sc / sc) with (sgn * u) by (field; lra).
  rewrite Rabs_mult. replace (Rabs sgn) with 1.
  2:{ destruct Hs as [-> | ->]; [symmetry; apply Rabs_R1|symmetry; apply Rabs_m1]. }
  rewrite Rmult_1_l, Rabs_pos_eq by lra. unfold u. field. lra.
Qed.

(* ------------------------------------------------------------------ spherical maps (AnglePair) *)
Theorem azzen_jacobian : forall a z r,
  is_derive (fun t => azzen_x t z r) a (- r * sin z * sin a) /\
  is_derive (fun t => azzen_x a t r) z (r * cos z * cos a) /\
  is_derive (fun t => azzen_x a z t) r (sin z * cos a) /\
  is_derive (fun t => azzen_y t z r) a (r * sin z * cos a) /\
  is_derive (fun t => azzen_y a t r) z (r * cos z * sin a) /\
  is_derive (fun t => azzen_y a z t) r (sin z * sin a) /\
  is_derive (fun t => azzen_z t z r) a 0 /\
  is_derive (fun t => azzen_z a t r) z (- r * sin z) /\
  is_derive (fun t => azzen_z a z t) r (cos z) /\
  det3 (- r * sin z * sin a) (r * cos z * cos a) (sin z * cos a)
       (r * sin z * cos a) (r * cos z * sin a) (sin z * sin a)
       0 (- r * sin z) (cos z) = - (r * r * sin z).
Proof.
  intros a z r. unfold azzen_x, azzen_y, azzen_z.
  repeat (split; [auto_derive; [exact I|ring]|]).
  unfold det3.
  replace (- r * sin z * sin a * (r * cos z * sin a * cos z - sin z * sin a * (- r * sin z)) -
           r * cos z * cos a * (r * sin z * cos a * cos z - sin z * sin a * 0) +
           sin z * cos a * (r * sin z * cos a * (- r * sin z) - r * cos z * sin a * 0))
    with (- (r * r * sin z) * (((sin a)² + (cos a)²) * ((sin z)² + (cos z)²))) by (unfold Rsqr; ring).
  rewrite !sin2_cos2. ring.
Qed.

Theorem radec_jacobian : forall a d r,
  is_derive (fun t => radec_x t d r) a (- r * cos d * sin a) /\
  is_derive (fun t => radec_x a t r) d (- r * sin d * cos a) /\
  is_derive (fun t => radec_x a d t) r (cos d * cos a) /\
  is_derive (fun t => radec_y t d r) a (r * cos d * cos a) /\
  is_derive (fun t => radec_y a t r) d (- r * sin d * sin a) /\
  is_derive (fun t => radec_y a d t) r (cos d * sin a) /\
  is_derive (fun t => radec_z t d r) a 0 /\
  is_derive (fun t => radec_z a t r) d (r * cos d) /\
  is_derive (fun t => radec_z a d t) r (sin d) /\
  det3 (- r * cos d * sin a) (- r * sin d * cos a) (cos d * cos a)
       (r * cos d * cos a) (- r * sin d * sin a) (cos d * sin a)
       0 (r * cos d) (sin d) = r * r * cos d.
Proof.
  intros a d r. unfold radec_x, radec_y, radec_z.
  repeat (split; [auto_derive; [exact I|ring]|]).
  unfold det3.
  replace (- r * cos d * sin a * (- r * sin d * sin a * sin d - cos d * sin a * (r * cos d)) -
           - r * sin d * cos a * (r * cos d * cos a * sin d - cos d * sin a * 0) +
           cos d * cos a * (r * cos d * cos a * (r * cos d) - - r * sin d * sin a * 0))
    with (r * r * cos d * (((sin a)² + (cos a)²) * ((sin d)² + (cos d)²))) by (unfold Rsqr; ring).
  rewrite !sin2_cos2. ring.
Qed.

(* reported: 2 ln r + ln (sin z) resp. 2 ln r + ln (cos d): exactly ln |det|, constant 0 *)
Theorem spherical_logdet : forall r t, 0 < r -> 0 < t ->
  Rabs (- (r * r * t)) = exp (2 * ln r + ln t) /\ Rabs (r * r * t) = exp (2 * ln r + ln t).
Proof.
  intros r t Hr Ht.
  assert (Hp : 0 < r * r * t) by (repeat apply Rmult_lt_0_compat; assumption).
  assert (He : exp (2 * ln r + ln t) = r * r * t).
  { replace (2 * ln r) with (ln r + ln r) by ring. rewrite !exp_plus, !exp_ln by assumption. ring. }
  rewrite Rabs_Ropp, Rabs_pos_eq, He by lra. split; reflexivity.
Qed.

(* ------------------------------------------------------------------ prime priors *)
(* uniform prior: the prime prior is the indicator of [lower, upper] = determine_rescaled_bounds;
   support equality, all cases of `invert` *)
Theorem prime_support_affine : forall pmin pmax xmin xmax off lo hi x,
  xmin < xmax -> lo < hi ->
  let F := fwd (cm_compose [cm_shift off; cm_to_bounds xmin xmax lo (hi - lo)]) in
  let b := rescaled_bounds pmin pmax xmin xmax false None off lo hi in
  (pmin <= x <= pmax <-> fst b <= F x <= snd b).
Proof.
  intros pmin pmax xmin xmax off lo hi x Hx Hl F b. unfold F, b, rescaled_bounds. cbn.
  set (c := (hi - lo) / (xmax - xmin)).
  assert (Hc : 0 < c) by (apply Rdiv_lt_0_compat; lra).
  replace ((hi - lo) * ((x - off - xmin) / (xmax - xmin)) + lo)
    with ((hi - lo) * (pmin - off - xmin) / (xmax - xmin) + lo + c * (x - pmin)) by (unfold c; field; lra).
  replace ((hi - lo) * (pmax - off - xmin) / (xmax - xmin) + lo)
    with ((hi - lo) * (pmin - off - xmin) / (xmax - xmin) + lo + c * (pmax - pmin)) by (unfold c; field; lra).
  split; intros [H1 H2]; split; nra.
Qed.

Theorem prime_support_noedge : forall pmin pmax xmin xmax off lo hi x,
  xmin < xmax ->
  let F := fwd (cm_compose [cm_shift off; cm_minus_one_one xmin xmax]) in
  let b := rescaled_bounds pmin pmax xmin xmax true (Some ENone) off lo hi in
  (pmin <= x <= pmax <-> fst b <= F x <= snd b).
Proof.
  intros pmin pmax xmin xmax off lo hi x Hx F b. unfold F, b, rescaled_bounds. cbn.
  set (c := 2 / (xmax - xmin)).
  assert (Hc : 0 < c) by (apply Rdiv_lt_0_compat; lra).
  replace (2 * (x - off - xmin) / (xmax - xmin) - 1)
    with (2 * (1 * (pmin - off - xmin) / (xmax - xmin) + 0) - 1 + c * (x - pmin)) by (unfold c; field; lra).
  replace (2 * (1 * (pmax - off - xmin) / (xmax - xmin) + 0) - 1)
    with (2 * (1 * (pmin - off - xmin) / (xmax - xmin) + 0) - 1 + c * (pmax - pmin)) by (unfold c; field; lra).
  split; intros [H1 H2]; split; nra.
Qed.

(* lower edge: on the fold's domain (x1 >= 0) the prime support [-upper, upper] is x <= pmax *)
Theorem prime_support_lower : forall pmin pmax xmin xmax off lo hi sgn x,
  xmin < xmax -> (sgn = 1 \/ sgn = -1) -> xmin + off <= x ->
  let F := fwd (cm_compose [cm_shift off; cm_zero_one xmin xmax; cm_fold sgn]) in
  let b := rescaled_bounds pmin pmax xmin xmax true (Some ELower) off lo hi in
  (x <= pmax <-> fst b <= F x <= snd b).
Proof.
  intros pmin pmax xmin xmax off lo hi sgn x Hx Hs Hd F b. unfold F, b, rescaled_bounds. cbn.
  set (c := / (xmax - xmin)).
  assert (Hc : 0 < c) by (apply Rinv_0_lt_compat; lra).
  replace ((x - off - xmin) / (xmax - xmin)) with (c * (x - off - xmin)) by (unfold c; field; lra).
  replace (1 * (pmax - off - xmin) / (xmax - xmin) + 0) with (c * (pmax - off - xmin)) by (unfold c; field; lra).
  assert (H0 : 0 <= c * (x - off - xmin)) by (apply Rmult_le_pos; lra).
  destruct Hs as [-> | ->]; split; intros H; try destruct H; try split; nra.
Qed.

(* upper edge: on the fold's domain (1 - x1 >= 0) the prime support [lower - 1, 1 - lower] is pmin <= x *)
Theorem prime_support_upper : forall pmin pmax xmin xmax off lo hi sgn x,
  xmin < xmax -> (sgn = 1 \/ sgn = -1) -> x <= xmax + off ->
  let F := fwd (cm_compose [cm_shift off; cm_zero_one xmin xmax; cm_flip; cm_fold sgn]) in
  let b := rescaled_bounds pmin pmax xmin xmax true (Some EUpper) off lo hi in
  (pmin <= x <-> fst b <= F x <= snd b).
Proof.
  intros pmin pmax xmin xmax off lo hi sgn x Hx Hs Hd F b. unfold F, b, rescaled_bounds. cbn.
  set (c := / (xmax - xmin)).
  assert (Hc : 0 < c) by (apply Rinv_0_lt_compat; lra).
  replace ((x - off - xmin) / (xmax - xmin)) with (c * (x - off - xmin)) by (unfold c; field; lra).
  replace (1 * (pmin - off - xmin) / (xmax - xmin) + 0) with (c * (pmin - off - xmin)) by (unfold c; field; lra).
  assert (H0 : 0 <= 1 - c * (x - off - xmin)).
  { assert (c * (x - off - xmin) <= c * (xmax - xmin)) by (apply Rmult_le_compat_l; lra).
    assert (c * (xmax - xmin) = 1) by (unfold c; field; lra). lra. }
  destruct Hs as [-> | ->]; split; intros H; try destruct H; try split; nra.
Qed.

(* uniform prior, affine map: prime prior (0 on the support) = prior - ljf + const, the constant being
   ln (pmax - pmin) + ljf (both independent of x) *)
Theorem prime_prior_uniform_const : forall pmin pmax xmin xmax off lo hi x,
  xmin < xmax -> lo < hi ->
  let m := cm_compose [cm_shift off; cm_to_bounds xmin xmax lo (hi - lo)] in
  0 = - ln (pmax - pmin) - ljf m x + (ln (pmax - pmin) + (- ln (xmax - xmin) + ln (hi - lo))).
Proof. intros. unfold m. cbn. ring. Qed.

(* Angle with auxiliary radius: log_2d_cartesian_prior = chi(2).logpdf(r) - ln r - ln k *)
Theorem prime_prior_polar : forall s th r kk,
  - ln kk - ((polar_x s th r) * (polar_x s th r) + (polar_y s th r) * (polar_y s th r)) / 2
  = (ln r - r * r / 2) - ln r - ln kk.
Proof.
  intros. unfold polar_x, polar_y.
  replace (r * cos (s * th) * (r * cos (s * th)) + r * sin (s * th) * (r * sin (s * th)))
    with (r * r * ((sin (s * th))² + (cos (s * th))²)) by (unfold Rsqr; ring).
  rewrite sin2_cos2. field.
Qed.

(* AnglePair with auxiliary radius: x^2 + y^2 + z^2 = r^2, both conventions *)
Theorem prime_prior_spherical : forall a v r,
  azzen_x a v r * azzen_x a v r + azzen_y a v r * azzen_y a v r + azzen_z a v r * azzen_z a v r = r * r /\
  radec_x a v r * radec_x a v r + radec_y a v r * radec_y a v r + radec_z a v r * radec_z a v r = r * r.
Proof.
  intros. unfold azzen_x, azzen_y, azzen_z, radec_x, radec_y, radec_z. split.
  - replace (r * sin v * cos a * (r * sin v * cos a) + r * sin v * sin a * (r * sin v * sin a) + r * cos v * (r * cos v))
      with (r * r * ((sin v)² * ((sin a)² + (cos a)²) + (cos v)²)) by (unfold Rsqr; ring).
    rewrite sin2_cos2, Rmult_1_r, sin2_cos2. ring.
  - replace (r * cos v * cos a * (r * cos v * cos a) + r * cos v * sin a * (r * cos v * sin a) + r * sin v * (r * sin v))
      with (r * r * ((cos v)² * ((sin a)² + (cos a)²) + (sin v)²)) by (unfold Rsqr; ring).
    rewrite sin2_cos2, Rmult_1_r, Rplus_comm, sin2_cos2. ring.
Qed.

(* ------------------------------------------------------------------ the Angle inverse off its supported range *)
(* Angle.inverse_reparameterise uses arctan2 / scale unless the lower prior bound is exactly 0:
   a scaled angle beyond pi comes back shifted by one period.  (bounds such as [1, 5.5] with scale 1,
   or any [a, b] with a > 0 under "periodic") *)
Lemma angle_wrap : exists th r, 0 < r /\ 0 < 1 * th < 2 * PI /\
  atan2R (polar_y 1 th r) (polar_x 1 th r) / 1 = th - 2 * PI /\
  atan2R (polar_y 1 th r) (polar_x 1 th r) / 1 <> th.
Proof.
  pose proof PI_4 as H4. pose proof PI2_3_2 as H3.
  exists 5, 1. split; [lra|]. split; [lra|].
  assert (E : atan2R (polar_y 1 5 1) (polar_x 1 5 1) / 1 = 5 - 2 * PI).
  { unfold polar_y, polar_x.
    replace (1 * 5) with ((5 - 2 * PI) + 2 * PI) by ring.
    rewrite sin_plus, cos_plus, sin_2PI, cos_2PI.
    replace (sin (5 - 2 * PI) * 1 + cos (5 - 2 * PI) * 0) with (sin (5 - 2 * PI)) by ring.
    replace (cos (5 - 2 * PI) * 1 - sin (5 - 2 * PI) * 0) with (cos (5 - 2 * PI)) by ring.
    rewrite atan2_polar by lra. field. }
  split; [exact E|]. rewrite E. lra.
Qed.

(* ------------------------------------------------------------------ tie A: every kind a registry entry can be
   classified as is certified *)
Definition sgn_ok (s : R) : Prop := s = 1 \/ s = -1.

Definition kind_ok (k : mkind) : Prop :=
  match k with
  | MKrtb pre post inversion offset =>
      forall i a b lo hi upd o b0 b1 lo' fac sgn,
        inv_on i = inversion ->
        (match pre with PrePower p s => 0 < dyR p /\ 0 < dyR s | _ => True end) ->
        b0 < b1 -> 0 < fac -> sgn_ok sgn ->
        cm_ok (cm_compose (rtb_cmaps {| r_pre := pre; r_post := post; r_inv := i; r_offset := offset;
                                        r_a := a; r_b := b; r_lo := lo; r_hi := hi; r_upd := upd |}
                                     o b0 b1 lo' fac sgn))
  | MKdist inversion offset =>
      forall pre i a b lo hi upd o b0 b1 lo' fac sgn,
        inv_on i = inversion ->
        (match pre with PrePower p s => 0 < dyR p /\ 0 < dyR s | _ => True end) ->
        b0 < b1 -> 0 < fac -> sgn_ok sgn ->
        cm_ok (cm_compose (rtb_cmaps {| r_pre := pre; r_post := PostNone; r_inv := i; r_offset := offset;
                                        r_a := a; r_b := b; r_lo := lo; r_hi := hi; r_upd := upd |}
                                     o b0 b1 lo' fac sgn))
  | MKscale => forall s t, s <> 0 -> cm_ok (cm_scale_shift s t)
  | MKnull => cm_ok cm_id
  | MKangle | MKcart =>
      forall s th r, 0 < s -> 0 < r ->
        radiusR (polar_x s th r) (polar_y s th r) = r /\
        (- PI < s * th < PI -> atan2R (polar_y s th r) (polar_x s th r) / s = th) /\
        (0 < s * th < 2 * PI -> atan2pR (polar_y s th r) (polar_x s th r) / s = th) /\
        Rabs (- (s * r)) = exp (ln r + ln s)
  | MKpair => forall r t, 0 < r -> 0 < t ->
        Rabs (- (r * r * t)) = exp (2 * ln r + ln t) /\ Rabs (r * r * t) = exp (2 * ln r + ln t)
  | MKdelta => True      (* unit Jacobian shift modulo 2 pi: direct predicate only, not modelled *)
  end.

Theorem kind_ok_all : forall k, kind_ok k.
Proof.
  intros k. destruct k; cbn [kind_ok].
  - intros. apply rtb_cfg_ok; assumption.
  - intros. apply scale_shift_ok; assumption.
  - exact cm_id_ok.
  - intros s th r Hs Hr. destruct (polar_roundtrip s th r Hs Hr) as [H1 [H2 H3]].
    repeat split; try assumption. apply polar_logdet; assumption.
  - intros s th r Hs Hr. destruct (polar_roundtrip s th r Hs Hr) as [H1 [H2 H3]].
    repeat split; try assumption. apply polar_logdet; assumption.
  - intros. apply spherical_logdet; assumption.
  - intros. apply rtb_cfg_ok; assumption.
  - exact I.
Qed.

(* the proven-sound checker of tie A: an entry the classifier accepts is modelled by a certified kind *)
Theorem classify_sound : forall e k, classify e = Some k -> kind_ok k.
Proof. intros e k _. apply kind_ok_all. Qed.

Theorem registry_sound : forall l, forallb classified l = true ->
  List.Forall (fun e => exists k, classify e = Some k /\ kind_ok k) l.
Proof.
  intros l H. rewrite forallb_forall in H. apply List.Forall_forall. intros e He.
  specialize (H e He). unfold classified in H. destruct (classify e) as [k|] eqn:E; [|discriminate].
  exists k. split; [reflexivity|apply kind_ok_all].
Qed.

(* ------------------------------------------------------------------ the log-Jacobian expressions of the 2-d / 3-d blocks
   denote the quantities of the determinant theorems *)
Lemma angle_lj_den : forall th r aux sc, evalR [th; r; aux; sc] (Rnd (Ln (V 1))) = ln r.
Proof. reflexivity. Qed.

Lemma to_cartesian_lj_den : forall x r sgn a b sc,
  evalR [x; r; sgn; a; b; sc] (Rnd (Add (Rnd (Neg (Rnd (Ln (Rnd (Sub (V 4) (V 3))))))) (Rnd (Ln (V 1))))) = - ln (b - a) + ln r.
Proof. reflexivity. Qed.

Lemma angle_pair_lj_den : forall a v r aux,
  evalR [a; v; r; aux] (Rnd (Add (Rnd (Mul c2 (Rnd (Ln (V 2))))) (Rnd (Ln (Rnd (Sin (V 1))))))) = 2 * ln r + ln (sin v) /\
  evalR [a; v; r; aux] (Rnd (Add (Rnd (Mul c2 (Rnd (Ln (V 2))))) (Rnd (Ln (Rnd (Cos (V 1))))))) = 2 * ln r + ln (cos v).
Proof. split; cbn [evalR nth]; rewrite ev_c2; reflexivity. Qed.

(* ToCartesian: (x, r) -> (r cos th, r sin th), th = sgn * ((x - a)/(b - a)) * sc: partial derivatives and determinant;
   |det| = exp ((- ln (b - a) + ln r) + ln sc): the reported value misses only the constant ln sc *)
Theorem to_cartesian_jacobian : forall a b sc sgn x r, a < b ->
  let th := fun t => sgn * ((t - a) / (b - a)) * sc in
  let k := sgn * sc / (b - a) in
  is_derive (fun t => r * cos (th t)) x (- k * r * sin (th x)) /\
  is_derive (fun q => q * cos (th x)) r (cos (th x)) /\
  is_derive (fun t => r * sin (th t)) x (k * r * cos (th x)) /\
  is_derive (fun q => q * sin (th x)) r (sin (th x)) /\
  (- k * r * sin (th x)) * sin (th x) - cos (th x) * (k * r * cos (th x)) = - (k * r).
Proof.
  intros a b sc sgn x r Hab th k. unfold th, k.
  split; [|split; [|split; [|split]]].
  - auto_derive; [exact I|]. replace ((x + - a) * / (b - a)) with ((x - a) / (b - a)) by (field; lra). field; lra.
  - auto_derive; [exact I|ring].
  - auto_derive; [exact I|]. replace ((x + - a) * / (b - a)) with ((x - a) / (b - a)) by (field; lra). field; lra.
  - auto_derive; [exact I|ring].
  - set (t := sgn * ((x - a) / (b - a)) * sc).
    replace (- (sgn * sc / (b - a)) * r * sin t * sin t - cos t * (sgn * sc / (b - a) * r * cos t))
      with (- (sgn * sc / (b - a) * r) * ((sin t)² + (cos t)²)) by (unfold Rsqr; ring).
    rewrite sin2_cos2. ring.
Qed.

Theorem to_cartesian_logdet : forall a b sc sgn r, a < b -> 0 < sc -> (sgn = 1 \/ sgn = -1) -> 0 < r ->
  Rabs (- (sgn * sc / (b - a) * r)) = exp ((- ln (b - a) + ln r) + ln sc).
Proof.
  intros a b sc sgn r Hab Hsc Hs Hr.
  assert (Hp : 0 < sc / (b - a) * r).
  { apply Rmult_lt_0_compat; [apply Rdiv_lt_0_compat; lra|exact Hr]. }
  rewrite Rabs_Ropp.
  replace (Rabs (sgn * sc / (b - a) * r)) with (sc / (b - a) * r).
  2:{ destruct Hs as [-> | ->].
      - rewrite Rmult_1_l. symmetry. apply Rabs_pos_eq. lra.
      - replace (-1 * sc / (b - a) * r) with (- (sc / (b - a) * r)) by (field; lra).
        rewrite Rabs_Ropp. symmetry. apply Rabs_pos_eq. lra. }
  rewrite !exp_plus, exp_Ropp, !exp_ln by lra. field. lra.
Qed.

(* ------------------------------------------------------------------ prime priors of Angle / AnglePair *)
(* the densities are what their names say: derivatives of the distribution functions *)
Lemma chi2_is_density : forall r, 0 < r ->
  is_derive (fun t => 1 - exp (- (t * t) / 2)) r (exp (chi2_logpdf r)).
Proof.
  intros r Hr. unfold chi2_logpdf. auto_derive; [exact I|].
  replace (ln r - r * r / 2) with (ln r + (- (r * r) * / 2)) by field.
  rewrite exp_plus, exp_ln by exact Hr. field.
Qed.

Lemma sine_is_density : forall a, 0 < a < PI ->
  is_derive (fun t => (1 - cos t) / 2) a (exp (sine_logpdf a)) /\ (1 - cos 0) / 2 = 0 /\ (1 - cos PI) / 2 = 1.
Proof.
  intros a Ha. assert (Hs : 0 < sin a) by (apply sin_gt_0; lra).
  split; [|split].
  - unfold sine_logpdf. rewrite exp_ln by lra. auto_derive; [exact I|field].
  - rewrite cos_0. field.
  - rewrite cos_PI. field.
Qed.

(* log_2d_cartesian_prior_sine at the image of (th, r): [sine(s th) + chi2(r)] - ln r, constant 0 *)
Theorem prime_prior_polar_sine : forall s th r, 0 < r -> 0 < sin (s * th) ->
  prior2d_sine (polar_x s th r) (polar_y s th r) = (sine_logpdf (s * th) + chi2_logpdf r) - ln r.
Proof.
  intros s th r Hr Hs. unfold prior2d_sine, polar_x, polar_y, sine_logpdf, chi2_logpdf.
  replace (r * cos (s * th) * (r * cos (s * th)) + r * sin (s * th) * (r * sin (s * th)))
    with (r * r * ((sin (s * th))² + (cos (s * th))²)) by (unfold Rsqr; ring).
  rewrite sin2_cos2, Rmult_1_r.
  replace (r * sin (s * th) / 2) with (r * (sin (s * th) / 2)) by field.
  rewrite !ln_mult by lra. field.
Qed.

Theorem prime_prior_polar_uniform : forall s th r k,
  prior2d (polar_x s th r) (polar_y s th r) k = chi2_logpdf r - ln r - ln k.
Proof.
  intros. unfold prior2d, polar_x, polar_y, chi2_logpdf.
  replace (r * cos (s * th) * (r * cos (s * th)) + r * sin (s * th) * (r * sin (s * th)))
    with (r * r * ((sin (s * th))² + (cos (s * th))²)) by (unfold Rsqr; ring).
  rewrite sin2_cos2. field.
Qed.

(* AnglePair, isotropic prior + chi(3) radius: the inlined prime prior equals prior - log_J exactly *)
Theorem prime_prior_sphere : forall a v r, 0 < r ->
  (0 < sin v -> prior3d (azzen_x a v r) (azzen_y a v r) (azzen_z a v r)
                = (iso_logpdf (sin v) + chi3_logpdf r) - (2 * ln r + ln (sin v))) /\
  (0 < cos v -> prior3d (radec_x a v r) (radec_y a v r) (radec_z a v r)
                = (iso_logpdf (cos v) + chi3_logpdf r) - (2 * ln r + ln (cos v))).
Proof.
  intros a v r Hr. destruct (prime_prior_spherical a v r) as [E1 E2].
  assert (HP : 0 < PI) by apply PI_RGT_0.
  assert (Hc : forall t, 0 < t ->
     - (3 / 2) * ln (2 * PI) - r * r / 2 = ln (t / 2) - ln (2 * PI) + (/ 2 * ln (2 / PI) + 2 * ln r - r * r / 2) - (2 * ln r + ln t)).
  { intros t Ht. unfold Rdiv. rewrite !ln_mult, !ln_Rinv by (try apply Rinv_0_lt_compat; lra). field. }
  split; intros Hpos; unfold prior3d, iso_logpdf, chi3_logpdf.
  - rewrite E1. apply Hc; exact Hpos.
  - rewrite E2. apply Hc; exact Hpos.
Qed.

(* the expressions evaluated by the tie denote log p - log_J *)
Lemma pp_polar_uniform_den : forall a r, evalR [a; r] (pp_polar_uniform (V 1)) = chi2_logpdf r - ln r.
Proof. intros. cbn [pp_polar_uniform e_chi2 evalR nth]. rewrite ev_c2. reflexivity. Qed.

Lemma pp_polar_sine_den : forall a r s,
  evalR [a; r; s] (pp_polar_sine (V 0) (V 1) (V 2)) = (sine_logpdf (a * s) + chi2_logpdf r) - ln r.
Proof. intros. cbn [pp_polar_sine e_chi2 evalR nth]. rewrite !ev_c2. reflexivity. Qed.

Lemma pp_sphere_den : forall a v r,
  evalR [a; v; r] (pp_sphere true (V 1) (V 2)) = (iso_logpdf (sin v) + chi3_logpdf r) - (2 * ln r + ln (sin v)) /\
  evalR [a; v; r] (pp_sphere false (V 1) (V 2)) = (iso_logpdf (cos v) + chi3_logpdf r) - (2 * ln r + ln (cos v)).
Proof.
  intros. split; cbn [pp_sphere evalR nth]; rewrite !ev_c2; unfold iso_logpdf, chi3_logpdf; field_simplify_eq; try ring;
    try (apply Rgt_not_eq; apply PI_RGT_0).
Qed.
