(* C14 - lemmas: a run depends on the evaluator only extensionally, on the random streams only through
   the prefixes it consumes; the usage-table checker reflects its specification. *)
From Coq Require Import String.
From Coq Require Import List Arith Bool Lia.
Import ListNotations.
From NessaiV Require Import Model.C10_Batch Proofs.C10_Batch_proofs Model.C14_Repro.

Section Prog.
Variables (A B Rn Rt Out : Type).
Notation prog := (prog A B Rn Rt Out).

Lemma run_ext (ev1 ev2 : list A -> list B) :
  (forall l, ev1 l = ev2 l) ->
  forall (p : prog) sn st, run ev1 p sn st = run ev2 p sn st.
Proof.
  intros H. induction p as [o|k IH|k IH|batch k IH]; intros sn st; cbn [run].
  - reflexivity.
  - destruct sn as [|r sn']; [reflexivity|]. now rewrite IH.
  - destruct st as [|r st']; [reflexivity|]. now rewrite IH.
  - rewrite H. now rewrite IH.
Qed.

(* the result depends only on the prefixes of the two streams that the run consumed *)
Lemma run_prefix ev : forall (p : prog) sn st o a b e,
  run ev p sn st = Some (o, a, b, e) ->
  forall sn' st', firstn a sn' = firstn a sn -> firstn b st' = firstn b st ->
  length sn' >= a -> length st' >= b ->
  run ev p sn' st' = Some (o, a, b, e).
Proof.
  induction p as [o0|k IH|k IH|batch k IH]; intros sn st o a b e H sn' st' Hn Ht Ln Lt; cbn [run] in *.
  - exact H.
  - destruct sn as [|r sn1]; [discriminate|].
    destruct (run ev (k r) sn1 st) as [[[[o1 a1] b1] e1]|] eqn:E; [|discriminate].
    injection H as <- <- <- <-.
    destruct sn' as [|r' sn1']; [cbn in Ln; lia|]. cbn [firstn] in Hn. injection Hn as -> Hn.
    cbn [length] in Ln. rewrite (IH r _ _ _ _ _ _ E sn1' st' Hn Ht); [reflexivity|lia|exact Lt].
  - destruct st as [|r st1]; [discriminate|].
    destruct (run ev (k r) sn st1) as [[[[o1 a1] b1] e1]|] eqn:E; [|discriminate].
    injection H as <- <- <- <-.
    destruct st' as [|r' st1']; [cbn in Lt; lia|]. cbn [firstn] in Ht. injection Ht as -> Ht.
    cbn [length] in Lt. rewrite (IH r _ _ _ _ _ _ E sn' st1' Hn Ht); [reflexivity|exact Ln|lia].
  - destruct (run ev (k (ev batch)) sn st) as [[[[o1 a1] b1] e1]|] eqn:E; [|discriminate].
    injection H as <- <- <- <-.
    now rewrite (IH _ _ _ _ _ _ _ E sn' st' Hn Ht Ln Lt).
Qed.

Lemma run_consumed ev : forall (p : prog) sn st o a b e,
  run ev p sn st = Some (o, a, b, e) -> a <= length sn /\ b <= length st.
Proof.
  induction p as [o0|k IH|k IH|batch k IH]; intros sn st o a b e H; cbn [run] in *.
  - injection H as <- <- <- <-. lia.
  - destruct sn as [|r sn1]; [discriminate|].
    destruct (run ev (k r) sn1 st) as [[[[o1 a1] b1] e1]|] eqn:E; [|discriminate].
    injection H as <- <- <- <-. destruct (IH _ _ _ _ _ _ _ E). cbn [length]. lia.
  - destruct st as [|r st1]; [discriminate|].
    destruct (run ev (k r) sn st1) as [[[[o1 a1] b1] e1]|] eqn:E; [|discriminate].
    injection H as <- <- <- <-. destruct (IH _ _ _ _ _ _ _ E). cbn [length]. lia.
  - destruct (run ev (k (ev batch)) sn st) as [[[[o1 a1] b1] e1]|] eqn:E; [|discriminate].
    injection H as <- <- <- <-. exact (IH _ _ _ _ _ _ _ E).
Qed.
End Prog.

(* ---- parallelisation settings reach the run only through C10's batch evaluation ---------------- *)
Section Par.
Variables (A B Rn Rt Out : Type).
Variable f : A -> B.

Definition settings_ok (fv : list A -> list B) (pmap : forall X Y, (X -> Y) -> list X -> list Y) (i : binputs) : Prop :=
  (vectorised i = true -> forall l, fv l = map f l) /\
  (forall X Y (g : X -> Y) l, pmap X Y g l = map g l) /\
  (has_pool i = true -> 1 <= n_pool i).

Lemma par_independent fv1 pmap1 i1 fv2 pmap2 i2 :
  settings_ok fv1 pmap1 i1 -> settings_ok fv2 pmap2 i2 ->
  forall (p : prog A B Rn Rt Out) sn st,
    run (eval_tree f fv1 pmap1 batch_tree i1) p sn st = run (eval_tree f fv2 pmap2 batch_tree i2) p sn st.
Proof.
  intros (V1 & M1 & N1) (V2 & M2 & N2) p sn st. apply run_ext. intros l.
  rewrite (checker_sound f fv1 pmap1 i1 V1 M1 N1 batch_tree l batch_tree_ok).
  rewrite (checker_sound f fv2 pmap2 i2 V2 M2 N2 batch_tree l batch_tree_ok). reflexivity.
Qed.

(* for ANY decision tree the C10 checker accepts (the tree regenerated from the source on every run) *)
Lemma par_independent_tree t1 t2 fv1 pmap1 i1 fv2 pmap2 i2 :
  tree_ok t1 no_facts = true -> tree_ok t2 no_facts = true ->
  settings_ok fv1 pmap1 i1 -> settings_ok fv2 pmap2 i2 ->
  forall (p : prog A B Rn Rt Out) sn st,
    run (eval_tree f fv1 pmap1 t1 i1) p sn st = run (eval_tree f fv2 pmap2 t2 i2) p sn st.
Proof.
  intros T1 T2 (V1 & M1 & N1) (V2 & M2 & N2) p sn st. apply run_ext. intros l.
  rewrite (checker_sound f fv1 pmap1 i1 V1 M1 N1 t1 l T1).
  rewrite (checker_sound f fv2 pmap2 i2 V2 M2 N2 t2 l T2). reflexivity.
Qed.
End Par.

(* ---- the usage-table checker -------------------------------------------------------------------- *)
Definition Confined (allowed : list string) (seed_s init_s : string) (t : list entry) : Prop :=
  (forall site s, In (ERand site s) t ->
     match s with
     | NumpyGlobal | TorchGlobal | ScipyGlobal | TorchDistSample => True
     | SeedNumpy | SeedTorch | SeedFromNumpy => site = seed_s
     | DefaultRng b | RandomStateCtor b => b = true
     | _ => False
     end) /\
  (forall site g, In (ESeedGuard site g) t -> g = GIsNone) /\
  ((exists site, In (ERand site SeedFromNumpy) t) -> In (ESeedGuard seed_s GIsNone) t) /\
  (forall site k, In (ESetIter site k) t -> k <> SOtherSink) /\
  (forall site a, In (EPoolRead site a) t -> In site allowed) /\
  (forall site a, In (EPoolWrite site a) t -> In a pool_state) /\
  (forall site w, ~ In (EEnvGuardedDraw site w) t) /\
  In (ERand seed_s SeedNumpy) t /\ In (ERand seed_s SeedTorch) t /\ In (ESeedCall init_s) t.

Lemma mem_In x l : mem x l = true -> In x l.
Proof.
  unfold mem. intros H. apply existsb_exists in H. destruct H as [y [H1 H2]].
  apply String.eqb_eq in H2. now subst.
Qed.

Lemma rng_confined_sound allowed seed_s init_s t :
  rng_confined allowed seed_s init_s t = true -> Confined allowed seed_s init_s t.
Proof.
  unfold rng_confined. intros H.
  apply andb_prop in H. destruct H as [H H5]. apply andb_prop in H. destruct H as [H H4].
  apply andb_prop in H. destruct H as [H H3]. apply andb_prop in H. destruct H as [H H2].
  apply andb_prop in H. destruct H as [H1 H6].
  rewrite forallb_forall in H1, H5. unfold Confined. repeat split.
  - intros site s Hin. specialize (H1 _ Hin). specialize (H5 _ Hin). cbn in H1, H5.
    destruct s; cbn in *; try discriminate; auto; now apply String.eqb_eq in H5.
  - intros site g Hin. specialize (H1 _ Hin). cbn in H1. destruct g; congruence.
  - intros [site Hin]. apply orb_prop in H6. destruct H6 as [H6|H6].
    + apply negb_true_iff in H6. assert (E : existsb is_seed_gen t = true).
      { apply existsb_exists. exists (ERand site SeedFromNumpy). split; [exact Hin|reflexivity]. }
      congruence.
    + apply existsb_exists in H6. destruct H6 as [e [Hine He]]. destruct e as [s g| | | | | |]; try discriminate.
      destruct g; try discriminate. cbn in He. apply String.eqb_eq in He. now subst.
  - intros site k Hin. specialize (H1 _ Hin). cbn in H1. destruct k; cbn in H1; congruence.
  - intros site a Hin. specialize (H1 _ Hin). cbn in H1. now apply mem_In.
  - intros site a Hin. specialize (H1 _ Hin). cbn in H1. now apply mem_In.
  - intros site w Hin. specialize (H1 _ Hin). cbn in H1. discriminate.
  - apply existsb_exists in H2. destruct H2 as [e [Hin He]]. destruct e as [|s r| | | | |]; try discriminate.
    destruct r; try discriminate. cbn in He. apply String.eqb_eq in He. now subst.
  - apply existsb_exists in H3. destruct H3 as [e [Hin He]]. destruct e as [|s r| | | | |]; try discriminate.
    destruct r; try discriminate. cbn in He. apply String.eqb_eq in He. now subst.
  - apply existsb_exists in H4. destruct H4 as [e [Hin He]]. destruct e as [| | | | |s|]; try discriminate.
    cbn in He. apply String.eqb_eq in He. now subst.
Qed.
