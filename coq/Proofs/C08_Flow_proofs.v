(* C08 - the density glue is consistent for every number of layers and every oracle satisfying layer_ok.
   Instance of Model/C08_Flow.v at Coq's reals. *)
From Coq Require Import List Reals Lra.
Import ListNotations.
From NessaiV Require Import Model.C08_Flow.
Local Open Scope R_scope.

Notation Rlayer := (layer R).
Notation Rflow := (flow R).
Notation cfwd := (comp_fwd R Rplus 0).
Notation cinv := (comp_inv R Rplus 0).
Notation Rcomposite := (composite R Rplus 0).
Notation Rlog_prob := (log_prob R Rplus).
Notation Rforward_and_log_prob := (forward_and_log_prob R Rplus).
Notation Rsample_and_log_prob := (sample_and_log_prob R Rminus).
Notation Rforward_pass := (forward_pass R Rplus).
Notation Rbackward_pass := (backward_pass R Rminus).

Section P.
Variable X : Type.

Lemma composite_ok : forall ls : list (Rlayer X X), Forall layer_ok ls -> layer_ok (Rcomposite X ls).
Proof.
  induction ls as [|l r IH]; intros H.
  - split; intros x; simpl; split; auto; lra.
  - inversion H as [|? ? Hl Hr]; subst. specialize (IH Hr). destruct IH as [IH1 IH2]. destruct Hl as [Hl1 Hl2].
    split.
    + intros x. simpl. destruct (Hl1 x) as [A1 A2].
      destruct (fwd l x) as [y d] eqn:E1. simpl in A1, A2.
      destruct (IH1 y) as [B1 B2]. simpl in B1, B2.
      destruct (cfwd X r y) as [z d'] eqn:E2. simpl in B1, B2. simpl.
      destruct (cinv X r z) as [y' e] eqn:E3. simpl in B1, B2. subst y'.
      destruct (inv l y) as [x' e'] eqn:E4. simpl in A1, A2. subst x'. simpl. split; [reflexivity|lra].
    + intros z. simpl. destruct (IH2 z) as [B1 B2]. simpl in B1, B2.
      destruct (cinv X r z) as [y e] eqn:E3. simpl in B1, B2.
      destruct (Hl2 y) as [A1 A2].
      destruct (inv l y) as [x e'] eqn:E4. simpl in A1, A2. simpl.
      destruct (fwd l x) as [y' d] eqn:E1. simpl in A1, A2. subst y'.
      destruct (cfwd X r y) as [z' d'] eqn:E2. simpl in B1, B2. subst z'. simpl. split; [reflexivity|lra].
Qed.

Lemma roundtrip : forall t : Rlayer X X, layer_ok t ->
  (forall x, fst (inv t (fst (fwd t x))) = x) /\ (forall z, fst (fwd t (fst (inv t z))) = z).
Proof. intros t [H1 H2]. split; intros a; [apply (H1 a)|apply (H2 a)]. Qed.

Lemma composite_roundtrip : forall ls : list (Rlayer X X), Forall layer_ok ls ->
  (forall x, fst (cinv X ls (fst (cfwd X ls x))) = x) /\ (forall z, fst (cfwd X ls (fst (cinv X ls z))) = z).
Proof. intros ls H. exact (roundtrip _ (composite_ok ls H)). Qed.

(* the density reported with a generated sample is the density evaluated at that sample, up to the explicit correction
   when the latent points were not drawn from the base distribution (alt_dist) *)
Lemma sample_logprob_general : forall (f : Rflow X) (latent : X -> R) (z : X), layer_ok (transform R X f) ->
  Rlog_prob X f (fst (Rsample_and_log_prob X f latent z))
  = snd (Rsample_and_log_prob X f latent z) + (base R X f z - latent z).
Proof.
  intros f latent z [H1 H2]. unfold log_prob, sample_and_log_prob, g_log_prob, g_sample_log_prob.
  destruct (H2 z) as [A1 A2].
  destruct (inv (transform R X f) z) as [x ld] eqn:E. simpl in *.
  destruct (fwd (transform R X f) x) as [z' ld'] eqn:E'. simpl in *. subst z'. lra.
Qed.
Lemma sample_logprob : forall (f : Rflow X) (z : X), layer_ok (transform R X f) ->
  Rlog_prob X f (fst (Rsample_and_log_prob X f (base R X f) z)) = snd (Rsample_and_log_prob X f (base R X f) z).
Proof. intros f z H. rewrite (sample_logprob_general f (base R X f) z H). lra. Qed.

Lemma forward_and_log_prob_agrees : forall (f : Rflow X) (x : X),
  snd (Rforward_and_log_prob X f x) = Rlog_prob X f x /\ fst (Rforward_and_log_prob X f x) = fst (fwd (transform R X f) x).
Proof. intros f x. unfold forward_and_log_prob, log_prob. destruct (fwd (transform R X f) x); simpl; auto. Qed.

Variable Pt : Type.
Lemma proposal_consistent : forall (rp : Rlayer Pt X) (f : Rflow X) (latent : X -> R) (z : X),
  layer_ok rp -> layer_ok (transform R X f) ->
  snd (Rforward_pass X Pt rp f (fst (Rbackward_pass X Pt rp f latent z)))
  = snd (Rbackward_pass X Pt rp f latent z) + (base R X f z - latent z)
  /\ fst (Rforward_pass X Pt rp f (fst (Rbackward_pass X Pt rp f latent z))) = z.
Proof.
  intros rp f latent z [R1 R2] [H1 H2].
  unfold forward_pass, backward_pass, forward_and_log_prob, sample_and_log_prob,
         g_forward_pass, g_backward_pass, g_log_prob, g_sample_log_prob.
  destruct (H2 z) as [A1 A2].
  destruct (inv (transform R X f) z) as [xp ld] eqn:E. simpl in A1, A2.
  destruct (R2 xp) as [B1 B2].
  destruct (inv rp xp) as [x lji] eqn:E2. simpl in B1, B2. simpl.
  destruct (fwd rp x) as [xp' lj] eqn:E3. simpl in B1, B2. subst xp'.
  destruct (fwd (transform R X f) xp) as [z' ld'] eqn:E4. simpl in A1, A2. subst z'. simpl. split; [lra|reflexivity].
Qed.

Lemma ins_consistent : forall (rp : Rlayer Pt X) (flows : list (Rflow X)) (xp : X),
  layer_ok rp ->
  ins_row_at_draw R Rplus X Pt rp flows xp = ins_row_recomputed R Rplus X Pt rp flows (fst (inv rp xp)).
Proof.
  intros rp flows xp [R1 R2]. unfold ins_row_at_draw, ins_row_recomputed.
  destruct (R2 xp) as [B1 _].
  destruct (fwd rp (fst (inv rp xp))) as [xp' lj] eqn:E. simpl in *. subst xp'. reflexivity.
Qed.
End P.

(* the value-level glue: sign errors are excluded by these identities *)
Lemma g_roundtrip_values : forall b ld, g_sample_log_prob R Rminus (g_log_prob R Rplus b ld) ld = b.
Proof. intros. unfold g_sample_log_prob, g_log_prob. lra. Qed.
Lemma g_total_app : forall l1 l2, g_total R Rplus 0 (l1 ++ l2) = g_total R Rplus 0 l1 + g_total R Rplus 0 l2.
Proof.
  intros l1 l2. unfold g_total. rewrite fold_left_app.
  assert (H : forall l a, fold_left Rplus l a = a + fold_left Rplus l 0).
  { induction l as [|x l IH]; intros a; simpl; [lra|]. rewrite (IH (a + x)), (IH (0 + x)). lra. }
  rewrite (H l2). reflexivity.
Qed.
Lemma comp_fwd_total : forall (X : Type) (ls : list (Rlayer X X)) (x : X),
  exists lds, length lds = length ls /\ snd (cfwd X ls x) = g_total R Rplus 0 lds.
Proof.
  induction ls as [|l r IH]; intros x; simpl.
  - exists []. split; [reflexivity|]. unfold g_total. reflexivity.
  - destruct (fwd l x) as [y d]. destruct (IH y) as [lds [HL HS]]. destruct (cfwd X r y) as [z d']. simpl in *.
    exists (d :: lds). split; [simpl; congruence|]. change (d :: lds) with ([d] ++ lds). rewrite g_total_app.
    rewrite <- HS. unfold g_total. simpl. lra.
Qed.

(* chunked evaluation returns one value per input row, in order, whatever the chunking (incl. a last partial chunk) *)
Lemma batched_eval_rows : forall (X T : Type) (f : X -> T) (chunks : list (list X)),
  batched_eval f chunks = map f (concat chunks).
Proof. intros. unfold batched_eval. symmetry. apply concat_map. Qed.
Lemma batched_eval_length : forall (X T : Type) (f : X -> T) (chunks : list (list X)),
  length (batched_eval f chunks) = length (concat chunks).
Proof. intros. rewrite batched_eval_rows. apply map_length. Qed.

(* ---- alignment of samples and density rows in ImportanceFlowProposal.draw ---------------------------------------------- *)
Lemma keep_by_map : forall (A B : Type) (f : A -> B) mask (l : list A), keep_by mask (map f l) = map f (keep_by mask l).
Proof.
  induction mask as [|[|] m IH]; intros [|x r]; simpl; try reflexivity; [f_equal; apply IH | apply IH].
Qed.
Lemma concat_map_map : forall (A B : Type) (f : A -> B) (ls : list (list A)), concat (map (map f) ls) = map f (concat ls).
Proof. intros. symmetry. apply concat_map. Qed.
Lemma combine_map_self : forall (A B : Type) (f : A -> B) (l : list A),
  Forall (fun p => snd p = f (fst p)) (combine l (map f l)).
Proof. induction l as [|x r IH]; simpl; constructor; auto. Qed.

Lemma map_fst_combine_self : forall (A B : Type) (f : A -> B) (l : list A), map fst (combine l (map f l)) = l.
Proof. induction l as [|x r IH]; simpl; [reflexivity|]. f_equal. exact IH. Qed.

(* filtering a batch and its rows by the same mask, concatenating and trimming both arrays: every returned row is the row of
   the sample it is returned with (rows = map f points in every batch, f = "the density row of this point") *)
Lemma draw_aligned_rows : forall (A B : Type) (f : A -> B) (n : nat) (bs : list (draw_batch A B)),
  Forall (fun b => snd b = map f (snd (fst b))) bs ->
  Forall (fun p => snd p = f (fst p)) (draw_aligned n bs).
Proof.
  intros A B f n bs H. unfold draw_aligned.
  assert (E : concat (map (fun b : draw_batch A B => keep_by (fst (fst b)) (snd b)) bs)
              = map f (concat (map (fun b : draw_batch A B => keep_by (fst (fst b)) (snd (fst b))) bs))).
  { rewrite <- concat_map_map. f_equal. rewrite map_map.
    induction H as [|b r Hb Hr IH]; simpl; [reflexivity|]. rewrite Hb, keep_by_map, IH. reflexivity. }
  unfold draw_batch in *. rewrite E, firstn_map. apply combine_map_self.
Qed.
Lemma draw_aligned_length : forall (A B : Type) (f : A -> B) (n : nat) (bs : list (draw_batch A B)),
  Forall (fun b => snd b = map f (snd (fst b))) bs ->
  map fst (draw_aligned n bs) = firstn n (concat (map (fun b => keep_by (fst (fst b)) (snd (fst b))) bs)).
Proof.
  intros A B f n bs H. unfold draw_aligned.
  assert (E : concat (map (fun b : draw_batch A B => keep_by (fst (fst b)) (snd b)) bs)
              = map f (concat (map (fun b : draw_batch A B => keep_by (fst (fst b)) (snd (fst b))) bs))).
  { rewrite <- concat_map_map. f_equal. rewrite map_map.
    induction H as [|b r Hb Hr IH]; simpl; [reflexivity|]. rewrite Hb, keep_by_map, IH. reflexivity. }
  unfold draw_batch in *. rewrite E, firstn_map. apply map_fst_combine_self.
Qed.
(* rows appended unfiltered and trimmed: one rejected point shifts every later row *)
Lemma draw_rows_unfiltered_refuted : exists (f : nat -> nat) (n : nat) (bs : list (draw_batch nat nat)),
  Forall (fun b => snd b = map f (snd (fst b))) bs /\
  ~ Forall (fun p => snd p = f (fst p)) (draw_rows_unfiltered n bs).
Proof.
  exists (fun x => 10 + x)%nat, 1%nat, [([false; true], [0; 1], [10; 11])]%nat. split.
  - repeat constructor.
  - vm_compute. intros H. inversion H as [|? ? H1 _]; subst. simpl in H1. discriminate.
Qed.
