(* C20 - lemmas about Model.C20_Options. *)
From Coq Require Import List ZArith Bool String Arith Lia ZifyBool.
Import ListNotations.
From NessaiV Require Import Model.C20_Options.
Local Open Scope Z_scope.

(* =========================================================================================== *)
(** * (i) population loops *)

(* the progress hypothesis that is monitored in real runs: every pass accepts at least one point *)
Definition progresses (s : nat -> batch) := forall j, b_empty (s j) = false /\ 1 <= b_acc (s j).

Lemma populate_progress : forall fuel N d m s k a p,
  progresses s -> (Z.to_nat (N - a) <= fuel)%nat ->
  exists k' a', populate fuel false N d m s k a p = Done k' a' (p + Z.of_nat (k' - k) * d)
                /\ (k <= k')%nat /\ (k' - k <= Z.to_nat (N - a))%nat /\ N <= a'.
Proof.
  induction fuel as [|f IH]; intros N d m s k a p Hs Hf; cbn [populate].
  - destruct (N <=? a) eqn:E.
    + exists k, a. replace (k - k)%nat with 0%nat by lia. cbn. split; [f_equal; lia|]. lia.
    + lia.
  - destruct (N <=? a) eqn:E.
    + exists k, a. replace (k - k)%nat with 0%nat by lia. cbn. split; [f_equal; lia|]. lia.
    + destruct (Hs k) as [He Ha]. rewrite He.
      destruct (IH N d m s (S k) (a + b_acc (s k)) (p + d) Hs) as (k' & a' & H1 & H2 & H3 & H4); [lia|].
      exists k', a'. rewrite H1. split.
      * f_equal. replace (Z.of_nat (k' - k)) with (Z.of_nat (k' - S k) + 1) by lia. ring.
      * lia.
Qed.

Definition P_populate_terminates :=
  forall N d m s fuel, 0 <= N -> 0 <= d -> progresses s -> (Z.to_nat N <= fuel)%nat ->
  exists k a p, populate0 fuel false N d m s = Done k a p
                /\ (k <= Z.to_nat N)%nat /\ p = Z.of_nat k * d /\ p <= N * d /\ N <= a.

Lemma populate_terminates : P_populate_terminates.
Proof.
  intros N d m s fuel HN Hd Hs Hf. unfold populate0.
  destruct (populate_progress fuel N d m s 0%nat 0 0 Hs) as (k & a & H1 & H2 & H3 & H4).
  - rewrite Z.sub_0_r. exact Hf.
  - rewrite Z.sub_0_r in H3. rewrite Nat.sub_0_r in *. cbn in H1.
    exists k, a, (Z.of_nat k * d). repeat split; auto.
    apply Z.mul_le_mono_nonneg_r; lia.
Qed.

(* accumulate_weights = True: the max_samples guard bounds the loop whatever is accepted, as long as
   no pass is skipped by the `continue` that precedes the guard *)
Lemma populate_acc_bounded : forall fuel N d m s k a p,
  1 <= d -> p <= m -> (forall j, b_empty (s j) = false) -> (Z.to_nat (m - p) + 1 <= fuel)%nat ->
  exists k' a' p', populate fuel true N d m s k a p = Done k' a' p'
                   /\ (k' - k <= Z.to_nat (m - p) + 1)%nat /\ p' <= m + d.
Proof.
  induction fuel as [|f IH]; intros N d m s k a p Hd Hp Hs Hf; cbn [populate]; [lia|].
  destruct (N <=? a) eqn:E.
  - exists k, a, p. split; [reflexivity|]. lia.
  - rewrite Hs. destruct (p + d >? m) eqn:Eb.
    + eexists (S k), _, (p + d). split; [reflexivity|]. lia.
    + destruct (IH N d m s (S k) (if b_try (s k) then b_acc (s k) else a) (p + d)) as (k' & a' & p' & H1 & H2 & H3);
        try assumption; try lia.
      exists k', a', p'. rewrite H1. split; [reflexivity|]. lia.
Qed.

Definition P_populate_accumulate_bounded :=
  forall N d m s fuel, 1 <= d -> 0 <= m -> (forall j, b_empty (s j) = false) -> (Z.to_nat m + 1 <= fuel)%nat ->
  exists k a p, populate0 fuel true N d m s = Done k a p /\ (k <= Z.to_nat m + 1)%nat /\ p <= m + d.

Lemma populate_accumulate_bounded : P_populate_accumulate_bounded.
Proof.
  intros N d m s fuel Hd Hm Hs Hf. unfold populate0.
  destruct (populate_acc_bounded fuel N d m s 0%nat 0 0 Hd Hm Hs) as (k & a & p & H1 & H2 & H3).
  - rewrite Z.sub_0_r. exact Hf.
  - rewrite Z.sub_0_r, Nat.sub_0_r in H2. exists k, a, p. auto.
Qed.

(* the loop CAN spin: nothing in the rejection-per-batch branch bounds the number of passes *)
Definition stuck : nat -> batch := fun _ => mkBatch false false 0.
Definition all_truncated : nat -> batch := fun _ => mkBatch true false 0.

Lemma populate_spins : forall fuel N d m k a p, a < N -> populate fuel false N d m stuck k a p = OutOfFuel.
Proof.
  induction fuel as [|f IH]; intros N d m k a p H; cbn [populate].
  - destruct (N <=? a) eqn:E; [lia|reflexivity].
  - destruct (N <=? a) eqn:E; [lia|]. cbn [stuck b_empty b_acc]. rewrite Z.add_0_r. apply IH. exact H.
Qed.

(* ... and even with accumulate_weights the `continue` of an all-discarded pass skips the guard *)
Lemma populate_spins_truncated : forall fuel acc N d m k a p, a < N -> populate fuel acc N d m all_truncated k a p = OutOfFuel.
Proof.
  induction fuel as [|f IH]; intros acc N d m k a p H; cbn [populate].
  - destruct (N <=? a) eqn:E; [lia|reflexivity].
  - destruct (N <=? a) eqn:E; [lia|]. cbn [all_truncated b_empty]. apply IH. exact H.
Qed.

Definition P_populate_can_spin :=
  forall N d m, 1 <= N -> exists s, forall fuel, populate0 fuel false N d m s = OutOfFuel.
Lemma populate_can_spin : P_populate_can_spin.
Proof. intros N d m H. exists stuck. intros fuel. apply populate_spins. lia. Qed.

Definition P_populate_can_spin_accumulate :=
  forall N d m, 1 <= N -> exists s, forall fuel, populate0 fuel true N d m s = OutOfFuel.
Lemma populate_can_spin_accumulate : P_populate_can_spin_accumulate.
Proof. intros N d m H. exists all_truncated. intros fuel. apply populate_spins_truncated. lia. Qed.

(* ---- ImportanceFlowProposal.draw ---------------------------------------------------------- *)
Lemma ins_progress : forall fuel n nd s k a,
  (forall j, 1 <= s j) -> (Z.to_nat (n - a) <= fuel)%nat ->
  exists k' a', ins_draw fuel n nd s k a = Done k' a' (Z.of_nat k' * nd)
                /\ (k <= k')%nat /\ (k' - k <= Z.to_nat (n - a))%nat /\ (n <= a' \/ nd <= 0).
Proof.
  induction fuel as [|f IH]; intros n nd s k a Hs Hf; cbn [ins_draw].
  - destruct ((a <? n) && (0 <? nd)) eqn:E; [lia|]. exists k, a. split; [reflexivity|]. lia.
  - destruct ((a <? n) && (0 <? nd)) eqn:E.
    + specialize (Hs k) as Hk.
      destruct (IH n nd s (S k) (a + s k) Hs) as (k' & a' & H1 & H2 & H3 & H4); [lia|].
      exists k', a'. rewrite H1. split; [reflexivity|]. lia.
    + exists k, a. split; [reflexivity|]. lia.
Qed.

Definition P_ins_draw_terminates :=
  forall n nd s fuel, 0 <= n -> 0 <= nd -> (forall j, 1 <= s j) -> (Z.to_nat n <= fuel)%nat ->
  exists k a p, ins_draw0 fuel n nd s = Done k a p
                /\ (k <= Z.to_nat n)%nat /\ p = Z.of_nat k * nd /\ p <= n * nd /\ (n <= a \/ nd <= 0).
Lemma ins_draw_terminates : P_ins_draw_terminates.
Proof.
  intros n nd s fuel Hn Hnd Hs Hf. unfold ins_draw0.
  destruct (ins_progress fuel n nd s 0%nat 0 Hs) as (k & a & H1 & H2 & H3 & H4).
  - rewrite Z.sub_0_r. exact Hf.
  - rewrite Z.sub_0_r, Nat.sub_0_r in H3. exists k, a, (Z.of_nat k * nd). repeat split; auto.
    apply Z.mul_le_mono_nonneg_r; lia.
Qed.

Lemma ins_spins : forall fuel n nd k a, a < n -> 0 < nd -> ins_draw fuel n nd (fun _ => 0) k a = OutOfFuel.
Proof.
  induction fuel as [|f IH]; intros n nd k a H1 H2; cbn [ins_draw].
  - destruct ((a <? n) && (0 <? nd)) eqn:E; [reflexivity|lia].
  - destruct ((a <? n) && (0 <? nd)) eqn:E; [|lia]. rewrite Z.add_0_r. apply IH; assumption.
Qed.

Definition P_ins_draw_can_spin :=
  forall n nd, 1 <= n -> 1 <= nd -> exists s, forall fuel, ins_draw0 fuel n nd s = OutOfFuel.
Lemma ins_draw_can_spin : P_ins_draw_can_spin.
Proof. intros n nd H1 H2. exists (fun _ => 0). intros fuel. apply ins_spins; lia. Qed.

(* =========================================================================================== *)
(** * (ii) validators *)

Ltac split_ifs :=
  repeat match goal with
         | |- context [if ?c then _ else _] => let E := fresh "E" in destruct c eqn:E
         | H : context [if ?c then _ else _] |- _ => let E := fresh "E" in destruct c eqn:E
         end.

(* what an accepted configuration satisfies: exactly the hypotheses C17 needs *)
Definition P_check_configuration (f : Z -> Z -> Z -> Z -> vres) :=
  forall min_s min_r max_s nlive,
    f min_s min_r max_s nlive = Accept <-> (min_s <= nlive /\ min_r <= nlive /\ (max_s = 0 \/ nlive < max_s)).

Ltac cc_tac f :=
  intros; cbv beta delta [f]; cbv zeta; split;
  [ intro H; split_ifs; try discriminate; lia
  | intro H; split_ifs; try reflexivity; exfalso; lia ].

Lemma check_configuration_spec : P_check_configuration check_configuration.
Proof. unfold P_check_configuration. cc_tac check_configuration. Qed.

Lemma mem_In : forall x l, mem x l = true <-> In x l.
Proof.
  intros x l. unfold mem. rewrite existsb_exists. split.
  - intros (y & Hy & E). apply String.eqb_eq in E. subst. exact Hy.
  - intros H. exists x. split; [exact H|apply String.eqb_refl].
Qed.

Lemma mem_false : forall x l, mem x l = false <-> ~ In x l.
Proof. intros x l. rewrite <- mem_In. destruct (mem x l); split; congruence. Qed.

Lemma resolve_in_aliases : forall aliases req c, In c (resolve_criteria aliases req) ->
  exists r al, In r req /\ In (c, al) aliases /\ In r al.
Proof.
  intros aliases req c H. unfold resolve_criteria in H. apply in_flat_map in H.
  destruct H as (r & Hr & H). apply in_map_iff in H. destruct H as ((c', al) & E & H). cbn in E. subst c'.
  apply filter_In in H. destruct H as (H1 & H2). cbn in H2. apply mem_In in H2. exists r, al. auto.
Qed.

Definition P_configure_stopping :=
  forall aliases req n_tol cc cs b, configure_stopping aliases req n_tol cc = SCok cs b ->
    cs <> [] /\ List.length cs = n_tol /\ ((cc = "any"%string /\ b = true) \/ (cc = "all"%string /\ b = false))
    /\ (forall c, In c cs -> exists r al, In r req /\ In (c, al) aliases /\ In r al).
Lemma configure_stopping_spec : P_configure_stopping.
Proof.
  intros aliases req n_tol cc cs b H. unfold configure_stopping in H.
  destruct (resolve_criteria aliases req) as [|c0 r0] eqn:Er; [discriminate|].
  destruct (negb (Nat.eqb (List.length (c0 :: r0)) n_tol)) eqn:El; [discriminate|].
  apply negb_false_iff, Nat.eqb_eq in El.
  destruct (String.eqb cc "any") eqn:Ea.
  - inversion H; subst. apply String.eqb_eq in Ea. repeat split; auto; try discriminate.
    intros c Hc. apply resolve_in_aliases. rewrite Er. exact Hc.
  - destruct (String.eqb cc "all") eqn:Eb; [|discriminate].
    inversion H; subst. apply String.eqb_eq in Eb. repeat split; auto; try discriminate.
    intros c Hc. apply resolve_in_aliases. rewrite Er. exact Hc.
Qed.

Lemma assoc_In : forall k l v, assoc k l = Some v -> In (k, v) l.
Proof.
  induction l as [|(a, b) r IH]; intros v H; cbn in H; [discriminate|].
  destruct (String.eqb k a) eqn:E.
  - apply String.eqb_eq in E. inversion H; subst. left. reflexivity.
  - right. apply IH. exact H.
Qed.

Definition P_get_flow_proposal_class :=
  forall base ext s c, get_flow_proposal_class base ext (PCstr s) = PCclass c -> In (s, c) base.
Lemma get_flow_proposal_class_spec : P_get_flow_proposal_class.
Proof.
  intros base ext s c H. cbn in H. destruct (mem s ext); [discriminate|].
  destruct (assoc s base) eqn:E; [|discriminate]. inversion H; subst. apply assoc_In. exact E.
Qed.

Lemma filter_nil_all : forall {X} (f : X -> bool) l, filter f l = [] -> forall x, In x l -> f x = false.
Proof.
  induction l as [|y r IH]; intros H x Hx; [contradiction|]. cbn in H.
  destruct (f y) eqn:E; [discriminate|]. destruct Hx as [->|Hx]; auto.
Qed.

(* what is handed to the constructor never contains a name the class does not take; a rejection
   means some name is really unknown to the class *)
Definition P_check_proposal_kwargs :=
  forall class_keys allowed keys strict,
    match check_proposal_kwargs class_keys allowed keys strict with
    | CPKok kept => (forall k, In k kept -> In k class_keys /\ In k keys)
                    /\ (forall k, In k keys -> In k class_keys -> In k kept)
    | CPKerr _ => exists k, In k keys /\ ~ In k class_keys
    end.
Lemma check_proposal_kwargs_spec : P_check_proposal_kwargs.
Proof.
  intros class_keys allowed keys strict. unfold check_proposal_kwargs.
  destruct (filter (fun k => negb (mem k class_keys)) keys) as [|e r] eqn:Ef.
  - split.
    + intros k Hk. split; [|exact Hk].
      pose proof (filter_nil_all _ _ Ef k Hk) as H. apply negb_false_iff in H. apply mem_In. exact H.
    + auto.
  - assert (He : In e keys /\ ~ In e class_keys).
    { assert (H : In e (filter (fun k => negb (mem k class_keys)) keys)) by (rewrite Ef; left; reflexivity).
      apply filter_In in H. destruct H as (H1 & H2). apply negb_true_iff, mem_false in H2. auto. }
    destruct strict; [exists e; exact He|].
    destruct (existsb (fun k => negb (mem k allowed)) (e :: r)); [exists e; exact He|].
    split.
    + intros k Hk. apply filter_In in Hk. destruct Hk as (H1 & H2). apply mem_In in H2. auto.
    + intros k H1 H2. apply filter_In. split; [exact H1|]. apply mem_In. exact H2.
Qed.

Definition P_training_noise :=
  forall tg sk b, update_training_noise tg sk = TCok b ->
    (sk = 0%nat \/ sk = 1%nat) /\ (tg = true -> sk = 1%nat) /\ (b = true <-> (tg = true \/ sk = 1%nat)).
Lemma training_noise_spec : P_training_noise.
Proof.
  intros tg sk b H. unfold update_training_noise in H.
  destruct tg, sk as [|[|sk]]; cbn in H; inversion H; subst; repeat split; auto; try discriminate;
    intros; try tauto; try (destruct H0; discriminate).
Qed.

(* ---- pipeline order ----------------------------------------------------------------------- *)
Lemma pev_eqb_eq : forall a b, pev_eqb a b = true <-> a = b.
Proof.
  intros [x|x|x] [y|y|y]; cbn; split; intro H; try discriminate;
    try (apply String.eqb_eq in H; subst; reflexivity); inversion H; apply String.eqb_refl.
Qed.

Lemma first_before_sound : forall a b l, first_before a b l = true ->
  exists i, nth_error l i = Some a /\ forall j, nth_error l j = Some b -> (i < j)%nat.
Proof.
  induction l as [|e r IH]; intros H; [discriminate|]. cbn [first_before] in H.
  destruct (pev_eqb e b) eqn:Eb; [discriminate|].
  destruct (pev_eqb e a) eqn:Ea.
  - apply pev_eqb_eq in Ea. subst e. exists 0%nat. split; [reflexivity|].
    intros [|j'] Hj; [|lia]. cbn in Hj. inversion Hj; subst.
    assert (pev_eqb b b = true) by (apply pev_eqb_eq; reflexivity). congruence.
  - destruct (IH H) as (i & Hi & Hlt). exists (S i). split; [exact Hi|].
    intros [|j'] Hj.
    + cbn in Hj. inversion Hj; subst. assert (pev_eqb b b = true) by (apply pev_eqb_eq; reflexivity). congruence.
    + cbn in Hj. specialize (Hlt j' Hj). lia.
Qed.

Definition P_pipeline :=
  forall req l, pipeline_ok req l = true ->
    forall a b, In (a, b) req ->
      exists i, nth_error l i = Some a /\ forall j, nth_error l j = Some b -> (i < j)%nat.
Lemma pipeline_sound : P_pipeline.
Proof.
  intros req l H a b Hab. unfold pipeline_ok in H. rewrite forallb_forall in H.
  specialize (H (a, b) Hab). cbn in H. apply first_before_sound. exact H.
Qed.

(* =========================================================================================== *)
(** * (iii) call table *)

(* the ways binding the arguments of a call to a signature raises TypeError *)
Definition unexpected_keyword (s : sig) (c : call) :=
  exists k, In k (c_kws c) /\ ~ In k (kw_names s) /\ s_kw s = false.
Definition too_many_positional (s : sig) (c : call) :=
  s_var s = false /\ (List.length (s_pos s) < c_npos c)%nat.
Definition multiple_values (s : sig) (c : call) :=
  exists k, In k (c_kws c) /\ In k (firstn (c_npos c) (s_pos s)).
Definition missing_argument (s : sig) (c : call) :=
  c_star c = false /\ c_dstar c = false /\
  exists r, In r (s_req s) /\ ~ In r (firstn (c_npos c) (s_pos s)) /\ ~ In r (c_kws c).
Definition type_error (s : sig) (c : call) :=
  unexpected_keyword s c \/ too_many_positional s c \/ multiple_values s c \/ missing_argument s c.

(* AttributeError: the name is bound nowhere in the family of the class nor from outside *)
Definition attr_bound (classes : list cls) (ext : list string) (c a : string) :=
  In a ext \/
  exists k f kf, find_cls c classes = Some k /\ In f (k_family k) /\ find_cls f classes = Some kf /\ In a (k_assigned kf).

Lemma forallb_false_ex : forall {X} (f : X -> bool) l, forallb f l = false -> exists x, In x l /\ f x = false.
Proof.
  induction l as [|y r IH]; intros H; [discriminate|]. cbn in H.
  destruct (f y) eqn:E.
  - destruct (IH H) as (x & Hx & Fx). exists x. split; [right; exact Hx|exact Fx].
  - exists y. split; [left; reflexivity|exact E].
Qed.

Lemma bind_ok_sound : forall s c, bind_ok s c = true -> ~ type_error s c.
Proof.
  intros s c H. unfold bind_ok in H.
  repeat (apply andb_true_iff in H; destruct H as (H & ?)).
  rename H into Hkw, H2 into Hpos, H1 into Hdup, H0 into Hreq.
  rewrite forallb_forall in Hkw, Hdup.
  intros [(k & Hk & Hn & Hf) | [(Hv & Hl) | [(k & Hk & Hi) | (Hs & Hd & r & Hr & Hn1 & Hn2)]]].
  - specialize (Hkw k Hk). rewrite Hf, orb_false_r in Hkw. apply mem_In in Hkw. contradiction.
  - rewrite Hv in Hpos. cbn in Hpos. apply Nat.leb_le in Hpos. lia.
  - specialize (Hdup k Hk). apply negb_true_iff, mem_false in Hdup. contradiction.
  - rewrite Hs, Hd in Hreq. cbn in Hreq. rewrite forallb_forall in Hreq. specialize (Hreq r Hr).
    apply orb_true_iff in Hreq. destruct Hreq as [X|X]; apply mem_In in X; contradiction.
Qed.

Lemma bind_ok_complete : forall s c, bind_ok s c = false -> type_error s c.
Proof.
  intros s c H. unfold bind_ok in H.
  apply andb_false_iff in H. destruct H as [H|H].
  2:{ right; right; right. apply orb_false_iff in H. destruct H as (H & Hr).
      apply orb_false_iff in H. destruct H as (Hs & Hd).
      apply forallb_false_ex in Hr. destruct Hr as (r & Hr & F). apply orb_false_iff in F. destruct F as (F1 & F2).
      apply mem_false in F1, F2. repeat split; auto. exists r. auto. }
  apply andb_false_iff in H. destruct H as [H|H].
  2:{ right; right; left. apply forallb_false_ex in H. destruct H as (k & Hk & F).
      apply negb_false_iff, mem_In in F. exists k. auto. }
  apply andb_false_iff in H. destruct H as [H|H].
  - left. apply forallb_false_ex in H. destruct H as (k & Hk & F). apply orb_false_iff in F. destruct F as (F1 & F2).
    apply mem_false in F1. exists k. auto.
  - right; left. apply orb_false_iff in H. destruct H as (Hv & Hl). apply Nat.leb_gt in Hl. split; auto.
Qed.

Lemma find_cls_name : forall n l k, find_cls n l = Some k -> In k l /\ k_name k = n.
Proof.
  induction l as [|x r IH]; intros k H; [discriminate|]. cbn in H.
  destruct (String.eqb n (k_name x)) eqn:E.
  - inversion H; subst. apply String.eqb_eq in E. split; [left; reflexivity|auto].
  - destruct (IH k H). split; [right|]; assumption.
Qed.

Lemma read_ok_iff : forall classes ext c a, read_ok classes ext (c, a) = true <-> attr_bound classes ext c a.
Proof.
  intros classes ext c a. unfold read_ok, attr_bound. rewrite orb_true_iff, mem_In. split.
  - intros [H|H]; [left; exact H|right].
    destruct (find_cls c classes) as [k|] eqn:Ek; [|discriminate].
    apply existsb_exists in H. destruct H as (f & Hf & H).
    destruct (find_cls f classes) as [kf|] eqn:Ekf; [|discriminate].
    apply mem_In in H. exists k, f, kf. auto.
  - intros [H|(k & f & kf & Hk & Hf & Hkf & Ha)]; [left; exact H|right].
    rewrite Hk. apply existsb_exists. exists f. split; [exact Hf|]. rewrite Hkf. apply mem_In. exact Ha.
Qed.

(* soundness of the checker: at no modelled call site does binding the arguments raise TypeError for
   any candidate callee, and no modelled read names an attribute that is bound nowhere *)
Definition P_calls_well_formed :=
  forall t, calls_well_formed t = true ->
    (forall c, In c (t_calls t) -> forall i, In i (c_sigs c) ->
        exists s, nth_error (t_sigs t) i = Some s /\ ~ type_error s c)
    /\ (forall c a, In (c, a) (t_reads t) -> attr_bound (t_classes t) (t_ext t) c a).
Lemma calls_well_formed_sound : P_calls_well_formed.
Proof.
  intros t H. unfold calls_well_formed in H. apply andb_true_iff in H. destruct H as (Hc & Hr).
  rewrite forallb_forall in Hc, Hr. split.
  - intros c Hin i Hi. specialize (Hc c Hin). unfold call_ok in Hc. rewrite forallb_forall in Hc.
    specialize (Hc i Hi). destruct (nth_error (t_sigs t) i) as [s|]; [|discriminate].
    exists s. split; [reflexivity|]. apply bind_ok_sound. exact Hc.
  - intros c a Hin. apply read_ok_iff. apply Hr. exact Hin.
Qed.

(* the explanation output is exact: an index is reported iff the entry fails, and an entry that is
   reported really has a TypeError / an unbound attribute *)
Lemma fail_idx_nil : forall {X} (ok : X -> bool) l k, fail_idx ok k l = [] <-> forallb ok l = true.
Proof.
  induction l as [|x r IH]; intros k; cbn; [tauto|].
  destruct (ok x); cbn; [apply IH|split; discriminate].
Qed.

Definition P_failing_exact :=
  forall t, (failing_calls t = [] /\ failing_reads t = []) <-> calls_well_formed t = true.
Lemma failing_exact : P_failing_exact.
Proof.
  intros t. unfold failing_calls, failing_reads, calls_well_formed.
  rewrite andb_true_iff, !fail_idx_nil. tauto.
Qed.

Definition P_reported_is_error :=
  forall s c, bind_ok s c = false -> type_error s c.
Definition P_reported_read_unbound :=
  forall classes ext c a, read_ok classes ext (c, a) = false -> ~ attr_bound classes ext c a.
Lemma reported_read_unbound : P_reported_read_unbound.
Proof. intros classes ext c a H Hb. apply read_ok_iff in Hb. congruence. Qed.

(* the safety half alone (what the regenerated function is obliged to satisfy on every run: a check
   that became stricter is not an alarm) *)
Definition P_cc_safe (f : Z -> Z -> Z -> Z -> vres) :=
  forall min_s min_r max_s nlive,
    f min_s min_r max_s nlive = Accept -> (min_s <= nlive /\ min_r <= nlive /\ (max_s = 0 \/ nlive < max_s)).
Ltac cc_safe_tac f :=
  intros min_s min_r max_s nlive; cbv beta delta [f]; cbv zeta; intro H; split_ifs; try discriminate; lia.
Lemma check_configuration_safe : P_cc_safe check_configuration.
Proof. unfold P_cc_safe. cc_safe_tac check_configuration. Qed.

(* =========================================================================================== *)
(** * (iv) data-loader batch sizes *)
Lemma cbs_loop_bounds : forall fuel n bs m b, cbs_loop fuel n bs m = Some b -> 2 <= b /\ b < bs.
Proof.
  induction fuel as [|f IH]; intros n bs m b H; cbn [cbs_loop] in H; [discriminate|].
  destruct (bs - 1 <? 2) eqn:E1; [discriminate|].
  destruct ((n mod (bs - 1) =? 0) || (n mod (bs - 1) >=? m)) eqn:E2.
  - inversion H; subst. lia.
  - destruct ((bs - 1 <=? m) && (n mod (bs - 1) >? 1)) eqn:E3.
    + inversion H; subst. lia.
    + apply IH in H. lia.
Qed.

Definition P_check_batch_size := forall n bs b, check_batch_size n bs = Some b -> 1 <= bs -> 2 <= b /\ b <= bs.
Lemma check_batch_size_bounds : P_check_batch_size.
Proof.
  intros n bs b H Hbs. unfold check_batch_size in H.
  destruct (bs =? 1) eqn:E1; [discriminate|]. destruct (bs =? 0) eqn:E0; [discriminate|].
  destruct (negb (n mod bs =? 0) && (n mod bs <? bs / 10)) eqn:E.
  - apply cbs_loop_bounds in H. lia.
  - inversion H; subst. lia.
Qed.

(* the obligation the REGENERATED validation-batch-size expression must meet *)
Definition P_val_loader (f : Z -> Z -> option Z) :=
  forall n_val bs, 0 <= n_val -> 1 <= bs -> loader_ok (f n_val bs).
Ltac val_loader_tac f :=
  intros n_val bs Hn Hb; cbv beta delta [f loader_ok]; cbv zeta; split_ifs; try exact I; lia.
Lemma val_batch_size_ok : P_val_loader val_batch_size.
Proof. unfold P_val_loader. val_loader_tac val_batch_size. Qed.

Lemma loader_okb_ok : forall o, loader_okb o = true -> loader_ok o.
Proof. intros [b|] H; cbn in *; [lia|exact I]. Qed.

(* every accepted configuration reaches both DataLoaders with None or a positive batch size *)
Definition P_loader_batch_sizes :=
  forall vbs n_train n_val s b v, data_loaders vbs n_train n_val s = Some (b, v) ->
    match s with BSint b0 => 1 <= b0 | BSall => 1 <= n_train | BSother => True end ->
    2 <= b /\ loader_ok v.
Lemma loader_batch_sizes : P_loader_batch_sizes.
Proof.
  intros vbs n_train n_val s b v H Hs. unfold data_loaders in H.
  destruct (resolve_batch_size s n_train) as [bs0|] eqn:Er; [|discriminate].
  destruct (check_batch_size n_train bs0) as [b1|] eqn:Ec; [|discriminate].
  destruct (loader_okb (vbs n_val b1)) eqn:El; [|discriminate].
  inversion H; subst. split.
  - assert (1 <= bs0) by (destruct s; cbn in Er; inversion Er; subst; auto; discriminate).
    pose proof (check_batch_size_bounds _ _ _ Ec H0). lia.
  - apply loader_okb_ok. exact El.
Qed.

(* with a validation-batch-size expression that meets P_val_loader nothing is rejected at the loader:
   the loader test in data_loaders never fires *)
Definition P_loader_never_rejects :=
  forall vbs, P_val_loader vbs -> forall n_train n_val s b,
    resolve_batch_size s n_train = Some b -> 1 <= b -> 0 <= n_val ->
    forall b', check_batch_size n_train b = Some b' -> data_loaders vbs n_train n_val s = Some (b', vbs n_val b').
Lemma loader_never_rejects : P_loader_never_rejects.
Proof.
  intros vbs Hv n_train n_val s b Hr Hb Hn b' Hc. unfold data_loaders. rewrite Hr, Hc.
  pose proof (check_batch_size_bounds _ _ _ Hc Hb) as Hb'.
  assert (Hl : loader_ok (vbs n_val b')) by (apply Hv; lia).
  destruct (vbs n_val b') as [x|]; cbn in *; [|reflexivity].
  destruct (1 <=? x) eqn:E; [reflexivity|lia].
Qed.

(* =========================================================================================== *)
(** * (v) reductions are never applied to an empty batch *)
Lemma guarded_sound : forall p ne size o k,
  guarded p ne = true -> (ne = true -> (1 <= size)%nat) -> exec_pass p size o k <> RError.
Proof.
  induction p as [|e r IH]; intros ne size o k H Hs; cbn [exec_pass]; [discriminate|].
  destruct e; cbn [guarded] in H.
  - apply (IH false); [exact H|discriminate].
  - destruct (Nat.eqb size 0) eqn:E; [discriminate|].
    apply (IH true); [exact H|]. intros _. apply Nat.eqb_neq in E. lia.
  - apply andb_true_iff in H. destruct H as (Hne & H). subst ne.
    specialize (Hs eq_refl). destruct (Nat.eqb size 0) eqn:E; [apply Nat.eqb_eq in E; lia|].
    apply (IH true); [exact H|auto].
Qed.

Definition P_reductions_guarded :=
  forall ps, paths_guarded ps = true -> forall p, In p ps -> forall size o, exec_pass p size o 0%nat <> RError.
Lemma reductions_guarded : P_reductions_guarded.
Proof.
  intros ps H p Hp size o. unfold paths_guarded in H. rewrite forallb_forall in H.
  apply (guarded_sound p false); [apply H; exact Hp|discriminate].
Qed.

(* and an unguarded reduction really fails on some batch *)
Definition P_unguarded_fails := exists o, exec_pass [LShrink; LReduce] 5%nat o 0%nat = RError.
Lemma unguarded_fails : P_unguarded_fails.
Proof. exists (fun _ => 0%nat). reflexivity. Qed.
