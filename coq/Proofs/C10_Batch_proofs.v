From Coq Require Import List Arith Bool Lia.
Import ListNotations.
From NessaiV Require Import Model.C10_Batch.

Section ChunkLemmas.
Context {A : Type}.

Lemma chunks_fuel_concat (fuel k : nat) (l : list A) :
  concat (chunks_fuel fuel k l) = l.
Proof.
  revert l; induction fuel as [|f IH]; intros l; cbn [chunks_fuel].
  - cbn. apply app_nil_r.
  - destruct (length l <=? k) eqn:E.
    + cbn. apply app_nil_r.
    + cbn [concat]. rewrite IH. apply firstn_skipn.
Qed.

Lemma chunks_concat (k : nat) (l : list A) : concat (chunks k l) = l.
Proof. apply chunks_fuel_concat. Qed.

Lemma chunks_fuel_bound (fuel k : nat) (l : list A) :
  1 <= k -> length l <= fuel ->
  Forall (fun c => length c <= k) (chunks_fuel fuel k l).
Proof.
  intros Hk; revert l; induction fuel as [|f IH]; intros l Hl; cbn [chunks_fuel].
  - constructor; [lia|constructor].
  - destruct (Nat.leb_spec (length l) k) as [Hle|Hgt].
    + constructor; [exact Hle|constructor].
    + constructor.
      * rewrite firstn_length. lia.
      * apply IH. rewrite skipn_length. lia.
Qed.

Lemma chunks_bound (k : nat) (l : list A) :
  1 <= k -> Forall (fun c => length c <= k) (chunks k l).
Proof. intros Hk. apply chunks_fuel_bound; [exact Hk|lia]. Qed.

Lemma chunks_fuel_nonempty (fuel k : nat) (l : list A) :
  1 <= k -> l <> [] -> Forall (fun c => c <> []) (chunks_fuel fuel k l).
Proof.
  intros Hk; revert l; induction fuel as [|f IH]; intros l Hl; cbn [chunks_fuel].
  - constructor; [exact Hl|constructor].
  - destruct (Nat.leb_spec (length l) k) as [Hle|Hgt].
    + constructor; [exact Hl|constructor].
    + constructor.
      * destruct l as [|x r]; [cbn in Hgt; lia|]. destruct k; [lia|]. cbn. discriminate.
      * apply IH. intro E. apply (f_equal (@length A)) in E.
        rewrite skipn_length in E. cbn in E. lia.
Qed.

Lemma chunks_nonempty (k : nat) (l : list A) :
  1 <= k -> l <> [] -> Forall (fun c => c <> []) (chunks k l).
Proof. intros; apply chunks_fuel_nonempty; assumption. Qed.

Lemma chunks_nil (k : nat) : chunks k (@nil A) = [[]].
Proof. reflexivity. Qed.

(* all chunks but the last have exactly k elements *)
Lemma chunks_fuel_full (fuel k : nat) (l : list A) :
  1 <= k -> length l <= fuel ->
  Forall (fun c => length c = k) (removelast (chunks_fuel fuel k l)).
Proof.
  intros Hk; revert l; induction fuel as [|f IH]; intros l Hl; cbn [chunks_fuel].
  - constructor.
  - destruct (Nat.leb_spec (length l) k) as [Hle|Hgt].
    + constructor.
    + assert (Hne : chunks_fuel f k (skipn k l) <> []).
      { destruct f; cbn [chunks_fuel]; [discriminate|].
        destruct (length (skipn k l) <=? k); discriminate. }
      cbn [removelast].
      destruct (chunks_fuel f k (skipn k l)) as [|c cs] eqn:E; [contradiction|].
      constructor.
      * rewrite firstn_length. lia.
      * rewrite <- E. apply IH. rewrite skipn_length. lia.
Qed.

Lemma take_sizes_concat (sizes : list nat) (l : list A) :
  length l <= list_sum sizes -> concat (take_sizes sizes l) = l.
Proof.
  revert l; induction sizes as [|s r IH]; intros l Hl; cbn [take_sizes concat].
  - cbn in Hl. destruct l; [reflexivity|cbn in Hl; lia].
  - rewrite IH.
    + apply firstn_skipn.
    + rewrite skipn_length. change (list_sum (s :: r)) with (s + list_sum r) in Hl. lia.
Qed.

Lemma list_sum_repeat (x n : nat) : list_sum (repeat x n) = n * x.
Proof.
  induction n as [|n IH]; [reflexivity|].
  change (list_sum (repeat x (S n))) with (x + list_sum (repeat x n)). rewrite IH. lia.
Qed.

Lemma split_sizes_sum (p len : nat) : 1 <= p -> list_sum (split_sizes p len) = len.
Proof.
  intros Hp. unfold split_sizes. rewrite list_sum_app, !list_sum_repeat.
  pose proof (Nat.div_mod len p ltac:(lia)) as Hdm.
  pose proof (Nat.mod_upper_bound len p ltac:(lia)) as Hub.
  set (q := len / p) in *. set (r := len mod p) in *.
  replace (r * S q + (p - r) * q) with (p * q + r).
  - lia.
  - replace p with (r + (p - r)) at 1 by lia. lia.
Qed.

Lemma split_concat (p : nat) (l : list A) : 1 <= p -> concat (split_n p l) = l.
Proof.
  intros Hp. unfold split_n. apply take_sizes_concat. rewrite split_sizes_sum; [lia|exact Hp].
Qed.

Lemma take_sizes_length (sizes : list nat) (l : list A) :
  length (take_sizes sizes l) = length sizes.
Proof. revert l; induction sizes as [|s r IH]; intros l; cbn; [reflexivity|now rewrite IH]. Qed.

Lemma split_length (p : nat) (l : list A) : 1 <= p -> length (split_n p l) = p.
Proof.
  intros Hp. unfold split_n. rewrite take_sizes_length. unfold split_sizes.
  rewrite app_length, !repeat_length.
  pose proof (Nat.mod_upper_bound (length l) p ltac:(lia)). lia.
Qed.
(* all chunks but the last have exactly k elements *)
Lemma chunks_full (k : nat) (l : list A) :
  1 <= k -> Forall (fun c => length c = k) (removelast (chunks k l)).
Proof. intros Hk. unfold chunks. apply chunks_fuel_full; [exact Hk|apply le_n]. Qed.

(* a chunk size that covers the batch: one call on the whole batch *)
Lemma chunks_single (k : nat) (l : list A) : length l <= k -> chunks k l = [l].
Proof.
  intros H. unfold chunks. destruct (length l) eqn:E; cbn [chunks_fuel]; [reflexivity|].
  rewrite E. destruct (Nat.leb_spec (S n) k); [reflexivity|lia].
Qed.

(* the number of chunks (= calls of the function) is exactly ceil(len / k) *)
Lemma chunks_fuel_count (fuel k : nat) (l : list A) :
  1 <= k -> length l <= fuel -> l <> [] ->
  (length (chunks_fuel fuel k l) - 1) * k < length l <= length (chunks_fuel fuel k l) * k.
Proof.
  intros Hk; revert l; induction fuel as [|f IH]; intros l Hl Hne.
  - destruct l; [contradiction|cbn in Hl; lia].
  - cbn [chunks_fuel]. destruct (Nat.leb_spec (length l) k) as [Hle|Hgt].
    + cbn [length]. destruct l; [contradiction|cbn [length] in *; lia].
    + cbn [length].
      assert (Hsk : length (skipn k l) = length l - k) by apply skipn_length.
      assert (Hne' : skipn k l <> []).
      { intros E. rewrite E in Hsk. cbn in Hsk. lia. }
      specialize (IH (skipn k l) ltac:(lia) Hne').
      set (n := length (chunks_fuel f k (skipn k l))) in *.
      rewrite Hsk in IH.
      destruct n as [|n]; [lia|].
      replace (S (S n) - 1) with (S n) by lia.
      replace (S n - 1) with n in IH by lia.
      nia.
Qed.

Lemma chunks_count (k : nat) (l : list A) : 1 <= k -> l <> [] ->
  (length (chunks k l) - 1) * k < length l <= length (chunks k l) * k.
Proof. intros Hk Hne. unfold chunks. apply chunks_fuel_count; [exact Hk|apply le_n|exact Hne]. Qed.

(* the pieces of a split by count have exactly the sizes numpy documents *)
Lemma take_sizes_shape (sizes : list nat) (l : list A) :
  list_sum sizes <= length l -> map (@length A) (take_sizes sizes l) = sizes.
Proof.
  revert l; induction sizes as [|s r IH]; intros l Hl; cbn [take_sizes map]; [reflexivity|].
  change (list_sum (s :: r)) with (s + list_sum r) in Hl.
  rewrite firstn_length, IH.
  - f_equal. lia.
  - rewrite skipn_length. lia.
Qed.

Lemma split_shape (p : nat) (l : list A) :
  1 <= p -> map (@length A) (split_n p l) = split_sizes p (length l).
Proof.
  intros Hp. unfold split_n. apply take_sizes_shape. rewrite split_sizes_sum; [apply le_n|exact Hp].
Qed.

Lemma split_balanced (p : nat) (l : list A) :
  1 <= p ->
  Forall (fun c => length l / p <= length c <= S (length l / p)) (split_n p l).
Proof.
  intros Hp. pose proof (split_shape p l Hp) as Hs.
  assert (Hall : Forall (fun n => length l / p <= n <= S (length l / p)) (split_sizes p (length l))).
  { unfold split_sizes. apply Forall_app. split; apply Forall_forall; intros n Hn;
    apply repeat_spec in Hn; subst n; lia. }
  rewrite <- Hs in Hall. rewrite Forall_map in Hall. exact Hall.
Qed.
(* a pool no larger than the batch never hands a worker an empty piece *)
Lemma split_nonempty (p : nat) (l : list A) :
  1 <= p -> p <= length l -> Forall (fun c => c <> []) (split_n p l).
Proof.
  intros Hp Hl. pose proof (split_balanced p l Hp) as H.
  assert (Hq : 1 <= length l / p) by (apply Nat.div_le_lower_bound; lia).
  eapply Forall_impl; [|exact H]. intros c [Hc _].
  destruct c; [cbn in Hc; lia|discriminate].
Qed.
End ChunkLemmas.

Lemma concat_map_map {A B} (f : A -> B) (ll : list (list A)) :
  concat (map (map f) ll) = map f (concat ll).
Proof. now rewrite concat_map. Qed.

Section TreeSound.
Context {A B : Type}.
Variable f : A -> B.
Variable fv : list A -> list B.
Variable pmap : forall X Y, (X -> Y) -> list X -> list Y.
Variable i : binputs.

(* oracle hypotheses *)
Hypothesis Hfv : vectorised i = true -> forall l, fv l = map f l.
     (* what check_vectorised_function tests: the batched call agrees with pointwise calls *)
Hypothesis Hpm : forall X Y (g : X -> Y) l, pmap X Y g l = map g l.
     (* multiprocessing.Pool.map returns results in input order *)
Hypothesis Hnp : has_pool i = true -> 1 <= n_pool i.

Definition agree (k : facts) : Prop :=
  (forall b, k_pool k = Some b -> has_pool i = b) /\
  (forall b, k_vect k = Some b -> vectorised i = b) /\
  (forall b, k_chunk k = Some b -> negb (chunksize i =? 0) = b).

Lemma is_true_spec o : is_true o = true -> o = Some true.
Proof. destruct o as [[|]|]; cbn; congruence. Qed.

Lemma map_ext_fv ll : vectorised i = true -> map fv ll = map (map f) ll.
Proof. intros Hv. apply map_ext. intros; now apply Hfv. Qed.

Lemma do_split_concat s (l : list A) :
  (s = SSplitN -> 1 <= n_pool i) -> concat (do_split s i l) = l.
Proof.
  intros H. destruct s; cbn.
  - apply chunks_concat.
  - apply split_concat. now apply H.
Qed.

Lemma leaf_sound e k l :
  leaf_ok e k = true -> agree k -> eval_leaf f fv pmap e i l = map f l.
Proof.
  intros Hok (Hp & Hv & Hc).
  destruct e as [|s pooled|pooled]; cbn in Hok |- *.
  - apply is_true_spec in Hok. apply Hfv. now apply Hv.
  - assert (Hvec : vectorised i = true /\ (pooled = true -> has_pool i = true)
                   /\ (s = SSplitN -> has_pool i = true)).
    { destruct s; cbn in Hok;
        repeat match goal with
               | H : _ && _ = true |- _ => apply andb_prop in H; destruct H
               end;
        repeat match goal with H : is_true _ = true |- _ => apply is_true_spec in H end.
      - split; [now apply Hv|]. split; [|discriminate].
        intros ->. cbn in *. match goal with H : is_true _ = true |- _ => apply is_true_spec in H end.
        now apply Hp.
      - split; [now apply Hv|]. split; intros _; now apply Hp. }
    destruct Hvec as (Hvec & Hpool & Hsp).
    assert (Hsplit : concat (do_split s i l) = l).
    { apply do_split_concat. intros E. apply Hnp. now apply Hsp. }
    destruct pooled.
    + rewrite Hpm, (map_ext_fv _ Hvec), concat_map_map. now rewrite Hsplit.
    + rewrite (map_ext_fv _ Hvec), concat_map_map. now rewrite Hsplit.
  - destruct pooled; [apply Hpm|reflexivity].
Qed.

Lemma cons_spec known v : (forall b, known = Some b -> v = b) -> consistent known v = true.
Proof. destruct known as [b|]; cbn; [|reflexivity]. intros H. rewrite (H b eq_refl). apply eqb_reflx. Qed.

Lemma agree_pool k : agree k ->
  agree {| k_pool := Some (has_pool i); k_vect := k_vect k; k_chunk := k_chunk k |}
  /\ consistent (k_pool k) (has_pool i) = true.
Proof.
  intros (Hp & Hv & Hc). split; [|now apply cons_spec].
  repeat split; cbn; try assumption. now intros b [= <-].
Qed.
Lemma agree_vect k : agree k ->
  agree {| k_pool := k_pool k; k_vect := Some (vectorised i); k_chunk := k_chunk k |}
  /\ consistent (k_vect k) (vectorised i) = true.
Proof.
  intros (Hp & Hv & Hc). split; [|now apply cons_spec].
  repeat split; cbn; try assumption. now intros b [= <-].
Qed.
Lemma agree_chunk k : agree k ->
  agree {| k_pool := k_pool k; k_vect := k_vect k; k_chunk := Some (negb (chunksize i =? 0)) |}
  /\ consistent (k_chunk k) (negb (chunksize i =? 0)) = true.
Proof.
  intros (Hp & Hv & Hc). split; [|now apply cons_spec].
  repeat split; cbn; try assumption. now intros b [= <-].
Qed.

Lemma tree_sound t : forall k (l : list A),
  tree_ok t k = true -> agree k -> eval_tree f fv pmap t i l = map f l.
Proof.
  induction t as [e|a IHa b IHb|a IHa b IHb|a IHa b IHb]; intros k l Hok Hag; cbn [eval_tree].
  - eapply leaf_sound; eassumption.
  - cbn [tree_ok] in Hok. apply andb_prop in Hok. destruct Hok as [Ha Hb].
    destruct (agree_pool k Hag) as [Hag' Hcons].
    destruct (has_pool i); cbn [negb].
    + rewrite Hcons in Hb. cbn in Hb. eapply IHb; eassumption.
    + rewrite Hcons in Ha. cbn in Ha. eapply IHa; eassumption.
  - cbn [tree_ok] in Hok. apply andb_prop in Hok. destruct Hok as [Ha Hb].
    destruct (agree_vect k Hag) as [Hag' Hcons].
    destruct (vectorised i).
    + rewrite Hcons in Ha. cbn in Ha. eapply IHa; eassumption.
    + rewrite Hcons in Hb. cbn in Hb. eapply IHb; eassumption.
  - cbn [tree_ok] in Hok. apply andb_prop in Hok. destruct Hok as [Ha Hb].
    destruct (agree_chunk k Hag) as [Hag' Hcons].
    destruct (negb (chunksize i =? 0)).
    + rewrite Hcons in Ha. cbn in Ha. eapply IHa; eassumption.
    + rewrite Hcons in Hb. cbn in Hb. eapply IHb; eassumption.
Qed.

Lemma agree_no_facts : agree no_facts.
Proof. repeat split; cbn; discriminate. Qed.

Theorem checker_sound t l :
  tree_ok t no_facts = true -> eval_tree f fv pmap t i l = map f l.
Proof. intros H. eapply tree_sound; [exact H|apply agree_no_facts]. Qed.
End TreeSound.

Lemma batch_tree_ok : tree_ok batch_tree no_facts = true.
Proof. vm_compute. reflexivity. Qed.

(* counter *)
Definition is_add (e : ceff) := match e with CAddSize => true | _ => false end.
Definition add_or_skip (e : ceff) := match e with CAddSize | CSkip => true | _ => false end.

Lemma counter_run_count nchunks len effs : forall c,
  forallb add_or_skip effs = true ->
  counter_run nchunks len effs c = c + length (filter is_add effs) * len.
Proof.
  unfold counter_run.
  induction effs as [|e r IH]; intros c H; cbn [fold_left filter forallb] in *; [cbn; lia|].
  apply andb_prop in H. destruct H as [He Hr].
  destruct e; try discriminate; cbn [counter_step is_add].
  - rewrite IH by assumption. cbn [length]. lia.
  - now rewrite IH by assumption.
Qed.

Lemma counter_sound effs : counter_ok effs = true ->
  forall nchunks len c, counter_run nchunks len effs c = c + len.
Proof.
  unfold counter_ok. intros H nchunks len c.
  apply andb_prop in H. destruct H as [Hone Hall]. apply Nat.eqb_eq in Hone.
  rewrite counter_run_count by exact Hall.
  change (fun e => match e with CAddSize => true | _ => false end) with is_add in Hone.
  rewrite Hone. lia.
Qed.

(* the counter checker is exact on single effects: what it rejects miscounts some batch *)
Lemma counter_single_complete (e : ceff) : counter_ok [e] = false ->
  exists nchunks len c, counter_run nchunks len [e] c <> c + len.
Proof.
  destruct e; cbn; intros H; try discriminate.
  - exists 2, 5, 0. cbn. lia.
  - exists 2, 5, 0. cbn. lia.
  - exists 2, 5, 0. cbn. lia.
Qed.

Lemma counter_today_ok : counter_ok counter_today = true.
Proof. vm_compute. reflexivity. Qed.

(* ---- the three Model methods ------------------------------------------------------------- *)
Section ModelCalls.
Context {A B : Type}.
Variable fs : fid -> A -> B.                  (* the three user functions on one point          *)
Variable fvs : fid -> list A -> list B.       (* the same functions called on a batch           *)
Variable vect : fid -> bool.                  (* Model.vectorised_likelihood / _prior / _prior_unit_hypercube *)
Variable pmap : forall X Y, (X -> Y) -> list X -> list Y.
Hypothesis Hvect : forall k, vect k = true -> forall l, fvs k l = map (fs k) l.
Hypothesis Hpm : forall X Y (g : X -> Y) l, pmap X Y g l = map g l.

(* what a Model method computes: the tree is run with the function m_func, the vectorisation flag
   m_flag, and - in the pooled branches - the worker-side wrapper m_wrapper *)
Definition eval_mcall (t : dtree) (c : mcall) (pool : bool) (k np : nat) (l : list A) : list B :=
  eval_tree (fs (m_func c)) (fvs (m_func c))
            (fun X Y g x => pmap X Y g x)
            t {| has_pool := pool; vectorised := vect (m_flag c); chunksize := k; n_pool := np |} l.

Lemma fid_eqb_eq a b : fid_eqb a b = true -> a = b.
Proof. destruct a, b; cbn; congruence. Qed.

Lemma mcall_sound want c t pool k np l :
  mcall_ok want c = true -> tree_ok t no_facts = true -> (pool = true -> 1 <= np) ->
  eval_mcall t c pool k np l = map (fs want) l.
Proof.
  unfold mcall_ok. intros H Ht Hnp.
  repeat (apply andb_prop in H; destruct H as [H ?]).
  apply fid_eqb_eq in H. match goal with H1 : fid_eqb (m_flag c) want = true |- _ => apply fid_eqb_eq in H1; rename H1 into Hflag end.
  unfold eval_mcall. rewrite H, Hflag.
  apply (checker_sound (fs want) (fvs want) (fun X Y g x => pmap X Y g x)
           {| has_pool := pool; vectorised := vect want; chunksize := k; n_pool := np |}).
  - cbn. intros Hv. now apply Hvect.
  - intros; apply Hpm.
  - cbn. exact Hnp.
  - exact Ht.
Qed.

Theorem calls_sound cs t : calls_ok cs = true -> tree_ok t no_facts = true ->
  forall want c, In (want, c) cs -> forall pool k np l, (pool = true -> 1 <= np) ->
    eval_mcall t c pool k np l = map (fs want) l.
Proof.
  unfold calls_ok. intros H Ht want c Hin pool k np l Hnp.
  apply andb_prop in H. destruct H as [H _].
  rewrite forallb_forall in H. specialize (H (want, c) Hin). cbn in H.
  now apply mcall_sound.
Qed.
End ModelCalls.

Lemma calls_today_ok : calls_ok calls_today = true.
Proof. vm_compute. reflexivity. Qed.
