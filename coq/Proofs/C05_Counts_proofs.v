(* C05 - counts, order and birth likelihoods of the returned samples, on the models of C01 and C03 *)
From Coq Require Import ZArith List Bool Arith Lia Permutation.
From NessaiV Require Import Lib.Effects Model.C01_LiveSet Proofs.C01_LiveSet_proofs.
Import ListNotations.
Local Open Scope Z_scope.

(* birth_log_likelihoods = state.logLs[nested_samples["it"]]: strictly below the sample's own
   likelihood, for every point the sampler holds or has recorded *)
Definition born_below (ls : list Z) (p : pt) : Prop :=
  (pit p < length ls)%nat /\ nth (pit p) ls 0 < key p.
Definition Birth (s : state) : Prop := Forall (born_below (logLs s)) (live s ++ dead s).

Lemma born_below_app ls extra p : born_below ls p -> born_below (ls ++ extra) p.
Proof.
  intros [H1 H2]. split; [rewrite app_length; lia|]. now rewrite app_nth1.
Qed.

Lemma step_logLs s ds s' r : step s ds = Some (s', r) ->
  exists w tl, live s = w :: tl /\ logLs s' = logLs s ++ [key w].
Proof.
  unfold step. destruct (live s) as [|w tl]; [discriminate|].
  destruct (scan Gt Gt (key w) w ds (evals s) (rej s)) as [[[[new ev] rj] rest]|]; [|discriminate].
  intros [= <- <-]. exists w, tl. split; reflexivity.
Qed.

Lemma birth_step n s ds s' r : InvD n s ds -> Birth s -> step s ds = Some (s', r) -> Birth s'.
Proof.
  intros HI HB Hst.
  destruct (step_spec n s ds s' r HI Hst) as (HI' & Sp).
  destruct Sp as (worst & tl & new & j & Hl & _ & Hd & Hl' & Hperm & _ & _ & _ & Hlt & _ & _ & Hpit & _ & _ & _).
  destruct (step_logLs s ds s' r Hst) as (w & tl0 & Hl0 & HL). rewrite Hl in Hl0. injection Hl0 as <- <-.
  destruct HI as [I _].
  assert (Hlen : length (logLs s) = S (iter s)).
  { rewrite (inv_cl n s I). cbn [length]. rewrite map_length, (inv_cd n s I). reflexivity. }
  unfold Birth in *. rewrite HL, Hd. apply Forall_forall. intros p Hp.
  apply in_app_or in Hp. rewrite Forall_forall in HB.
  assert (Hold : forall q, In q (live s ++ dead s) -> born_below (logLs s ++ [key worst]) q)
    by (intros q Hq; apply born_below_app; now apply HB).
  destruct Hp as [Hp|Hp].
  - apply (Permutation_in _ Hperm) in Hp. destruct Hp as [<-|Hp].
    + split.
      * rewrite app_length, Hpit. cbn. lia.
      * rewrite Hpit, <- Hlen, app_nth2 by lia. rewrite Nat.sub_diag. cbn [nth]. exact Hlt.
    + apply Hold. rewrite Hl. apply in_or_app. left. now right.
  - apply in_app_or in Hp. destruct Hp as [Hp|[<-|[]]].
    + apply Hold. apply in_or_app. now right.
    + apply Hold. rewrite Hl. apply in_or_app. left. now left.
Qed.

Lemma birth_run n k : forall s ds s' r, InvD n s ds -> Birth s -> run k s ds = Some (s', r) -> Birth s'.
Proof.
  induction k as [|k IH]; intros s ds s' r HI HB H; cbn [run] in H.
  - now inversion H; subst.
  - destruct (step s ds) as [[s1 r1]|] eqn:E; [|discriminate].
    destruct (step_spec n s ds s1 r1 HI E) as (HI1 & _).
    exact (IH s1 r1 s' r HI1 (birth_step n s ds s1 r1 HI HB E) H).
Qed.

Lemma birth_init n cs s0 r : (1 <= n)%nat -> NoDup (ids cs) -> init n cs = Some (s0, r) -> Birth s0.
Proof.
  intros Hn Hnd Hi. destruct (init_spec n cs s0 r Hn Hnd Hi) as (_ & Hall & Hd & _).
  unfold Birth. rewrite Hd, app_nil_r.
  unfold init in Hi. destruct (populate cs n [] 0) as [[[acc ev] rr]|]; [|discriminate].
  injection Hi as <- <-. cbn [logLs live] in *.
  apply Forall_forall. intros p Hp. pose proof (proj1 (Forall_forall _ _) Hall p Hp) as (Hit & _ & _ & Hf).
  split; [rewrite Hit; cbn; lia|]. rewrite Hit. cbn [nth].
  unfold finL in Hf. apply andb_prop in Hf. destruct Hf as [Hf _]. apply andb_prop in Hf. destruct Hf as [_ Hf].
  apply Z.ltb_lt in Hf. exact Hf.
Qed.

Lemma birth_finalise s : Birth s -> Birth (finalise s).
Proof.
  unfold Birth, finalise. cbn [live dead logLs]. intros H. rewrite app_nil_l.
  apply Forall_forall. intros p Hp. apply born_below_app.
  rewrite Forall_forall in H. apply H. apply in_app_or in Hp. apply in_or_app. tauto.
Qed.
