(* C02 - lemmas about Model/C02_Quadrature.v *)
From Coq Require Import Reals ZArith List Bool Lia Lra Psatz.
From Interval Require Import Xreal Interval Basic.
From NessaiV Require Import Lib.Enclose Model.C02_Quadrature.
Import ListNotations.
Local Open Scope R_scope.

(* ---- shrinkage ------------------------------------------------------------------- *)
Lemma nR_pos n : 0 < nR n.
Proof. unfold nR. apply IZR_lt. lia. Qed.
Lemma nR_ge1 n : 1 <= nR n.
Proof. unfold nR. apply IZR_le. lia. Qed.

Lemma logt_neg md n : logt md n < 0.
Proof.
  generalize (nR_pos n). intros Hn. destruct md; simpl.
  - assert (0 < 1 / nR n) by (apply Rdiv_lt_0_compat; lra). lra.
  - assert (0 < 1 / nR n) by (apply Rdiv_lt_0_compat; lra).
    assert (0 < ln (1 + 1 / nR n)); [|lra].
    rewrite <- ln_1. apply ln_increasing; lra.
Qed.

(* the "t" expectation is  log (n / (n + 1)) *)
Lemma logt_TT_ratio n : exp (logt TT n) = nR n / (nR n + 1).
Proof.
  generalize (nR_pos n). intros Hn. simpl. rewrite exp_Ropp, exp_ln.
  - field. lra.
  - assert (0 < 1 / nR n) by (apply Rdiv_lt_0_compat; lra). lra.
Qed.
Lemma logt_LogT_exp n : exp (logt LogT n) = exp (- / nR n).
Proof. simpl. f_equal. unfold Rdiv. lra. Qed.

(* ---- cumulative sums, volumes ---------------------------------------------------- *)
Lemma cumsum_from_length acc l : length (cumsum_from acc l) = length l.
Proof. revert acc. induction l; simpl; intros; [reflexivity|now rewrite IHl]. Qed.

Lemma lvols_length md ns : length (lvols md ns) = S (length ns).
Proof. unfold lvols. simpl. now rewrite cumsum_from_length, map_length. Qed.

Lemma strict_dec_cons a l : strict_dec (a :: l) <-> (match l with b :: _ => b < a | [] => True end) /\ strict_dec l.
Proof. destruct l; simpl; tauto. Qed.

Lemma strict_dec_cumsum acc l :
  Forall (fun x => x < 0) l -> strict_dec (acc :: cumsum_from acc l).
Proof.
  revert acc. induction l as [|x l IH]; intros acc H; [exact Logic.I|].
  inversion H; subst. change (cumsum_from acc (x :: l)) with ((acc + x) :: cumsum_from (acc + x) l).
  split; [lra|]. now apply IH.
Qed.

Lemma strict_dec_map_exp l : strict_dec l -> strict_dec (map exp l).
Proof.
  induction l as [|a l IH]; [trivial|]. destruct l as [|b l]; [trivial|].
  intros [H1 H2]. split; [now apply exp_increasing|]. now apply IH.
Qed.

Lemma logts_neg md ns : Forall (fun x => x < 0) (map (logt md) ns).
Proof. apply Forall_forall. intros x Hx. apply in_map_iff in Hx. destruct Hx as [n [<- _]]. apply logt_neg. Qed.

Lemma vols_pos md ns : Forall (fun x => 0 < x) (vols md ns).
Proof.
  apply Forall_forall. intros x Hx. apply in_map_iff in Hx. destruct Hx as [y [<- _]]. apply exp_pos.
Qed.

Theorem vols_spec md ns :
  hd 0 (lvols md ns) = 0 /\ strict_dec (lvols md ns) /\ length (lvols md ns) = S (length ns) /\
  hd 0 (vols md ns) = 1 /\ strict_dec (vols md ns) /\ Forall (fun x => 0 < x) (vols md ns).
Proof.
  assert (Hd : strict_dec (lvols md ns)) by (apply strict_dec_cumsum, logts_neg).
  repeat split.
  - exact Hd.
  - apply lvols_length.
  - simpl. apply exp_0.
  - now apply strict_dec_map_exp.
  - apply vols_pos.
Qed.

(* ---- adjacent pairs --------------------------------------------------------------- *)
Lemma adj_cons2 {A B} (op : A -> A -> B) a b l : adj op (a :: b :: l) = op a b :: adj op (b :: l).
Proof. reflexivity. Qed.
Lemma adj_length {A B} (op : A -> A -> B) l : length (adj op l) = pred (length l).
Proof.
  induction l as [|a l IH]; [reflexivity|]. destruct l as [|b l]; [reflexivity|].
  rewrite adj_cons2. simpl length in *. now rewrite IH.
Qed.
Lemma adj_map {A B C} (f : A -> B) (op : B -> B -> C) l : adj op (map f l) = adj (fun a b => op (f a) (f b)) l.
Proof.
  induction l as [|a l IH]; [reflexivity|]. destruct l as [|b l]; [reflexivity|].
  simpl map in *. rewrite !adj_cons2. now rewrite IH.
Qed.

Lemma trap_cons2 f0 f1 fs x0 x1 xs :
  trap (f0 :: f1 :: fs) (x0 :: x1 :: xs) = (f0 + f1) / 2 * (x0 - x1) + trap (f1 :: fs) (x1 :: xs).
Proof. reflexivity. Qed.
Lemma trap_short_l f xs : trap [f] xs = 0.
Proof. reflexivity. Qed.
Lemma trap_short_r fs x : trap fs [x] = 0.
Proof. unfold trap. simpl. destruct (adj Rplus fs); reflexivity. Qed.

(* dX is positive *)
Lemma adj_minus_pos l : strict_dec l -> Forall (fun d => 0 < d) (adj Rminus l).
Proof.
  induction l as [|a l IH]; [constructor|]. destruct l as [|b l]; [constructor|].
  intros [H1 H2]. rewrite adj_cons2. constructor; [lra|now apply IH].
Qed.
Lemma dX_pos md ns : Forall (fun d => 0 < d) (dX md ns).
Proof. apply adj_minus_pos. apply vols_spec. Qed.
Lemma dX_length md ns : length (dX md ns) = length ns.
Proof. unfold dX. rewrite adj_length. unfold vols. rewrite map_length, lvols_length. reflexivity. Qed.

(* ---- the incremental state equals the one-pass computation ------------------------- *)
Lemma sum_R_cons a l : sum_R (a :: l) = a + sum_R l.
Proof. reflexivity. Qed.
Lemma last_nonempty_any {A} (a : A) l d d' : last (a :: l) d = last (a :: l) d'.
Proof. revert a. induction l as [|b l IH]; intros a; [reflexivity|]. exact (IH b). Qed.
Lemma last_cons_any {A} (a : A) l d : last (a :: l) d = last l a.
Proof. destruct l as [|b l]; [reflexivity|]. change (last (a :: b :: l) d) with (last (b :: l) d). apply last_nonempty_any. Qed.
Lemma incr_fold md pairs s :
  let s' := fold_left (increment md) pairs s in
  let lts := map (logt md) (map snd pairs) in
  sZ s' = sZ s + sum_R (map2 Rmult (map xexp (map fst pairs))
                                   (adj Rminus (map exp (slogw s :: cumsum_from (slogw s) lts))))
  /\ slv s' = slv s ++ cumsum_from (slogw s) lts
  /\ sLs s' = sLs s ++ map fst pairs
  /\ slogw s' = last (cumsum_from (slogw s) lts) (slogw s).
Proof.
  revert s. induction pairs as [|[l n] pairs IH]; intros s; cbn zeta.
  - simpl. rewrite !app_nil_r. repeat split; lra.
  - cbn [fold_left]. specialize (IH (increment md s (l, n))). cbn zeta in IH.
    destruct IH as (H1 & H2 & H3 & H4).
    cbn [map fst snd cumsum_from]. cbn [increment fst snd sZ slogw sLs slv] in H1, H2, H3, H4.
    rewrite H1, H2, H3, H4. repeat split.
    + cbn [map]. rewrite adj_cons2. cbn [map2]. rewrite sum_R_cons. cbn [map]. rewrite exp_plus. ring.
    + now rewrite <- app_assoc.
    + now rewrite <- app_assoc.
    + symmetry. apply last_cons_any.
Qed.

Lemma combine_fst {A B} (la : list A) (lb : list B) : length la = length lb -> map fst (combine la lb) = la.
Proof.
  revert lb. induction la; destruct lb; simpl; intros H; try discriminate; [reflexivity|].
  f_equal. apply IHla. lia.
Qed.
Lemma combine_snd {A B} (la : list A) (lb : list B) : length la = length lb -> map snd (combine la lb) = lb.
Proof.
  revert lb. induction la; destruct lb; simpl; intros H; try discriminate; [reflexivity|].
  f_equal. apply IHla. lia.
Qed.

Theorem incremental_eq_onepass md ls ns :
  length ls = length ns ->
  let s := ns_run md ls ns in
  sZ s = Zrect md ls ns /\ st_log_vols s = lvols md ns /\ sLs s = ls /\ slogw s = last (lvols md ns) 0.
Proof.
  intros Hlen. cbn zeta. unfold ns_run.
  destruct (incr_fold md (combine ls ns) ns_init) as (H1 & H2 & H3 & H4). cbn zeta in *.
  rewrite (combine_fst _ _ Hlen) in *. rewrite (combine_snd _ _ Hlen) in *.
  cbn [ns_init sZ slogw sLs slv] in *. repeat split.
  - rewrite H1. unfold Zrect, dX, vols, lvols. lra.
  - unfold st_log_vols, lvols. now rewrite H2.
  - now rewrite H3.
  - rewrite H4. unfold lvols. destruct (cumsum_from 0 (map (logt md) ns)); reflexivity.
Qed.

Lemma last_cons_default {A} (a : A) l : last (a :: l) a = last l a.
Proof. destruct l; reflexivity. Qed.

Theorem state_eq_compute_weights md ls ns :
  length ls = length ns ->
  let s := ns_run md ls ns in
  st_Z s = cw_Z md ls ns /\ st_w s = cw_w md ls ns.
Proof.
  intros Hlen. cbn zeta.
  destruct (incremental_eq_onepass md ls ns Hlen) as (_ & H2 & H3 & _). cbn zeta in *.
  assert (HZ : st_Z (ns_run md ls ns) = cw_Z md ls ns).
  { unfold st_Z, cw_Z, st_L, st_X, cw_L, cw_X, st_logLs, vols. rewrite H2, H3.
    now rewrite last_cons_default. }
  split; [exact HZ|].
  unfold st_w, cw_w, dX, vols. now rewrite HZ, H2, H3.
Qed.

(* ---- schedules ---------------------------------------------------------------------- *)
Lemma countdown_as_map n : countdown n = map (fun i => Pos.of_nat (n - i)) (seq 0 n).
Proof.
  induction n as [|n IH]; [reflexivity|].
  cbn [countdown]. rewrite <- cons_seq, <- seq_shift, map_cons, map_map.
  f_equal.
  - rewrite Nat.sub_0_r. now rewrite Pos.of_nat_succ.
  - rewrite IH. apply map_ext. intros i. reflexivity.
Qed.

Theorem sampler_schedule_eq n iters : sampler_schedule n iters = cw_schedule n (iters + n).
Proof.
  unfold sampler_schedule, cw_schedule. rewrite Nat.add_sub. now rewrite countdown_as_map.
Qed.
Lemma countdown_length n : length (countdown n) = n.
Proof. induction n; simpl; [reflexivity|now rewrite IHn]. Qed.
Lemma cw_schedule_length n m : (n <= m)%nat -> length (cw_schedule n m) = m.
Proof. intros H. unfold cw_schedule. rewrite app_length, repeat_length, countdown_length. lia. Qed.

(* ---- homogeneity: multiplying every likelihood by c ---------------------------------- *)
Lemma sum_R_scale c l : sum_R (map (Rmult c) l) = c * sum_R l.
Proof. induction l; simpl; [lra|]. fold (sum_R l). fold (sum_R (map (Rmult c) l)). rewrite IHl. lra. Qed.

Lemma adj_plus_scale c fs : adj Rplus (map (Rmult c) fs) = map (Rmult c) (adj Rplus fs).
Proof.
  induction fs as [|a l IH]; [reflexivity|]. destruct l as [|b l]; [reflexivity|].
  simpl map in *. rewrite !adj_cons2. simpl map. rewrite IH. f_equal. lra.
Qed.
Lemma map2_scale_l c (f : R -> R -> R) la lb :
  (forall a b, f (c * a) b = c * f a b) ->
  map2 f (map (Rmult c) la) lb = map (Rmult c) (map2 f la lb).
Proof.
  intros Hf. revert lb. induction la; destruct lb; simpl; try reflexivity. now rewrite Hf, IHla.
Qed.
Lemma trap_scale c fs xs : trap (map (Rmult c) fs) xs = c * trap fs xs.
Proof.
  unfold trap. rewrite adj_plus_scale, map2_scale_l, sum_R_scale; [reflexivity|].
  intros a b. field.
Qed.

Lemma xexp_shift a l : xexp (shift a l) = exp a * xexp l.
Proof. destruct l; simpl; [rewrite exp_plus|]; lra. Qed.
Lemma last_map {A B} (f : A -> B) l d : last (map f l) (f d) = f (last l d).
Proof. induction l as [|a l IH]; [reflexivity|]. destruct l; [reflexivity|]. exact IH. Qed.
Lemma cw_L_shift a ls : cw_L (map (shift a) ls) = map (Rmult (exp a)) (cw_L ls).
Proof.
  unfold cw_L. change (@None R) with (shift a None) at 1 2. rewrite last_map.
  change [shift a (last ls None)] with (map (shift a) [last ls None]).
  rewrite <- map_app. change (shift a None :: map (shift a) (ls ++ [last ls None]))
    with (map (shift a) (None :: ls ++ [last ls None])).
  rewrite !map_map. apply map_ext. intros l. apply xexp_shift.
Qed.

Theorem Z_shift md ls ns a : cw_Z md (map (shift a) ls) ns = exp a * cw_Z md ls ns.
Proof. unfold cw_Z. rewrite cw_L_shift. apply trap_scale. Qed.

(* ---- positivity of the evidence -------------------------------------------------------- *)
Lemma trap_nonneg fs xs :
  Forall (fun f => 0 <= f) fs -> strict_dec xs -> 0 <= trap fs xs.
Proof.
  revert xs. induction fs as [|f0 fs IH]; intros xs Hf Hx; [unfold trap; simpl; lra|].
  destruct fs as [|f1 fs]; [rewrite trap_short_l; lra|].
  destruct xs as [|x0 xs]; [unfold trap; simpl; lra|].
  destruct xs as [|x1 xs]; [rewrite trap_short_r; lra|].
  rewrite trap_cons2. inversion Hf as [|? ? Hf0 Hf']; subst. inversion Hf' as [|? ? Hf1 _]; subst.
  destruct Hx as [Hx0 Hx']. specialize (IH (x1 :: xs) Hf' Hx').
  assert (0 <= (f0 + f1) / 2 * (x0 - x1)); [|lra].
  apply Rmult_le_pos; lra.
Qed.

Lemma trap_pos fs xs :
  length fs = length xs -> Forall (fun f => 0 <= f) fs -> strict_dec xs ->
  Exists (fun f => 0 < f) (removelast fs) -> 0 < trap fs xs.
Proof.
  revert xs. induction fs as [|f0 fs IH]; intros xs Hl Hf Hx He; [inversion He|].
  destruct fs as [|f1 fs]; [inversion He|].
  destruct xs as [|x0 xs]; [discriminate|]. destruct xs as [|x1 xs]; [discriminate|].
  rewrite trap_cons2. inversion Hf as [|? ? Hf0 Hf']; subst. inversion Hf' as [|? ? Hf1 _]; subst.
  destruct Hx as [Hx0 Hx'].
  change (removelast (f0 :: f1 :: fs)) with (f0 :: removelast (f1 :: fs)) in He.
  inversion He as [? ? Hp|? ? He']; subst.
  - assert (0 < (f0 + f1) / 2 * (x0 - x1)) by (apply Rmult_lt_0_compat; lra).
    generalize (trap_nonneg (f1 :: fs) (x1 :: xs) Hf' Hx'). lra.
  - assert (0 <= (f0 + f1) / 2 * (x0 - x1)) by (apply Rmult_le_pos; lra).
    assert (0 < trap (f1 :: fs) (x1 :: xs)); [|lra].
    apply IH; auto.
Qed.

Lemma strict_dec_app_zero l : strict_dec l -> Forall (fun x => 0 < x) l -> strict_dec (l ++ [0]).
Proof.
  induction l as [|a l IH]; [trivial|]. intros Hd Hp. inversion Hp as [|? ? Hpa Hpl]; subst.
  destruct l as [|b l]; [simpl; split; [lra|trivial]|].
  destruct Hd as [Hd1 Hd2]. split; [exact Hd1|]. now apply IH.
Qed.

Lemma cw_L_nonneg ls : Forall (fun f => 0 <= f) (cw_L ls).
Proof. apply Forall_forall. intros x Hx. apply in_map_iff in Hx. destruct Hx as [y [<- _]]. apply xexp_nonneg. Qed.
Lemma cw_X_dec md ns : strict_dec (cw_X md ns).
Proof. apply strict_dec_app_zero; apply vols_spec. Qed.

Lemma removelast_map {A B} (f : A -> B) l : removelast (map f l) = map f (removelast l).
Proof. induction l as [|a l IH]; [reflexivity|]. destruct l; [reflexivity|]. simpl in *. now rewrite IH. Qed.

Theorem Z_pos md ls ns : length ls = length ns -> has_finite ls -> 0 < cw_Z md ls ns.
Proof.
  intros Hl [x Hx]. unfold cw_Z. apply trap_pos.
  - unfold cw_L, cw_X, vols. rewrite map_length, app_length, map_length, lvols_length. simpl.
    rewrite app_length. simpl. lia.
  - apply cw_L_nonneg.
  - apply cw_X_dec.
  - unfold cw_L. rewrite removelast_map.
    change (None :: ls ++ [last ls None]) with ((None :: ls) ++ [last ls None]).
    rewrite removelast_last. apply Exists_exists. exists (exp x). split; [|apply exp_pos].
    apply in_map_iff. exists (Some x). split; [reflexivity|now right].
Qed.

Lemma sum_map2_nonneg (Ls ds : list R) :
  Forall (fun x => 0 <= x) Ls -> Forall (fun d => 0 < d) ds -> 0 <= sum_R (map2 Rmult Ls ds).
Proof.
  revert ds. induction Ls as [|a Ls IH]; intros ds Hn Hd; [simpl; lra|].
  destruct ds as [|d ds]; [simpl; lra|]. cbn [map2]. rewrite sum_R_cons.
  inversion Hn as [|? ? Ha Hn']; subst. inversion Hd as [|? ? Hd0 Hd']; subst.
  specialize (IH ds Hn' Hd'). assert (0 <= a * d) by (apply Rmult_le_pos; lra). lra.
Qed.
Lemma sum_map2_pos (Ls ds : list R) :
  length Ls = length ds -> Forall (fun x => 0 <= x) Ls -> Forall (fun d => 0 < d) ds ->
  Exists (fun x => 0 < x) Ls -> 0 < sum_R (map2 Rmult Ls ds).
Proof.
  revert ds. induction Ls as [|a Ls IH]; intros ds Hl Hn Hd He; [inversion He|].
  destruct ds as [|d ds]; [discriminate|]. cbn [map2]. rewrite sum_R_cons.
  inversion Hn as [|? ? Ha Hn']; subst. inversion Hd as [|? ? Hd0 Hd']; subst.
  generalize (sum_map2_nonneg Ls ds Hn' Hd'). intros Hnn.
  inversion He as [? ? Hp|? ? He']; subst.
  - assert (0 < a * d) by (apply Rmult_lt_0_compat; lra). lra.
  - assert (0 <= a * d) by (apply Rmult_le_pos; lra).
    assert (0 < sum_R (map2 Rmult Ls ds)); [|lra]. apply IH; auto.
Qed.

Theorem Zrect_pos md ls ns : length ls = length ns -> has_finite ls -> 0 < Zrect md ls ns.
Proof.
  intros Hl [x Hx]. unfold Zrect. apply sum_map2_pos.
  - now rewrite map_length, dX_length.
  - apply Forall_forall. intros y Hy. apply in_map_iff in Hy. destruct Hy as [z [<- _]]. apply xexp_nonneg.
  - apply dX_pos.
  - apply Exists_exists. exists (exp x). split; [|apply exp_pos].
    apply in_map_iff. now exists (Some x).
Qed.

(* ---- shift theorem at the level of what the code returns ------------------------------- *)
Lemma has_finite_shift a ls : has_finite ls -> has_finite (map (shift a) ls).
Proof. intros [x Hx]. exists (x + a). apply in_map_iff. now exists (Some x). Qed.

Lemma map2_ext_in {A B C} (f g : A -> B -> C) la lb :
  (forall a b, In b lb -> f a b = g a b) -> map2 f la lb = map2 g la lb.
Proof.
  revert lb. induction la; destruct lb; simpl; intros H; try reflexivity.
  rewrite H by now left. f_equal. apply IHla. intros; apply H; now right.
Qed.
Lemma map2_map_l {A A' B C} (h : A -> A') (f : A' -> B -> C) la lb :
  map2 f (map h la) lb = map2 (fun a b => f (h a) b) la lb.
Proof. revert lb. induction la; destruct lb; simpl; try reflexivity. now rewrite IHla. Qed.

Theorem shift_thm md ls ns a :
  length ls = length ns -> has_finite ls ->
  cw_lnZ md (map (shift a) ls) ns = cw_lnZ md ls ns + a
  /\ cw_w md (map (shift a) ls) ns = cw_w md ls ns
  /\ cw_lnw md (map (shift a) ls) ns = cw_lnw md ls ns.
Proof.
  intros Hl Hf. generalize (Z_pos md ls ns Hl Hf). intros HZ.
  assert (H1 : cw_lnZ md (map (shift a) ls) ns = cw_lnZ md ls ns + a).
  { unfold cw_lnZ. rewrite Z_shift. rewrite ln_mult by (try apply exp_pos; exact HZ). rewrite ln_exp. lra. }
  split; [exact H1|]. split.
  - unfold cw_w. rewrite Z_shift. rewrite !map_map. rewrite !map2_map_l.
    apply map2_ext_in. intros l d _. rewrite xexp_shift. field. split; [lra|].
    generalize (exp_pos a). lra.
  - unfold cw_lnw. rewrite map2_map_l. apply map2_ext_in. intros l d _.
    destruct l; simpl; [|reflexivity]. rewrite H1. f_equal. lra.
Qed.

(* the logarithmic outputs are the logarithms of the linear ones *)
Theorem lnw_spec md ls ns :
  length ls = length ns -> has_finite ls -> map xexp (cw_lnw md ls ns) = cw_w md ls ns.
Proof.
  intros Hl Hf. generalize (Z_pos md ls ns Hl Hf). intros HZ.
  unfold cw_lnw, cw_w, cw_lnZ. generalize (dX_pos md ns). generalize (dX md ns) as ds.
  generalize (cw_Z md ls ns) HZ. intros Z HZ'. clear HZ Hl Hf. induction ls as [|l ls IH]; intros ds Hd; [reflexivity|].
  destruct ds as [|d ds]; [reflexivity|]. inversion Hd; subst. simpl. rewrite IH by assumption. f_equal.
  destruct l; simpl.
  - unfold Rminus. rewrite !exp_plus, exp_Ropp, !exp_ln by assumption. reflexivity.
  - unfold Rdiv. ring.
Qed.

(* ---- tie A: soundness of the expression checkers ---------------------------------------- *)
Lemma is_one_sound e n : is_one e = true -> sden e n = 1.
Proof. destruct e; try discriminate. simpl. destruct z as [|[]|]; try discriminate. reflexivity. Qed.
Lemma is_inv_n_sound e n : is_inv_n e = true -> sden e n = 1 / n.
Proof.
  destruct e as [| | | |a b| |]; try discriminate. simpl. destruct b; try discriminate. intros H.
  simpl. now rewrite (is_one_sound _ _ H).
Qed.

Ltac brk := repeat match goal with
  | |- context [match ?e with _ => _ end] => destruct e; try discriminate
  end.
Ltac use_ok n := repeat match goal with
  | H : is_one _ = true |- _ => rewrite (is_one_sound _ (nR n) H); clear H
  | H : is_inv_n _ = true |- _ => rewrite (is_inv_n_sound _ (nR n) H); clear H
  end.

Theorem shrink_ok_sound md e (n : positive) : shrink_ok md e = true -> sden e (nR n) = logt md n.
Proof.
  generalize (nR_pos n). intros Hn.
  assert (Hq : 0 < 1 / nR n) by (apply Rdiv_lt_0_compat; lra).
  destruct md; unfold shrink_ok; brk; intros H; try (apply andb_prop in H; destruct H as [Ha Hb]);
    cbn [sden logt]; use_ok n; try reflexivity; try (field; lra).
  rewrite <- ln_Rinv by lra. f_equal. field. lra.
Qed.

Lemma zlin_sound e n i : let '(a, b, c) := zlin e in zden e n i = (a * n + b * i + c)%Z.
Proof.
  induction e as [| | |a IHa b IHb|a IHa b IHb]; cbn [zlin zden]; try lia.
  - destruct (zlin a) as [[a1 a2] a3], (zlin b) as [[b1 b2] b3]. lia.
  - destruct (zlin a) as [[a1 a2] a3], (zlin b) as [[b1 b2] b3]. lia.
Qed.

Theorem sched_ok_sound e : sched_ok e = true ->
  forall n iters, (1 <= n)%nat ->
  repeat (Z.of_nat n) iters ++ final_schedule e n = map Zpos (cw_schedule n (iters + n)).
Proof.
  unfold sched_ok. intros H n iters Hn.
  assert (Hd : forall i, zden e (Z.of_nat n) (Z.of_nat i) = (Z.of_nat n - Z.of_nat i)%Z).
  { intros i. generalize (zlin_sound e (Z.of_nat n) (Z.of_nat i)). destruct (zlin e) as [[a b] c].
    apply andb_prop in H. destruct H as [H Hc]. apply andb_prop in H. destruct H as [Ha Hb].
    apply Z.eqb_eq in Ha, Hb, Hc. subst. intros ->. lia. }
  unfold cw_schedule, final_schedule. rewrite Nat.add_sub, map_app. f_equal.
  - clear -Hn. induction iters; simpl; [reflexivity|]. rewrite IHiters. f_equal.
    rewrite <- positive_nat_Z. rewrite Nat2Pos.id by lia. reflexivity.
  - rewrite countdown_as_map, map_map. apply map_ext_in. intros i Hi. apply in_seq in Hi.
    rewrite Hd. rewrite <- positive_nat_Z. rewrite Nat2Pos.id by lia. lia.
Qed.
