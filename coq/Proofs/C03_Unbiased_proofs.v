(* C03 - why the bookkeeping matters: with the meta-proposal Q = sum_j (c_j / N) q_j (the weights C03 proves the
   sampler maintains) the importance weights f / Q make the evidence estimator unbiased, whatever the proposals.
   Finite sample space (a list of points), proposals q_j as non-negative functions, c_j draws from proposal j, N = sum c_j.
   The expectation of   Zhat = (1/N) sum_j sum_{i <= c_j} f(x_ji) / Q(x_ji),  x_ji ~ q_j,   is by linearity
       (1/N) sum_j c_j sum_x q_j(x) f(x) / Q(x)
   and the theorem says this equals sum_x f(x) whenever Q > 0 wherever f <> 0. *)
From Coq Require Import Reals List Lra Lia.
Import ListNotations.
Local Open Scope R_scope.

Section Unbiased.
Variable pt : Type.
Variable xs : list pt.                  (* the sample space *)
Variable q : nat -> pt -> R.            (* proposal densities (probability mass functions) *)
Variable f : pt -> R.                   (* prior x likelihood *)

Definition sumX (g : pt -> R) : R := fold_right (fun x a => g x + a) 0 xs.
Fixpoint sumJ (j : nat) (cs : list nat) (g : nat -> nat -> R) : R :=   (* sum over proposals j, j+1, ... with counts cs *)
  match cs with [] => 0 | c :: r => g j c + sumJ (S j) r g end.
Definition total (cs : list nat) : nat := fold_right plus 0%nat cs.

(* the meta-proposal with weights counts / total *)
Definition Qmix (cs : list nat) (x : pt) : R := sumJ 0 cs (fun j c => INR c / INR (total cs) * q j x).
(* expectation of the estimator *)
Definition EZhat (cs : list nat) : R :=
  sumJ 0 cs (fun j c => INR c / INR (total cs) * sumX (fun x => q j x * (f x / Qmix cs x))).

Lemma sumX_ext g h : (forall x, In x xs -> g x = h x) -> sumX g = sumX h.
Proof.
  unfold sumX. induction xs as [|x r IH]; intros H; cbn [fold_right]; [reflexivity|].
  rewrite (H x (or_introl eq_refl)), IH; [reflexivity|]. intros y Hy. apply H. now right.
Qed.
Lemma sumX_plus g h : sumX (fun x => g x + h x) = sumX g + sumX h.
Proof. unfold sumX. induction xs as [|x r IH]; cbn [fold_right]; [lra|]. rewrite IH. lra. Qed.
Lemma sumX_scal a g : sumX (fun x => a * g x) = a * sumX g.
Proof. unfold sumX. induction xs as [|x r IH]; cbn [fold_right]; [lra|]. rewrite IH. lra. Qed.
Lemma sumX_zero : sumX (fun _ => 0) = 0.
Proof. unfold sumX. induction xs as [|x r IH]; cbn [fold_right]; [lra|]. rewrite IH. lra. Qed.

(* exchange of the two sums *)
Lemma sum_swap cs : forall j (w : nat -> R) (g : nat -> pt -> R),
  sumJ j cs (fun j c => w c * sumX (g j)) = sumX (fun x => sumJ j cs (fun j c => w c * g j x)).
Proof.
  induction cs as [|c r IH]; intros j w g; cbn [sumJ].
  - now rewrite sumX_zero.
  - rewrite IH, <- sumX_scal, <- sumX_plus. reflexivity.
Qed.

Lemma sumJ_scal_r cs : forall j (g : nat -> nat -> R) a, sumJ j cs (fun j c => g j c * a) = sumJ j cs g * a.
Proof. induction cs as [|c r IH]; intros j g a; cbn [sumJ]; [lra|]. rewrite IH. lra. Qed.
Lemma sumJ_ext cs : forall j (g h : nat -> nat -> R), (forall j c, g j c = h j c) -> sumJ j cs g = sumJ j cs h.
Proof. induction cs as [|c r IH]; intros j g h H; cbn [sumJ]; [reflexivity|]. now rewrite H, (IH (S j) g h H). Qed.

Theorem estimator_unbiased (cs : list nat) :
  (forall x, In x xs -> f x <> 0 -> Qmix cs x <> 0) ->
  EZhat cs = sumX f.
Proof.
  intros Hsupp. unfold EZhat.
  rewrite (sum_swap cs 0 (fun c => INR c / INR (total cs)) (fun j x => q j x * (f x / Qmix cs x))).
  apply sumX_ext. intros x Hx.
  rewrite (sumJ_ext cs 0 _ (fun j c => INR c / INR (total cs) * q j x * (f x / Qmix cs x))) by (intros; ring).
  rewrite sumJ_scal_r. fold (Qmix cs x).
  destruct (Req_dec (f x) 0) as [Hf|Hf].
  - rewrite Hf. unfold Rdiv. ring.
  - field. now apply Hsupp.
Qed.

(* the weights used above are those of C03: they sum to one *)
Lemma sumJ_weights cs : forall j, sumJ j cs (fun _ c => INR c) = INR (total cs).
Proof.
  induction cs as [|c r IH]; intros j; cbn [sumJ total fold_right]; [reflexivity|].
  fold (total r). rewrite IH, plus_INR. reflexivity.
Qed.
Theorem mixture_weights_sum_one cs : (0 < total cs)%nat -> sumJ 0 cs (fun _ c => INR c / INR (total cs)) = 1.
Proof.
  intros H. unfold Rdiv. rewrite sumJ_scal_r, sumJ_weights.
  assert (0 < INR (total cs)) by (apply lt_0_INR; lia). field. lra.
Qed.
End Unbiased.
