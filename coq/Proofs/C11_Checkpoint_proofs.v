(* Proofs for Model/C11_Checkpoint.v *)
From Coq Require Import List Arith Bool Lia.
Import ListNotations.
From NessaiV Require Import Lib.FSModel Proofs.C11_FS_proofs Model.C11_Checkpoint.

(* ---- boolean equalities are equalities ------------------------------------------------------ *)
Lemma wspec_eqb_eq : forall a b, wspec_eqb a b = true <-> a = b.
Proof.
  intros [|f|n] [|g|m]; simpl; split; intro H; try reflexivity; try discriminate.
  - apply fname_eqb_eq in H. now subst.
  - inversion H. apply fname_eqb_refl.
  - apply Nat.eqb_eq in H. now subst.
  - inversion H. apply Nat.eqb_refl.
Qed.

Lemma payload_eqb_eq : forall a b, payload_eqb a b = true <-> a = b.
Proof.
  intros [v w|v] [v' w'|v']; simpl; split; intro H; try discriminate.
  - apply andb_prop in H. destruct H as [H1 H2]. apply Nat.eqb_eq in H1. apply wspec_eqb_eq in H2. now subst.
  - inversion H; subst. rewrite Nat.eqb_refl. simpl. now apply wspec_eqb_eq.
  - apply Nat.eqb_eq in H. now subst.
  - inversion H. apply Nat.eqb_refl.
Qed.

Lemma plist_eqb_eq : forall a b, plist_eqb a b = true <-> a = b.
Proof.
  induction a as [|x a IH]; intros [|y b]; simpl; split; intro H; try reflexivity; try discriminate.
  - apply andb_prop in H. destruct H as [H1 H2]. apply payload_eqb_eq in H1. apply IH in H2. now subst.
  - inversion H; subst. apply andb_true_intro. split; [now apply payload_eqb_eq|now apply IH].
Qed.

Lemma outcome_eqb_eq : forall a b, outcome_eqb a b = true <-> a = b.
Proof.
  intros [| |p w] [| |p' w']; simpl; split; intro H; try reflexivity; try discriminate.
  - apply andb_prop in H. destruct H as [H1 H2]. apply payload_eqb_eq in H1. apply plist_eqb_eq in H2. now subst.
  - inversion H; subst. apply andb_true_intro. split; [now apply payload_eqb_eq|now apply plist_eqb_eq].
Qed.

Lemma omem_In : forall o l, omem o l = true <-> In o l.
Proof.
  intros o l. unfold omem. rewrite existsb_exists. split.
  - intros (x & Hin & He). apply outcome_eqb_eq in He. now subst.
  - intro H. exists o. split; [exact H|now apply outcome_eqb_eq].
Qed.

(* ---- the reader only looks at the classification --------------------------------------------- *)
Section Ext.
Variables v v' : fview.
Hypothesis E : forall f, v f = v' f.

Lemma aexists_ext : forall f, aexists v f = aexists v' f.
Proof. intro f. unfold aexists. now rewrite E. Qed.
Lemma wload_ext : forall rc f, wload rc v f = wload rc v' f.
Proof. intros rc f. unfold wload. now rewrite E. Qed.
Lemma pload_ext : forall f, pload v f = pload v' f.
Proof. intro f. unfold pload. now rewrite E. Qed.
Lemma wload1_ext : forall rc f, wload1 rc v f = wload1 rc v' f.
Proof. intros rc f. unfold wload1. now rewrite wload_ext. Qed.

Lemma std_weights_ext : forall rc f, std_weights rc v f = std_weights rc v' f.
Proof.
  intros rc f. unfold std_weights. rewrite !aexists_ext, wload_ext, !wload1_ext. reflexivity.
Qed.

Lemma ins_load_ext : forall rc k i, ins_load rc v i k = ins_load rc v' i k.
Proof.
  intro rc. induction k as [|k IH]; intro i; simpl; [reflexivity|].
  rewrite wload_ext. unfold bind. apply flat_map_ext. intros [e|p]; [reflexivity|].
  now rewrite IH.
Qed.

Lemma ins_weights_ext : forall rc n, ins_weights rc v n = ins_weights rc v' n.
Proof.
  intros rc n. unfold ins_weights. rewrite ins_load_ext.
  replace (forallb (fun i => aexists v (Base (Lvl i))) (seq 0 n))
    with (forallb (fun i => aexists v' (Base (Lvl i))) (seq 0 n)); [reflexivity|].
  induction (seq 0 n) as [|x l IH]; simpl; [reflexivity|]. now rewrite IH, aexists_ext.
Qed.

Lemma try_load_ext : forall rc f, try_load rc v f = try_load rc v' f.
Proof.
  intros rc f. unfold try_load. rewrite pload_ext. unfold bind at 1 3. apply flat_map_ext.
  intros [e|[ver w]]; [reflexivity|].
  destruct w as [|wf|n]; [reflexivity| |]; [now rewrite std_weights_ext|now rewrite ins_weights_ext].
Qed.

Lemma resume_src_ext : forall rc, resume_src rc v = resume_src rc v'.
Proof.
  intro rc. unfold resume_src. rewrite !aexists_ext, !try_load_ext. reflexivity.
Qed.

Lemma resume_ext : forall rc, resume rc v = resume rc v'.
Proof. intro rc. unfold resume. now rewrite resume_src_ext. Qed.
End Ext.

(* ---- soundness of the atomicity checker, for every op list -------------------------------------- *)
Section Atomic.
Variable B : Type.
Variable bytes : payload -> list B.
Variable decode : list B -> option payload.
Hypothesis decode_bytes : forall p, decode (bytes p) = Some p.
Hypothesis decode_prefix : forall p j, j < length (bytes p) -> decode (firstn j (bytes p)) = None.
Hypothesis decode_nil : decode [] = None.

Theorem atomic_sound : forall rc (a0 : fstate) (ops : list op),
  atomic_safe rc a0 ops = true ->
  forall c0, sim B bytes decode c0 a0 ->
  forall n j o, In o (resume rc (classify decode (crash_exec bytes ops c0 n j))) ->
    o <> Fail /\ (In o (resume rc (afs a0)) \/ In o (resume rc (afs (aexec ops a0)))).
Proof.
  intros rc a0 ops Hs c0 Hsim n j o Ho.
  unfold atomic_safe in Hs. apply andb_prop in Hs. destruct Hs as [_ Hs].
  pose proof (checker_sound B bytes decode decode_bytes decode_prefix decode_nil outcome
                (resume rc) _ (fun v v' E => resume_ext v v' E rc) ops c0 a0 Hsim Hs n j o Ho) as Hacc.
  unfold acc_atomic in Hacc. apply andb_prop in Hacc. destruct Hacc as [Hnf Hin]. split.
  - intro Ef. subst o. discriminate.
  - apply orb_prop in Hin. destruct Hin as [H|H]; apply omem_In in H; [now left|now right].
Qed.

(* the same for an initial directory with no file open for writing *)
Theorem atomic_sound_closed : forall rc (a0 : fstate) (ops : list op),
  atomic_safe rc a0 ops = true ->
  forall c0 : cstate B,
    ahnd a0 = None -> chnd c0 = None -> (forall f, classify decode (cfs c0) f = afs a0 f) ->
  forall n j o, In o (resume rc (classify decode (crash_exec bytes ops c0 n j))) ->
    o <> Fail /\ (In o (resume rc (afs a0)) \/ In o (resume rc (afs (aexec ops a0)))).
Proof.
  intros rc a0 ops Hs c0 Ha Hc Hv.
  exact (atomic_sound rc a0 ops Hs c0 (sim_closed B bytes decode c0 a0 Ha Hc Hv)).
Qed.
End Atomic.

(* ---- the pickle writer: previous, new, or fresh when nothing had completed ---------------------- *)
Lemma popt_eqb_eq : forall a b, popt_eqb a b = true -> a = b.
Proof.
  intros [x|] [y|]; simpl; intro H; try discriminate; [|reflexivity].
  apply payload_eqb_eq in H. now subst.
Qed.

Section Pickle.
Variable B : Type.
Variable bytes : payload -> list B.
Variable decode : list B -> option payload.
Hypothesis decode_bytes : forall p, decode (bytes p) = Some p.
Hypothesis decode_prefix : forall p j, j < length (bytes p) -> decode (firstn j (bytes p)) = None.
Hypothesis decode_nil : decode [] = None.

Theorem pickle_checker_sound : forall rc (mk : writer) (scens : list scen),
  pickle_checker rc mk scens = true ->
  forall s, In s scens ->
  forall c0, sim B bytes decode c0 (s_init s) ->
  forall n j o,
    In o (resume rc (classify decode (crash_exec bytes (mk PKL (s_new s)) c0 n j))) ->
    property_outcome s o.
Proof.
  intros rc mk scens Hc s Hin c0 Hsim n j o Ho.
  unfold pickle_checker in Hc. apply andb_prop in Hc. destruct Hc as [Hw Hb].
  unfold pickle_writer_ok in Hw. rewrite forallb_forall in Hw. specialize (Hw s Hin).
  apply andb_prop in Hw. destruct Hw as [Hat Hco].
  rewrite forallb_forall in Hb. specialize (Hb s Hin).
  destruct (atomic_sound B bytes decode decode_bytes decode_prefix decode_nil rc _ _ Hat c0 Hsim n j o Ho)
    as [Hnf [Hbef|Haft]].
  - unfold before_shape in Hb. rewrite forallb_forall in Hb. specialize (Hb o Hbef).
    destruct o as [| |pk ws]; simpl.
    + now apply popt_eqb_eq in Hb.
    + discriminate.
    + left. now apply popt_eqb_eq in Hb.
  - unfold completes in Hco. apply andb_prop in Hco. destruct Hco as [_ Hco].
    rewrite forallb_forall in Hco. specialize (Hco o Haft).
    destruct o as [| |pk ws]; simpl in *; try discriminate.
    right. now apply payload_eqb_eq in Hco.
Qed.

Theorem pickle_checker_sound_closed : forall rc (mk : writer) (scens : list scen),
  pickle_checker rc mk scens = true ->
  forall s, In s scens ->
  forall c0 : cstate B,
    ahnd (s_init s) = None -> chnd c0 = None ->
    (forall f, classify decode (cfs c0) f = afs (s_init s) f) ->
  forall n j o,
    In o (resume rc (classify decode (crash_exec bytes (mk PKL (s_new s)) c0 n j))) ->
    property_outcome s o.
Proof.
  intros rc mk scens Hc s Hin c0 Ha Hcl Hv.
  exact (pickle_checker_sound rc mk scens Hc s Hin c0 (sim_closed B bytes decode c0 _ Ha Hcl Hv)).
Qed.
End Pickle.

(* ---- two kills ------------------------------------------------------------------------------------- *)
(* what the property asks after the second kill, given what the first resume found: a complete
   checkpoint no older than that one (or, if nothing had ever completed, a fresh start or the new one) *)
Definition second_outcome (o1 : outcome) (new2 : payload) (o2 : outcome) : Prop :=
  match o1, o2 with
  | Loaded pk1 _, Loaded pk _ => pk = pk1 \/ pk = new2
  | Fresh, Fresh => True
  | Fresh, Loaded pk _ => pk = new2
  | _, _ => False
  end.

Lemma second_ok_spec : forall o1 new2 o2, second_ok o1 new2 o2 = true -> second_outcome o1 new2 o2.
Proof.
  intros [| |pk1 ws1] new2 [| |pk ws]; simpl; intro H; try discriminate; try exact I.
  - now apply payload_eqb_eq in H.
  - apply orb_prop in H. destruct H as [H|H]; apply payload_eqb_eq in H; [now left|now right].
Qed.

Section TwoCrash.
Variable B : Type.
Variable bytes : payload -> list B.
Variable decode : list B -> option payload.
Hypothesis decode_bytes : forall p, decode (bytes p) = Some p.
Hypothesis decode_prefix : forall p j, j < length (bytes p) -> decode (firstn j (bytes p)) = None.
Hypothesis decode_nil : decode [] = None.

(* first kill (n1 ops, cut j1) during the checkpoint of a sampler that writes to PKL; a fresh process
   resumes (outcome o1, unpickled from src) and its sampler checkpoints to [holder rh src]; second kill
   (n2, j2) during that checkpoint; a third process resumes: o2 *)
Theorem two_crash_sound : forall rc rh (mk : writer) (s : scen) (new2 : payload),
  two_crash_ok rc rh mk s new2 = true ->
  legal (s_init s) (mk PKL (s_new s)) = true ->
  forall c0 : cstate B,
    ahnd (s_init s) = None -> chnd c0 = None -> (forall f, classify decode (cfs c0) f = afs (s_init s) f) ->
  forall n1 j1 o1 src,
    In (o1, src) (resume_src rc (classify decode (crash_exec bytes (mk PKL (s_new s)) c0 n1 j1))) ->
  forall n2 j2 o2,
    In o2 (resume rc (classify decode
            (crash_exec bytes (mk (holder rh src) new2)
               {| cfs := crash_exec bytes (mk PKL (s_new s)) c0 n1 j1; chnd := None |} n2 j2))) ->
    second_outcome o1 new2 o2.
Proof.
  intros rc rh mk s new2 Hok Hl1 c0 Ha Hc Hv n1 j1 o1 src H1 n2 j2 o2 H2.
  pose proof (sim_closed B bytes decode c0 (s_init s) Ha Hc Hv) as Hsim.
  destruct (abs_sound B bytes decode decode_bytes decode_prefix decode_nil _ c0 (s_init s) Hsim Hl1 n1 j1)
    as (v1 & Hin1 & Hv1).
  rewrite (resume_src_ext _ _ Hv1 rc) in H1.
  unfold two_crash_ok in Hok. rewrite forallb_forall in Hok. specialize (Hok v1 Hin1).
  rewrite forallb_forall in Hok. specialize (Hok (o1, src) H1). simpl in Hok.
  apply andb_prop in Hok. destruct Hok as [Hl2 Hall].
  set (c1 := {| cfs := crash_exec bytes (mk PKL (s_new s)) c0 n1 j1; chnd := None |}) in *.
  assert (Hsim1 : sim B bytes decode c1 (closed v1)).
  { apply sim_closed; [reflexivity|reflexivity|exact Hv1]. }
  destruct (abs_sound B bytes decode decode_bytes decode_prefix decode_nil _ c1 (closed v1) Hsim1 Hl2 n2 j2)
    as (v2 & Hin2 & Hv2).
  rewrite (resume_ext _ _ Hv2 rc) in H2.
  rewrite forallb_forall in Hall. specialize (Hall v2 Hin2).
  rewrite forallb_forall in Hall. exact (second_ok_spec _ _ _ (Hall o2 H2)).
Qed.
End TwoCrash.

(* concrete two-kill history for a sampler that follows the loaded file *)
Lemma follow_loaded_witness :
  let ops1 := safe_file_dump_ops true PKL (PkP 2 (StdW WT)) in
  let ops2 := safe_file_dump_ops true (holder FollowLoaded (Old PKL)) (PkP 3 (StdW WT)) in
  exists i k,
    i < length (crash_states clean2 ops1)
    /\ In (Loaded (PkP 1 (StdW WT)) [WtP 5], Old PKL) (resume_src rc_today (view_at clean2 ops1 i))
    /\ k < length (crash_states (closed (view_at clean2 ops1 i)) ops2)
    /\ In Fresh (resume rc_today (view_at (closed (view_at clean2 ops1 i)) ops2 k)).
Proof.
  intros ops1 ops2. exists 1, 1. split; [vm_compute; lia|]. split; [vm_compute; auto|].
  split; [vm_compute; lia|]. vm_compute. auto.
Qed.

Lemma today_hand_two : c11_two_ok rc_today KeepPickled (safe_file_dump_ops true) (safe_file_dump_ops false) = true.
Proof. vm_compute. reflexivity. Qed.

(* a sampler that keeps checkpointing to the file it was loaded from (the .old one after a fallback)
   rotates the only good checkpoint out of the reader's sight: refuted *)
Lemma follow_loaded_refuted :
  c11_two_ok rc_today FollowLoaded (safe_file_dump_ops true) (safe_file_dump_ops false) = false.
Proof. vm_compute. reflexivity. Qed.

(* ---- a killed training can be re-run ------------------------------------------------------------------ *)
Section Train.
Variable B : Type.
Variable bytes : payload -> list B.
Variable decode : list B -> option payload.
Hypothesis decode_bytes : forall p, decode (bytes p) = Some p.
Hypothesis decode_prefix : forall p j, j < length (bytes p) -> decode (firstn j (bytes p)) = None.
Hypothesis decode_nil : decode [] = None.

(* whatever a kill during the training leaves - n training ops issued, open file cut at j - is one of
   the enumerated (files, directories) states *)
Lemma tcrash_sound : forall (tops : list top) (c0 : cstate B) (a0 : fstate) (d0 : dset),
  sim B bytes decode c0 a0 -> run_ok a0 d0 tops = true ->
  forall n j, exists vd, In vd (tcrash a0 d0 tops)
     /\ (forall f, classify decode (cview (cexec bytes (tfiles (firstn n tops)) c0) j) f = fst vd f)
     /\ snd vd = dexec (firstn n tops) d0.
Proof.
  induction tops as [|t r IH]; intros c0 a0 d0 Hs Hr n j.
  - rewrite firstn_nil. simpl.
    destruct (sim_view B bytes decode decode_prefix c0 a0 j Hs) as (v & Hin & Hv).
    exists (v, d0). split; [|split; [exact Hv|reflexivity]].
    rewrite app_nil_r. apply in_map_iff. exists v. split; [reflexivity|exact Hin].
  - destruct n as [|n].
    + simpl firstn. simpl tfiles. simpl cexec.
      destruct (sim_view B bytes decode decode_prefix c0 a0 j Hs) as (v & Hin & Hv).
      exists (v, d0). split; [|split; [exact Hv|reflexivity]].
      simpl. apply in_or_app. left. apply in_map_iff. exists v. split; [reflexivity|exact Hin].
    + simpl in Hr. apply andb_prop in Hr. destruct Hr as [He Hr].
      destruct t as [d ok|d|o].
      * destruct (IH c0 a0 (dupd d0 d) Hs Hr n j) as (vd & Hin & Hv & Hd).
        exists vd. split; [|split; [exact Hv|exact Hd]]. simpl. apply in_or_app. right. exact Hin.
      * destruct (IH c0 a0 (dupd d0 d) Hs Hr n j) as (vd & Hin & Hv & Hd).
        exists vd. split; [|split; [exact Hv|exact Hd]]. simpl. apply in_or_app. right. exact Hin.
      * simpl in He.
        destruct (IH (cstep bytes c0 o) (astep a0 o) d0
                     (sim_step B bytes decode decode_bytes decode_nil c0 a0 o Hs He) Hr n j) as (vd & Hin & Hv & Hd).
        exists vd. split; [|split; [exact Hv|exact Hd]]. simpl. apply in_or_app. right. exact Hin.
Qed.

(* for EVERY training op list accepted by the checker: after any kill during the training, every
   operation of the same training - which the resumed sampler runs again - is enabled (no mkdir on an
   existing directory without exist_ok, no rename of a missing file, ...) *)
Theorem train_reusable_sound : forall (tops : list top) (a0 : fstate) (d0 : dset),
  train_reusable a0 d0 tops = true ->
  forall c0 : cstate B, sim B bytes decode c0 a0 ->
  forall n j, exists v,
    (forall f, classify decode (cview (cexec bytes (tfiles (firstn n tops)) c0) j) f = v f)
    /\ run_ok (closed v) (dexec (firstn n tops) d0) tops = true.
Proof.
  intros tops a0 d0 H c0 Hs n j.
  unfold train_reusable in H. apply andb_prop in H. destruct H as [Hr Hall].
  destruct (tcrash_sound tops c0 a0 d0 Hs Hr n j) as ([v ds] & Hin & Hv & Hd).
  rewrite forallb_forall in Hall. specialize (Hall (v, ds) Hin). simpl in *. subst ds.
  exists v. split; assumption.
Qed.
End Train.

Lemma train_today_reusable : train_reusable_all train_ops_today = true.
Proof. vm_compute. reflexivity. Qed.

(* a bare os.makedirs(level_output) - "each level is trained exactly once" - is refuted: killed after the
   directory exists, the retraining raises FileExistsError, on every later resume too *)
Lemma train_bare_mkdir_refuted :
  let tops := train_ops_bare_mkdir (DLvl 0) (Base (Lvl 0)) (WtP 6) in
  run_ok (closed empty_fs) no_dirs tops = true
  /\ exists i, i < length (tcrash (closed empty_fs) no_dirs tops)
       /\ (let vd := nth i (tcrash (closed empty_fs) no_dirs tops) (empty_fs, no_dirs) in
           run_ok (closed (fst vd)) (snd vd) tops = false).
Proof. intro tops. split; [vm_compute; reflexivity|]. exists 1. split; [vm_compute; lia|vm_compute; reflexivity]. Qed.

(* ---- today's hand-copied writers pass (the regenerated ones are checked on every run) ------------ *)
Lemma today_hand : c11_ok rc_today (safe_file_dump_ops true) (safe_file_dump_ops false)
                          save_weights_ops save_weights_ops = true.
Proof. vm_compute. reflexivity. Qed.

Lemma today_hand_pickle_std : forall keep,
  pickle_checker rc_today (safe_file_dump_ops keep) std_pickle_scens = true.
Proof. intros [|]; vm_compute; reflexivity. Qed.
Lemma today_hand_pickle_ins : forall keep,
  pickle_checker rc_today (safe_file_dump_ops keep) ins_pickle_scens = true.
Proof. intros [|]; vm_compute; reflexivity. Qed.

(* ---- refuted variants ------------------------------------------------------------------------------ *)
(* D3 (repaired in /repo by "FlowProposal.resume falls back to the previous weights file"):
   with the reader as it was before that commit, a kill inside torch.save fails the resume *)
Lemma before_fix_refuted :
  exists i, i < length (crash_states clean2 (save_weights_ops WT (WtP 6)))
         /\ In Fail (resume rc_before_fix (view_at clean2 (save_weights_ops WT (WtP 6)) i)).
Proof. exists 2. split; [vm_compute; lia|vm_compute; auto]. Qed.

(* residual defect of today's code: a kill that leaves 1-3 bytes of model.pt makes torch.load raise
   UnpicklingError, which the fallback in FlowProposal.resume does not catch *)
Lemma short_prefix_refuted :
  exists i, i < length (crash_states clean2 (save_weights_ops WT (WtP 6)))
         /\ In Fail (resume rc_fallback_only_short (view_at clean2 (save_weights_ops WT (WtP 6)) i)).
Proof. exists 2. split; [vm_compute; lia|vm_compute; auto]. Qed.

(* residual defect of today's code: kill inside torch.save (resume works, through the fallback),
   then a second kill inside the NEXT torch.save: the torn model.pt has been rotated over the only
   good copy, and no checkpoint can be resumed *)
Lemma second_kill_refuted :
  let ops1 := save_weights_ops WT (WtP 6) in
  let ops2 := save_weights_ops WT (WtP 7) in
  exists i k,
    i < length (crash_states clean2 ops1)
    /\ (forall o, In o (resume rc_fallback_only (view_at clean2 ops1 i)) -> o = Loaded (PkP 1 (StdW WT)) [WtP 5])
    /\ k < length (crash_states (closed (view_at clean2 ops1 i)) ops2)
    /\ In Fail (resume rc_fallback_only (view_at (closed (view_at clean2 ops1 i)) ops2 k)).
Proof.
  intros ops1 ops2. exists 2, 2. split; [vm_compute; lia|]. split; [vm_compute; intuition congruence|].
  split; [vm_compute; lia|]. vm_compute. auto.
Qed.

(* the weights writer is NOT atomic from the state the fallback leaves behind *)
Lemma after_torn_not_safe :
  weights_writer_ok rc_fallback_only save_weights_ops WT std_weights_scens_after_torn = false.
Proof. vm_compute. reflexivity. Qed.

(* ... and repaired: today's reader removes the damaged model.pt once the fallback has loaded, so from
   EVERY directory a kill inside save_weights can leave, the next save_weights is crash-atomic again *)
Lemma second_kill_repaired :
  forallb (fun v1 => atomic_safe rc_today (closed (after_resume rc_today v1)) (save_weights_ops WT (WtP 7)))
          (crash_states clean2 (save_weights_ops WT (WtP 6))) = true.
Proof. vm_compute. reflexivity. Qed.
