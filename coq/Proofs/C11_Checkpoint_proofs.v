(* Proofs for Model/C11_Checkpoint.v *)
From Coq Require Import List Arith Bool Lia.
Import ListNotations.
From NessaiV Require Import Lib.FSModel Proofs.C11_FS_proofs Model.C11_Checkpoint.

(* ---- boolean equalities are equalities ------------------------------------------------------ *)
Lemma wspec_eqb_eq : forall a b, wspec_eqb a b = true <-> a = b.
Proof.
  intros [|f|n] [|g|m]; simpl; split; intro H; try reflexivity; try discriminate.
  - apply fname_eqb_eq in H. now subst.
  - inversion H. apply fname_eqb_refl.
  - apply Nat.eqb_eq in H. now subst.
  - inversion H. apply Nat.eqb_refl.
Qed.

Lemma payload_eqb_eq : forall a b, payload_eqb a b = true <-> a = b.
Proof.
  intros [v w|v] [v' w'|v']; simpl; split; intro H; try discriminate.
  - apply andb_prop in H. destruct H as [H1 H2]. apply Nat.eqb_eq in H1. apply wspec_eqb_eq in H2. now subst.
  - inversion H; subst. rewrite Nat.eqb_refl. simpl. now apply wspec_eqb_eq.
  - apply Nat.eqb_eq in H. now subst.
  - inversion H. apply Nat.eqb_refl.
Qed.

Lemma plist_eqb_eq : forall a b, plist_eqb a b = true <-> a = b.
Proof.
  induction a as [|x a IH]; intros [|y b]; simpl; split; intro H; try reflexivity; try discriminate.
  - apply andb_prop in H. destruct H as [H1 H2]. apply payload_eqb_eq in H1. apply IH in H2. now subst.
  - inversion H; subst. apply andb_true_intro. split; [now apply payload_eqb_eq|now apply IH].
Qed.

Lemma outcome_eqb_eq : forall a b, outcome_eqb a b = true <-> a = b.
Proof.
  intros [| |p w] [| |p' w']; simpl; split; intro H; try reflexivity; try discriminate.
  - apply andb_prop in H. destruct H as [H1 H2]. apply payload_eqb_eq in H1. apply plist_eqb_eq in H2. now subst.
  - inversion H; subst. apply andb_true_intro. split; [now apply payload_eqb_eq|now apply plist_eqb_eq].
Qed.

Lemma omem_In : forall o l, omem o l = true <-> In o l.
Proof.
  intros o l. unfold omem. rewrite existsb_exists. split.
  - intros (x & Hin & He). apply outcome_eqb_eq in He. now subst.
  - intro H. exists o. split; [exact H|now apply outcome_eqb_eq].
Qed.

(* ---- the reader only looks at the classification --------------------------------------------- *)
Section Ext.
Variables v v' : fview.
Hypothesis E : forall f, v f = v' f.

Lemma aexists_ext : forall f, aexists v f = aexists v' f.
Proof. intro f. unfold aexists. now rewrite E. Qed.
Lemma wload_ext : forall rc f, wload rc v f = wload rc v' f.
Proof. intros rc f. unfold wload. now rewrite E. Qed.
Lemma pload_ext : forall f, pload v f = pload v' f.
Proof. intro f. unfold pload. now rewrite E. Qed.
Lemma wload1_ext : forall rc f, wload1 rc v f = wload1 rc v' f.
Proof. intros rc f. unfold wload1. now rewrite wload_ext. Qed.

Lemma std_weights_ext : forall rc f, std_weights rc v f = std_weights rc v' f.
Proof.
  intros rc f. unfold std_weights. rewrite !aexists_ext, wload_ext, !wload1_ext. reflexivity.
Qed.

Lemma ins_load_ext : forall rc k i, ins_load rc v i k = ins_load rc v' i k.
Proof.
  intro rc. induction k as [|k IH]; intro i; simpl; [reflexivity|].
  rewrite wload_ext. unfold bind. apply flat_map_ext. intros [e|p]; [reflexivity|].
  now rewrite IH.
Qed.

Lemma ins_weights_ext : forall rc n, ins_weights rc v n = ins_weights rc v' n.
Proof.
  intros rc n. unfold ins_weights. rewrite ins_load_ext.
  replace (forallb (fun i => aexists v (Base (Lvl i))) (seq 0 n))
    with (forallb (fun i => aexists v' (Base (Lvl i))) (seq 0 n)); [reflexivity|].
  induction (seq 0 n) as [|x l IH]; simpl; [reflexivity|]. now rewrite IH, aexists_ext.
Qed.

Lemma try_load_ext : forall rc f, try_load rc v f = try_load rc v' f.
Proof.
  intros rc f. unfold try_load. rewrite pload_ext. unfold bind at 1 3. apply flat_map_ext.
  intros [e|[ver w]]; [reflexivity|].
  destruct w as [|wf|n]; [reflexivity| |]; [now rewrite std_weights_ext|now rewrite ins_weights_ext].
Qed.

Lemma resume_ext : forall rc, resume rc v = resume rc v'.
Proof.
  intro rc. unfold resume. rewrite !aexists_ext, !try_load_ext. reflexivity.
Qed.
End Ext.

(* ---- soundness of the atomicity checker, for every op list -------------------------------------- *)
Section Atomic.
Variable B : Type.
Variable bytes : payload -> list B.
Variable decode : list B -> option payload.
Hypothesis decode_bytes : forall p, decode (bytes p) = Some p.
Hypothesis decode_prefix : forall p j, j < length (bytes p) -> decode (firstn j (bytes p)) = None.
Hypothesis decode_nil : decode [] = None.

Theorem atomic_sound : forall rc (a0 : fstate) (ops : list op),
  atomic_safe rc a0 ops = true ->
  forall c0, sim B bytes decode c0 a0 ->
  forall n j o, In o (resume rc (classify decode (crash_exec bytes ops c0 n j))) ->
    o <> Fail /\ (In o (resume rc (afs a0)) \/ In o (resume rc (afs (aexec ops a0)))).
Proof.
  intros rc a0 ops Hs c0 Hsim n j o Ho.
  unfold atomic_safe in Hs. apply andb_prop in Hs. destruct Hs as [_ Hs].
  pose proof (checker_sound B bytes decode decode_bytes decode_prefix decode_nil outcome
                (resume rc) _ (fun v v' E => resume_ext v v' E rc) ops c0 a0 Hsim Hs n j o Ho) as Hacc.
  unfold acc_atomic in Hacc. apply andb_prop in Hacc. destruct Hacc as [Hnf Hin]. split.
  - intro Ef. subst o. discriminate.
  - apply orb_prop in Hin. destruct Hin as [H|H]; apply omem_In in H; [now left|now right].
Qed.

(* the same for an initial directory with no file open for writing *)
Theorem atomic_sound_closed : forall rc (a0 : fstate) (ops : list op),
  atomic_safe rc a0 ops = true ->
  forall c0 : cstate B,
    ahnd a0 = None -> chnd c0 = None -> (forall f, classify decode (cfs c0) f = afs a0 f) ->
  forall n j o, In o (resume rc (classify decode (crash_exec bytes ops c0 n j))) ->
    o <> Fail /\ (In o (resume rc (afs a0)) \/ In o (resume rc (afs (aexec ops a0)))).
Proof.
  intros rc a0 ops Hs c0 Ha Hc Hv.
  exact (atomic_sound rc a0 ops Hs c0 (sim_closed B bytes decode c0 a0 Ha Hc Hv)).
Qed.
End Atomic.

(* ---- the pickle writer: previous, new, or fresh when nothing had completed ---------------------- *)
Lemma popt_eqb_eq : forall a b, popt_eqb a b = true -> a = b.
Proof.
  intros [x|] [y|]; simpl; intro H; try discriminate; [|reflexivity].
  apply payload_eqb_eq in H. now subst.
Qed.

Section Pickle.
Variable B : Type.
Variable bytes : payload -> list B.
Variable decode : list B -> option payload.
Hypothesis decode_bytes : forall p, decode (bytes p) = Some p.
Hypothesis decode_prefix : forall p j, j < length (bytes p) -> decode (firstn j (bytes p)) = None.
Hypothesis decode_nil : decode [] = None.

Theorem pickle_checker_sound : forall rc (mk : writer) (scens : list scen),
  pickle_checker rc mk scens = true ->
  forall s, In s scens ->
  forall c0, sim B bytes decode c0 (s_init s) ->
  forall n j o,
    In o (resume rc (classify decode (crash_exec bytes (mk PKL (s_new s)) c0 n j))) ->
    property_outcome s o.
Proof.
  intros rc mk scens Hc s Hin c0 Hsim n j o Ho.
  unfold pickle_checker in Hc. apply andb_prop in Hc. destruct Hc as [Hw Hb].
  unfold pickle_writer_ok in Hw. rewrite forallb_forall in Hw. specialize (Hw s Hin).
  apply andb_prop in Hw. destruct Hw as [Hat Hco].
  rewrite forallb_forall in Hb. specialize (Hb s Hin).
  destruct (atomic_sound B bytes decode decode_bytes decode_prefix decode_nil rc _ _ Hat c0 Hsim n j o Ho)
    as [Hnf [Hbef|Haft]].
  - unfold before_shape in Hb. rewrite forallb_forall in Hb. specialize (Hb o Hbef).
    destruct o as [| |pk ws]; simpl.
    + now apply popt_eqb_eq in Hb.
    + discriminate.
    + left. now apply popt_eqb_eq in Hb.
  - unfold completes in Hco. apply andb_prop in Hco. destruct Hco as [_ Hco].
    rewrite forallb_forall in Hco. specialize (Hco o Haft).
    destruct o as [| |pk ws]; simpl in *; try discriminate.
    right. now apply payload_eqb_eq in Hco.
Qed.

Theorem pickle_checker_sound_closed : forall rc (mk : writer) (scens : list scen),
  pickle_checker rc mk scens = true ->
  forall s, In s scens ->
  forall c0 : cstate B,
    ahnd (s_init s) = None -> chnd c0 = None ->
    (forall f, classify decode (cfs c0) f = afs (s_init s) f) ->
  forall n j o,
    In o (resume rc (classify decode (crash_exec bytes (mk PKL (s_new s)) c0 n j))) ->
    property_outcome s o.
Proof.
  intros rc mk scens Hc s Hin c0 Ha Hcl Hv.
  exact (pickle_checker_sound rc mk scens Hc s Hin c0 (sim_closed B bytes decode c0 _ Ha Hcl Hv)).
Qed.
End Pickle.

(* ---- today's hand-copied writers pass (the regenerated ones are checked on every run) ------------ *)
Lemma today_hand : c11_ok rc_today (safe_file_dump_ops true) (safe_file_dump_ops false)
                          save_weights_ops save_weights_ops = true.
Proof. vm_compute. reflexivity. Qed.

Lemma today_hand_pickle_std : forall keep,
  pickle_checker rc_today (safe_file_dump_ops keep) std_pickle_scens = true.
Proof. intros [|]; vm_compute; reflexivity. Qed.
Lemma today_hand_pickle_ins : forall keep,
  pickle_checker rc_today (safe_file_dump_ops keep) ins_pickle_scens = true.
Proof. intros [|]; vm_compute; reflexivity. Qed.

(* ---- refuted variants ------------------------------------------------------------------------------ *)
(* D3 (repaired in /repo by "FlowProposal.resume falls back to the previous weights file"):
   with the reader as it was before that commit, a kill inside torch.save fails the resume *)
Lemma before_fix_refuted :
  exists i, i < length (crash_states clean2 (save_weights_ops WT (WtP 6)))
         /\ In Fail (resume rc_before_fix (view_at clean2 (save_weights_ops WT (WtP 6)) i)).
Proof. exists 2. split; [vm_compute; lia|vm_compute; auto]. Qed.

(* residual defect of today's code: a kill that leaves 1-3 bytes of model.pt makes torch.load raise
   UnpicklingError, which the fallback in FlowProposal.resume does not catch *)
Lemma short_prefix_refuted :
  exists i, i < length (crash_states clean2 (save_weights_ops WT (WtP 6)))
         /\ In Fail (resume rc_today_short (view_at clean2 (save_weights_ops WT (WtP 6)) i)).
Proof. exists 2. split; [vm_compute; lia|vm_compute; auto]. Qed.

(* residual defect of today's code: kill inside torch.save (resume works, through the fallback),
   then a second kill inside the NEXT torch.save: the torn model.pt has been rotated over the only
   good copy, and no checkpoint can be resumed *)
Lemma second_kill_refuted :
  let ops1 := save_weights_ops WT (WtP 6) in
  let ops2 := save_weights_ops WT (WtP 7) in
  exists i k,
    i < length (crash_states clean2 ops1)
    /\ (forall o, In o (resume rc_today (view_at clean2 ops1 i)) -> o = Loaded (PkP 1 (StdW WT)) [WtP 5])
    /\ k < length (crash_states (closed (view_at clean2 ops1 i)) ops2)
    /\ In Fail (resume rc_today (view_at (closed (view_at clean2 ops1 i)) ops2 k)).
Proof.
  intros ops1 ops2. exists 2, 2. split; [vm_compute; lia|]. split; [vm_compute; intuition congruence|].
  split; [vm_compute; lia|]. vm_compute. auto.
Qed.

(* the weights writer is NOT atomic from the state the fallback leaves behind *)
Lemma after_torn_not_safe :
  weights_writer_ok rc_today save_weights_ops WT std_weights_scens_after_torn = false.
Proof. vm_compute. reflexivity. Qed.
