From Coq Require Import Reals ZArith List Bool Arith Lia Lra Permutation.
From Interval Require Import Xreal Interval Basic.
From NessaiV Require Import Lib.Enclose Model.C02_Quadrature Proofs.C02_Quadrature_proofs Run.C02_run
     Proofs.C02_Encl_proofs Model.C05_Results.
Import ListNotations.
Local Open Scope R_scope.

(* ================= importance sampler estimator ============================================== *)
Lemma Forall2_length' {A B} (R : A -> B -> Prop) la lb : Forall2 R la lb -> length la = length lb.
Proof. induction 1; cbn; congruence. Qed.

Lemma has_finite_len (ws : list xlog) : has_finite ws -> (1 <= length ws)%nat.
Proof. intros [x Hx]. destruct ws; [contradiction|cbn; lia]. Qed.

Lemma INR_Zofnat n : INR n = IZR (Z.of_nat n).
Proof. apply INR_IZR_INZ. Qed.

Section INS.
Variable p : prec.

Lemma ins_lnZ_encl wi ws : has_finite ws -> Forall2 xencl wi ws -> encl (ins_lnZ_I p wi) (ins_lnZ ws).
Proof.
  intros Hf H. unfold ins_lnZ_I, ins_lnZ. apply encl_sub; [now apply lse_encl|].
  rewrite (Forall2_length' _ _ _ H), INR_Zofnat. apply encl_ln; [|apply encl_iZ].
  rewrite <- INR_Zofnat. apply lt_0_INR. pose proof (has_finite_len ws Hf). lia.
Qed.

Lemma map_xsub_encl zi z li l : encl zi z -> Forall2 xencl li l ->
  Forall2 xencl (map (fun w => xsub_I p w zi) li) (map (fun w => xsub w z) l).
Proof. intros Hz H. induction H; cbn; constructor; [now apply encl_xsub|assumption]. Qed.

Lemma map_sq_encl zi z li l : encl zi z -> Forall2 xencl li l ->
  Forall2 encl (map (fun w => I.sqr p (I.sub p (xexp_I p (xsub_I p w zi)) (iZ p 1))) li)
               (map (fun w => (xexp (xsub w z) - 1) * (xexp (xsub w z) - 1)) l).
Proof.
  intros Hz H. induction H as [|x y lx ly Hxy Hr IH]; cbn; constructor; [|assumption].
  assert (E : encl (I.sub p (xexp_I p (xsub_I p x zi)) (iZ p 1)) (xexp (xsub y z) - 1)).
  { apply encl_sub; [apply encl_xexp; now apply encl_xsub|apply (encl_iZ p 1)]. }
  exact (encl_sqr p _ _ E).
Qed.

Lemma ins_lpw_encl wi ws : has_finite ws -> Forall2 xencl wi ws ->
  Forall2 xencl (ins_lpw_I p wi) (ins_lpw ws).
Proof.
  intros Hf H. unfold ins_lpw_I, ins_lpw. apply map_xsub_encl; [now apply ins_lnZ_encl|exact H].
Qed.

Lemma ins_err_encl wi ws : has_finite ws -> (2 <= length ws)%nat -> Forall2 xencl wi ws ->
  encl (ins_err_I p wi) (ins_err_scaled ws).
Proof.
  intros Hf Hn H. unfold ins_err_I, ins_err_scaled.
  pose proof (ins_lnZ_encl wi ws Hf H) as Hz. rewrite (Forall2_length' _ _ _ H).
  apply encl_sqrt. apply encl_div.
  - assert (2 <= INR (length ws)) by (change 2 with (INR 2); now apply le_INR). nra.
  - apply sum_encl. now apply map_sq_encl.
  - rewrite INR_Zofnat. apply encl_mul; [apply encl_iZ|].
    apply encl_sub; [apply encl_iZ|apply (encl_iZ p 1)].
Qed.
End INS.

(* the coded uncertainty equals the overflow-free form *)
Lemma ins_err_scaled_eq ws : has_finite ws -> (2 <= length ws)%nat -> ins_err ws = ins_err_scaled ws.
Proof.
  intros Hf Hn. unfold ins_err, ins_err_scaled.
  set (lz := ins_lnZ ws). set (zh := exp lz). set (n := INR (length ws)).
  assert (Hzh : 0 < zh) by apply exp_pos.
  assert (Hn2 : 2 <= n) by (change 2 with (INR 2); now apply le_INR).
  assert (Hd : 0 < n * (n - 1)) by nra.
  assert (Hterm : forall w, (xexp w - zh) * (xexp w - zh)
                            = zh * zh * ((xexp (xsub w lz) - 1) * (xexp (xsub w lz) - 1))).
  { intros [x|]; cbn [xexp xsub].
    - replace (exp (x - lz)) with (exp x / zh).
      + field. lra.
      + unfold zh, Rdiv, Rminus. rewrite exp_plus, exp_Ropp. reflexivity.
    - ring. }
  assert (Hsum : forall l, sum_R (map (fun w => (xexp w - zh) * (xexp w - zh)) l)
                 = zh * zh * sum_R (map (fun w => (xexp (xsub w lz) - 1) * (xexp (xsub w lz) - 1)) l)).
  { intros l. induction l as [|w r IH]; cbn [map sum_R fold_right]; [ring|].
    fold (sum_R (map (fun w0 => (xexp w0 - zh) * (xexp w0 - zh)) r)).
    fold (sum_R (map (fun w0 => (xexp (xsub w0 lz) - 1) * (xexp (xsub w0 lz) - 1)) r)).
    rewrite IH, Hterm. ring. }
  rewrite Hsum.
  set (S' := sum_R (map (fun w => (xexp (xsub w lz) - 1) * (xexp (xsub w lz) - 1)) ws)).
  assert (HS : 0 <= S').
  { unfold S'. apply sum_R_nonneg. apply Forall_forall. intros x Hx. apply in_map_iff in Hx.
    destruct Hx as (w & <- & _). cbv beta. set (t := xexp (xsub w lz) - 1). nra. }
  replace (zh * zh * S' / (n * (n - 1))) with (zh * zh * (S' / (n * (n - 1)))) by (field; lra).
  assert (Hq : 0 <= S' / (n * (n - 1))) by (apply Rmult_le_pos; [exact HS|left; now apply Rinv_0_lt_compat]).
  rewrite sqrt_mult by nra. rewrite sqrt_square by lra.
  replace (zh * sqrt (S' / (n * (n - 1))) / zh) with (sqrt (S' / (n * (n - 1)))) by (field; lra).
  apply Rabs_pos_eq. apply sqrt_pos.
Qed.

(* ================= standard sampler: information recurrence ================================= *)
Section Info.
Variable p : prec.
Variable md : mode.

Definition hrel (si : hstate_I) (s : hstate) : Prop :=
  encl (iZ_ si) (hZ s) /\ iseen si = hseen s /\ encl (ilogw si) (hlogw s) /\ encl (iH si) (hH s)
  /\ 0 <= hZ s /\ (hseen s = true -> 0 < hZ s).

Lemma h_incr_rel si s li l n : hrel si s -> xencl li l ->
  hrel (h_incr_I p md si (li, n)) (h_incr md s (l, n)).
Proof.
  intros (HZ & Hs & Hw & HH & Hnn & Hpos) Hl.
  pose proof (logt_encl p md n) as Hlt. pose proof (logt_neg md n) as Hneg.
  assert (H1e : 0 < 1 - exp (logt md n)).
  { assert (exp (logt md n) < exp 0) by (apply exp_increasing; exact Hneg). rewrite exp_0 in H. lra. }
  set (W := exp (hlogw s) * xexp l * (1 - exp (logt md n))).
  assert (HWe : encl (I.mul p (I.mul p (I.exp p (ilogw si)) (xexp_I p li)) (I.sub p (iZ p 1) (I.exp p (logt_I p md n)))) W).
  { unfold W. apply encl_mul; [apply encl_mul; [now apply encl_exp|now apply encl_xexp]|].
    apply encl_sub; [apply (encl_iZ p 1)|now apply encl_exp]. }
  assert (HW0 : 0 <= W).
  { unfold W. apply Rmult_le_pos; [apply Rmult_le_pos; [left; apply exp_pos|apply xexp_nonneg]|lra]. }
  assert (HZ'e : encl (I.add p (iZ_ si) (I.mul p (I.mul p (I.exp p (ilogw si)) (xexp_I p li))
                                                (I.sub p (iZ p 1) (I.exp p (logt_I p md n))))) (hZ s + W))
    by (now apply encl_add).
  unfold hrel, h_incr_I, h_incr. cbn [fst snd iZ_ iseen ilogw iH hZ hseen hlogw hH]. fold W.
  split; [exact HZ'e|]. split; [|split; [now apply encl_add|split; [|split]]].
  - rewrite Hs. destruct li, l; cbn in Hl; try contradiction; reflexivity.
  - destruct li as [lI|], l as [lr|]; cbn in Hl; try contradiction; [|exact HH].
    rewrite Hs. destruct (hseen s) eqn:E; [|exact HH].
    specialize (Hpos eq_refl).
    assert (Hz' : hZ s + W <> 0) by lra.
    apply encl_sub; [apply encl_add|].
    + apply encl_mul; [now apply encl_div|exact Hl].
    + apply encl_mul; [now apply encl_div|]. apply encl_add; [exact HH|now apply encl_ln].
    + apply encl_ln; [lra|exact HZ'e].
  - lra.
  - intros Hor. apply orb_prop in Hor. destruct Hor as [Hor|Hor]; [specialize (Hpos Hor); lra|].
    destruct l as [lr|]; [|discriminate]. cbn [xexp] in *.
    assert (0 < W) by (unfold W; cbn [xexp]; apply Rmult_lt_0_compat; [apply Rmult_lt_0_compat; apply exp_pos|lra]).
    lra.
Qed.

Lemma h_run_rel li ls ns : Forall2 xencl li ls -> hrel (h_run_I p md li ns) (h_run md ls ns).
Proof.
  intros H. unfold h_run_I, h_run.
  assert (H0 : hrel (h_init_I p) h_init).
  { unfold hrel, h_init_I, h_init; cbn. repeat split; try apply (encl_iZ p 0); try lra; try discriminate. }
  revert H0. generalize (h_init_I p) h_init. revert ns.
  induction H as [|a b la lb Hab Hrest IH]; intros ns si s Hr; cbn [combine fold_left]; [exact Hr|].
  destruct ns as [|n nr]; cbn [combine fold_left]; [exact Hr|].
  apply IH. now apply h_incr_rel.
Qed.

Lemma std_err_encl li ls ns nlive : Forall2 xencl li ls ->
  encl (std_err_I p md li ns nlive) (std_err md ls ns nlive).
Proof.
  intros H. unfold std_err_I, std_err. destruct (h_run_rel li ls ns H) as (_ & _ & _ & HH & _).
  apply encl_sqrt. apply encl_div; [pose proof (nR_pos nlive); lra|exact HH|apply encl_iZ].
Qed.
End Info.

(* ================= tie A: field chains ===================================================== *)
Lemma fields_sound f : fields_consistent f = true ->
  forall k, reachable f k = true ->
  exists s, s <> SNone
    /\ Forall (fun c => resolve k c = s) (f_dict f)
    /\ (has_redraw k = false -> Forall (fun c => resolve k c = s) (f_sampler f))
    /\ (has_redraw k = true -> Forall (fun c => resolve k c = s) (f_sampler_redraw f)).
Proof.
  unfold fields_consistent. intros H k Hr. rewrite forallb_forall in H.
  assert (Hin : In k all_cfgs) by (destruct k as [[|] [|] [|]]; cbn; tauto).
  specialize (H k Hin). rewrite Hr in H. cbn [negb orb] in H. unfold cfg_ok in H.
  destruct (f_dict f) as [|c0 cr] eqn:Ed; [discriminate|].
  set (s := resolve k c0) in *.
  apply andb_prop in H. destruct H as [H Hs]. apply andb_prop in H. destruct H as [Hnn Hd].
  assert (Heq : forall a b, src_eqb a b = true -> a = b) by (intros [] []; cbn; congruence).
  assert (Hall : forall cs, all_same k cs s = true -> Forall (fun c => resolve k c = s) cs).
  { intros cs Hc. unfold all_same in Hc. rewrite forallb_forall in Hc. apply Forall_forall.
    intros c Hc'. apply Heq. now apply Hc. }
  exists s. split; [|split; [now apply Hall|split]].
  - intros E. rewrite E in Hnn. discriminate.
  - intros E. rewrite E in Hs. now apply Hall.
  - intros E. rewrite E in Hs. now apply Hall.
Qed.
