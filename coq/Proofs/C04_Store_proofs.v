From Coq Require Import List ZArith Bool Arith Lia Sorting.Sorted Sorting.Permutation.
Import ListNotations.
From NessaiV Require Import Lib.ListOps Lib.ListOps_proofs Model.C04_Store.

Definition live_list (s : store) : list nat := match live s with Some l => l | None => [] end.

Record Inv (s : store) : Prop := {
  inv_sorted : ksorted key (rows s);                    (* sorted by likelihood *)
  inv_lq : length (lq s) = length (rows s);             (* one log_q row per sample *)
  inv_dead : sincr (dead s);                            (* discarded indices strictly increasing *)
  inv_live : sincr (live_list s);                       (* live indices strictly increasing *)
  inv_part : Permutation (dead s ++ live_list s) (seq 0 (length (rows s)))
                                                        (* together: every stored sample exactly once *)
}.

(* ---- sort_samples ------------------------------------------------------- *)
Lemma row_leb_key a b : row_leb a b = true -> (key (fst a) <= key (fst b))%Z.
Proof.
  unfold row_leb. intros H. apply orb_prop in H. destruct H as [H|H].
  - apply Z.ltb_lt in H. lia.
  - apply andb_prop in H. destruct H as [H _]. apply Z.eqb_eq in H. lia.
Qed.
Lemma row_leb_total a b : row_leb a b = false -> (key (fst b) <= key (fst a))%Z.
Proof.
  unfold row_leb. intros H. apply orb_false_elim in H. destruct H as [H _].
  apply Z.ltb_ge in H. exact H.
Qed.

Lemma sort_samples_perm b : Permutation (sort_samples b) b.
Proof. apply isort_perm. Qed.

Lemma sort_samples_sorted b : ksorted key (map fst (sort_samples b)).
Proof.
  apply ksorted_map. apply (isort_ksorted row_leb (fun p => key (fst p)) row_leb_key row_leb_total).
Qed.

(* ---- add_initial -------------------------------------------------------- *)
Lemma add_initial_inv s b : dead s = [] -> Inv (add_initial s b).
Proof.
  intros Hd. unfold add_initial. constructor; cbn.
  - apply sort_samples_sorted.
  - now rewrite !map_length.
  - rewrite Hd. constructor.
  - unfold live_list; cbn. apply sincr_seq.
  - unfold live_list; cbn. rewrite Hd, map_length. apply Permutation_refl.
Qed.

(* ---- merge_idx ---------------------------------------------------------- *)
Lemma merge_idx_perm d idx : Permutation (merge_idx d idx) (d ++ idx).
Proof. unfold merge_idx. apply np_insert_perm. now rewrite map_length. Qed.

Lemma merge_idx_sincr d idx : sincr d -> sincr idx -> NoDup (d ++ idx) -> sincr (merge_idx d idx).
Proof.
  intros Hd Hi Hn. apply sincr_of_le_nodup.
  - exact (proj2 (merge_idx_spec d idx Hd Hi)).
  - eapply Permutation_NoDup; [apply Permutation_sym, merge_idx_perm|exact Hn].
Qed.

Lemma inv_nodup s : Inv s -> NoDup (dead s ++ live_list s).
Proof.
  intros H. eapply Permutation_NoDup; [apply Permutation_sym, (inv_part s H)|apply seq_NoDup].
Qed.

Lemma inv_bounds s : Inv s -> Forall (fun i => i < length (rows s)) (dead s ++ live_list s).
Proof.
  intros H. apply Forall_forall. intros i Hi.
  apply (Permutation_in _ (inv_part s H)) in Hi. apply in_seq in Hi. lia.
Qed.

(* ---- remove_samples / finalise ------------------------------------------ *)
Lemma move_inv s (n : nat) lv :
  Inv s -> live s = Some lv ->
  forall live',
    live' = None \/ live' = Some (skipn n lv) ->
    forall mv, (live' = None -> mv = lv) -> (live' = Some (skipn n lv) -> mv = firstn n lv) ->
    forall ini th st rp,
    Inv {| init := ini; rows := rows s; lq := lq s; live := live'; dead := merge_idx (dead s) mv;
           thr := th; strict := st; repl := rp |}.
Proof.
  intros HI Hlv live' Hcase mv Hmv1 Hmv2 ini th st rp.
  pose proof (inv_nodup s HI) as Hnd. pose proof (inv_part s HI) as Hp.
  pose proof (inv_live s HI) as Hl. unfold live_list in *. rewrite Hlv in *.
  assert (Hsplit : Permutation (merge_idx (dead s) mv ++ match live' with Some l => l | None => [] end)
                               (dead s ++ lv)).
  { destruct Hcase as [->| ->].
    - rewrite (Hmv1 eq_refl), app_nil_r. apply merge_idx_perm.
    - rewrite (Hmv2 eq_refl).
      eapply Permutation_trans; [apply Permutation_app_tail, merge_idx_perm|].
      rewrite <- app_assoc, firstn_skipn. apply Permutation_refl. }
  constructor; cbn.
  - exact (inv_sorted s HI).
  - exact (inv_lq s HI).
  - apply merge_idx_sincr; [exact (inv_dead s HI)| |].
    + destruct Hcase as [->| ->]; [rewrite (Hmv1 eq_refl); exact Hl|rewrite (Hmv2 eq_refl); now apply sincr_firstn].
    + destruct Hcase as [->| ->].
      * now rewrite (Hmv1 eq_refl).
      * rewrite (Hmv2 eq_refl). rewrite <- (firstn_skipn n lv) in Hnd.
        rewrite app_assoc in Hnd. now apply nodup_app_l in Hnd.
  - unfold live_list; cbn. destruct Hcase as [->| ->]; [constructor|now apply sincr_skipn].
  - unfold live_list; cbn. eapply Permutation_trans; [exact Hsplit|exact Hp].
Qed.

Lemma remove_inv s s' n : Inv s -> remove_samples s = Some (s', n) -> Inv s'.
Proof.
  intros HI H. unfold remove_samples in H.
  destruct (live s) as [lv|] eqn:Hlv; [|discriminate].
  destruct (repl s).
  - injection H as <- <-. apply (move_inv s 0 lv HI Hlv None); auto; discriminate.
  - destruct (thr s) as [t|]; [|discriminate]. injection H as <- <-.
    eapply (move_inv s _ lv HI Hlv (Some _)); auto; discriminate.
Qed.

Lemma finalise_inv s s' : Inv s -> finalise s = Some s' -> Inv s'.
Proof.
  intros HI H. unfold finalise in H. destruct (live s) as [lv|] eqn:Hlv; [|discriminate].
  injection H as <-. apply (move_inv s 0 lv HI Hlv None); auto; discriminate.
Qed.

Lemma set_thr_inv s t : Inv s -> Inv (set_thr s t).
Proof. intros [H1 H2 H3 H4 H5]. constructor; assumption. Qed.

(* ---- add_samples -------------------------------------------------------- *)
Definition a_sb (b : list (srow * qrow)) := sort_samples b.
Definition a_bs b := map fst (a_sb b).
Definition a_bq b := map snd (a_sb b).
Definition a_idx (s : store) b := map (fun r => first_ge key (rows s) (key r)) (a_bs b).
Definition a_rows (s : store) b := np_insert (rows s) (a_idx s b) (a_bs b).
Definition a_lq (s : store) b := np_insert (lq s) (a_idx s b) (a_bq b).

Section AddSamples.
Variable s : store.
Variable b : list (srow * qrow).
Hypothesis HI : Inv s.

Local Notation sb := (a_sb b).
Local Notation bs := (a_bs b).
Local Notation bq := (a_bq b).
Local Notation idx := (a_idx s b).
Local Notation rows' := (a_rows s b).
Local Notation lq' := (a_lq s b).

Lemma idx_len : length idx = length bs.
Proof. unfold a_idx. apply map_length. Qed.
Lemma bq_len : length bq = length bs.
Proof. unfold a_bq, a_bs. now rewrite !map_length. Qed.

Lemma rows'_sorted : ksorted key rows'.
Proof. unfold a_rows, a_idx. apply np_insert_sorted; [exact (inv_sorted s HI)|apply sort_samples_sorted]. Qed.

Lemma rows'_len : length rows' = length (rows s) + length bs.
Proof. apply np_insert_length, idx_len. Qed.

Lemma lq'_len : length lq' = length rows'.
Proof.
  unfold a_lq. rewrite np_insert_length by (rewrite idx_len; symmetry; apply bq_len).
  rewrite rows'_len, (inv_lq s HI), bq_len. reflexivity.
Qed.

(* the multiset of (sample, log_q row) pairs grows by exactly the batch: nothing lost, nothing modified,
   every row still attached to its sample *)
Lemma content_grows : Permutation (combine rows' lq') (combine (rows s) (lq s) ++ b).
Proof.
  unfold a_rows, a_lq.
  rewrite np_insert_combine; [|now rewrite idx_len|rewrite idx_len; apply bq_len|symmetry; exact (inv_lq s HI)].
  eapply Permutation_trans; [apply np_insert_perm|].
  - rewrite combine_length, idx_len, bq_len. lia.
  - apply Permutation_app_head. unfold a_bs, a_bq.
    replace (combine (map fst sb) (map snd sb)) with sb; [apply sort_samples_perm|].
    generalize sb. clear. intros l. induction l as [|[a c] r IH]; cbn; [reflexivity|now rewrite <- IH].
Qed.

Lemma new_props :
  let new := add_arange 0 idx in
  sincr new /\ Forall (fun i => i < length rows') new /\ length new = length bs.
Proof.
  cbn. split; [|split].
  - apply add_arange_sincr. exact (ss_idx_nondecr key 0 (rows s) bs (sort_samples_sorted b)).
  - pose proof (add_arange_bound 0 idx (length (rows s))) as H.
    rewrite rows'_len, <- idx_len. replace (length (rows s) + length idx) with (length (rows s) + 0 + length idx) by lia.
    apply H. exact (ss_idx_bound key 0 (rows s) bs).
  - now rewrite add_arange_length, idx_len.
Qed.

Lemma add_samples_inv s' : add_samples s b = Some s' -> Inv s'.
Proof.
  unfold add_samples. fold sb. fold bs. fold bq. fold idx. fold rows'. fold lq'.
  destruct (init s); cbn [negb]; [|discriminate].
  destruct (strict s).
  - (* strict threshold: contiguous split at the threshold *)
    destruct (thr s) as [t|]; [|discriminate]. intros [= <-].
    pose proof (first_ge_le_length key rows' t) as Hn.
    constructor; cbn.
    + exact rows'_sorted.
    + exact lq'_len.
    + apply sincr_seq.
    + unfold live_list; cbn. apply sincr_seq.
    + unfold live_list; cbn. rewrite <- seq_app.
      replace (first_ge key rows' t + (length rows' - first_ge key rows' t)) with (length rows') by lia.
      apply Permutation_refl.
  - destruct bs as [|b0 bs'] eqn:Ebs; [discriminate|]. rewrite <- Ebs in *.
    destruct new_props as (Hns & Hnb & Hnl). set (new := add_arange 0 idx) in *.
    set (old := inverse_indices (length rows') new).
    destruct (length old =? length rows' - length bs) eqn:Elen; cbn [negb]; [|discriminate].
    apply Nat.eqb_eq in Elen. intros [= <-].
    assert (Hold_len : length old = length (rows s)) by (rewrite Elen, rows'_len; lia).
    pose proof (inverse_sincr (length rows') new) as Hos. fold old in Hos.
    pose proof (inverse_perm (length rows') new (sincr_NoDup _ Hns) Hnb) as Hop. fold old in Hop.
    pose proof (inv_bounds s HI) as Hb. rewrite <- Hold_len in Hb. apply Forall_app in Hb. destruct Hb as [Hbd Hbl].
    pose proof (inv_part s HI) as Hp.
    (* all index sets after the call, as one permutation of 0..N-1 *)
    assert (Hall : Permutation (take 0 old (dead s) ++ take 0 old (live_list s) ++ new) (seq 0 (length rows'))).
    { rewrite app_assoc. unfold take. rewrite <- map_app.
      eapply Permutation_trans; [apply Permutation_app_tail, Permutation_map, Hp|].
      rewrite <- Hold_len. change (map (fun i => nth i old 0) (seq 0 (length old))) with (take 0 old (seq 0 (length old))).
      rewrite take_seq. exact Hop. }
    assert (Hlive : Permutation (match live s with None => new | Some lv => merge_idx (take 0 old lv) new end)
                                (take 0 old (live_list s) ++ new)).
    { unfold live_list. destruct (live s) as [lv|]; [apply merge_idx_perm|apply Permutation_refl]. }
    assert (Hnd : NoDup (take 0 old (dead s) ++ take 0 old (live_list s) ++ new)).
    { eapply Permutation_NoDup; [apply Permutation_sym, Hall|apply seq_NoDup]. }
    constructor; cbn.
    + exact rows'_sorted.
    + exact lq'_len.
    + apply take_sincr; [exact Hos|exact (inv_dead s HI)|exact Hbd].
    + pose proof (inv_live s HI) as Hlv. unfold live_list in Hlv, Hbl, Hnd |- *; cbn.
      destruct (live s) as [lv|] eqn:El; [|exact Hns].
      apply merge_idx_sincr; [|exact Hns|].
      * apply take_sincr; [exact Hos|exact Hlv|exact Hbl].
      * now apply nodup_app_r in Hnd.
    + change (Permutation (take 0 old (dead s) ++ match live s with None => new | Some lv => merge_idx (take 0 old lv) new end)
                          (seq 0 (length rows'))).
      eapply Permutation_trans; [apply Permutation_app_head, Hlive|exact Hall].
Qed.

(* strict threshold: after add_samples the live set is exactly the samples at or above the threshold *)
Lemma add_samples_strict s' t :
  strict s = true -> thr s = Some t -> add_samples s b = Some s' ->
  forall i, i < length (rows s') ->
    (In i (live_list s') <-> (t <= key (nth i (rows s') dflt_row))%Z) /\
    (In i (dead s') <-> (key (nth i (rows s') dflt_row) < t)%Z).
Proof.
  intros Hst Ht. unfold add_samples. fold sb. fold bs. fold bq. fold idx. fold rows'. fold lq'.
  destruct (init s); cbn [negb]; [|discriminate]. rewrite Hst, Ht. intros [= <-]. cbn.
  intros i Hi. unfold live_list; cbn.
  pose proof (first_ge_nth key rows' t i dflt_row rows'_sorted Hi) as Hk.
  pose proof (first_ge_le_length key rows' t) as Hn.
  rewrite !in_seq. split; split; intros H; lia.
Qed.
End AddSamples.

(* ---- removed count ------------------------------------------------------- *)
Lemma live_points_sorted s lv : Inv s -> live s = Some lv -> ksorted key (take dflt_row (rows s) lv).
Proof.
  intros HI Hlv. pose proof (inv_live s HI) as Hl. pose proof (inv_bounds s HI) as Hb.
  unfold live_list in *. rewrite Hlv in *. apply Forall_app in Hb. destruct Hb as [_ Hb].
  pose proof (inv_sorted s HI) as Hs. clear Hlv.
  induction Hl as [|i r Hr IH Hi]; cbn; constructor.
  - apply IH. now inversion Hb.
  - apply Forall_forall. intros y Hy. unfold take in Hy. apply in_map_iff in Hy. destruct Hy as (j & <- & Hj).
    inversion Hb as [|? ? Hbi Hbr]; subst.
    pose proof (proj1 (Forall_forall _ _) Hi j Hj) as Hij. pose proof (proj1 (Forall_forall _ _) Hbr j Hj) as Hjb.
    cbv beta in *.
    (* rows sorted, i < j  ->  key rows[i] <= key rows[j] *)
    clear -Hs Hij Hjb. unfold kle. revert i j Hij Hjb.
    induction Hs as [|x l Hl IHl Hx]; intros i j Hij Hjb; cbn in *; [lia|].
    destruct i as [|i], j as [|j]; try lia.
    + apply (proj1 (Forall_forall _ _) Hx). apply nth_In. lia.
    + apply IHl; lia.
Qed.

Lemma remove_count s s' n t : Inv s -> repl s = false -> thr s = Some t ->
  remove_samples s = Some (s', n) ->
  n = length (filter (fun i => (key (nth i (rows s) dflt_row) <? t)%Z) (live_list s))
  /\ (forall i, In i (live_list s') -> (t <= key (nth i (rows s) dflt_row))%Z)
  /\ length (live_list s') = length (live_list s) - n.
Proof.
  intros HI Hr Ht H. unfold remove_samples in H. unfold live_list at 1 3.
  destruct (live s) as [lv|] eqn:Hlv; [|discriminate]. rewrite Hr, Ht in H. injection H as <- <-.
  pose proof (live_points_sorted s lv HI Hlv) as Hs.
  set (lp := take dflt_row (rows s) lv) in *.
  split; [|split].
  - rewrite (first_ge_count key lp t Hs). unfold count_lt, lp, take.
    clear. induction lv as [|i r IH]; cbn; [reflexivity|].
    destruct (key (nth i (rows s) dflt_row) <? t)%Z; cbn; now rewrite IH.
  - unfold live_list; cbn. intros i Hi.
    apply (first_ge_after key lp t); [exact Hs|].
    unfold lp at 2, take. rewrite skipn_map. apply in_map_iff. exists i. split; [reflexivity|exact Hi].
  - unfold live_list; cbn. rewrite skipn_length, Hlv. reflexivity.
Qed.

Lemma remove_count_all s s' n : repl s = true -> remove_samples s = Some (s', n) ->
  n = length (live_list s) /\ live s' = None.
Proof.
  intros Hr H. unfold remove_samples in H. unfold live_list.
  destruct (live s) as [lv|]; [|discriminate]. rewrite Hr in H. now injection H as <- <-.
Qed.

(* ---- histories ------------------------------------------------------------ *)
Definition is_init (o : op) : bool := match o with OInit _ => true | _ => false end.

Lemma step_inv s o s' n : Inv s -> is_init o = false -> step s o = Some (s', n) -> Inv s'.
Proof.
  intros HI Hn H. destruct o as [b|b|t| |]; cbn in *; try discriminate.
  - destruct (add_samples s b) as [s1|] eqn:E; [|discriminate]. injection H as <- <-.
    eapply add_samples_inv; eauto.
  - injection H as <- <-. now apply set_thr_inv.
  - eapply remove_inv; eauto.
  - destruct (finalise s) as [s1|] eqn:E; [|discriminate]. injection H as <- <-.
    eapply finalise_inv; eauto.
Qed.

(* successful execution of a whole history *)
Fixpoint steps (s : store) (ops : list op) : option store :=
  match ops with
  | [] => Some s
  | o :: r => match step s o with None => None | Some (s', _) => steps s' r end
  end.

Lemma steps_inv ops : forall s s', Inv s -> forallb (fun o => negb (is_init o)) ops = true ->
  steps s ops = Some s' -> Inv s'.
Proof.
  induction ops as [|o r IH]; intros s s' HI Hn H; cbn in *.
  - now injection H as <-.
  - apply andb_prop in Hn. destruct Hn as [Ho Hr]. apply negb_true_iff in Ho.
    destruct (step s o) as [[s1 n]|] eqn:E; [|discriminate].
    eapply IH; [eapply step_inv; eauto|exact Hr|exact H].
Qed.

(* batches added by a history *)
Fixpoint added (ops : list op) : list (srow * qrow) :=
  match ops with
  | [] => []
  | OAdd b :: r => b ++ added r
  | _ :: r => added r
  end.

Lemma step_content s o s' n : Inv s -> is_init o = false -> step s o = Some (s', n) ->
  Permutation (combine (rows s') (lq s'))
              (combine (rows s) (lq s) ++ match o with OAdd b => b | _ => [] end).
Proof.
  intros HI Hn H. destruct o as [b|b|t| |]; cbn in *; try discriminate.
  - destruct (add_samples s b) as [s1|] eqn:E; [|discriminate]. injection H as <- <-.
    pose proof (content_grows s b HI) as Hc.
    unfold add_samples in E. destruct (init s); cbn [negb] in E; [|discriminate].
    destruct (strict s).
    + destruct (thr s); [|discriminate]. injection E as <-. exact Hc.
    + destruct (map fst (sort_samples b)) eqn:Eb; [discriminate|]. rewrite <- Eb in *.
      match type of E with (if ?c then _ else _) = _ => destruct c end; [discriminate|].
      injection E as <-. exact Hc.
  - injection H as <- <-. rewrite app_nil_r. apply Permutation_refl.
  - unfold remove_samples in H. destruct (live s); [|discriminate].
    destruct (repl s); [injection H as <- <-|destruct (thr s); [injection H as <- <-|discriminate]];
      rewrite app_nil_r; apply Permutation_refl.
  - destruct (finalise s) as [s1|] eqn:E; [|discriminate]. injection H as <- <-.
    unfold finalise in E. destruct (live s); [|discriminate]. injection E as <-.
    rewrite app_nil_r. apply Permutation_refl.
Qed.

Lemma steps_content ops : forall s s', Inv s -> forallb (fun o => negb (is_init o)) ops = true ->
  steps s ops = Some s' ->
  Permutation (combine (rows s') (lq s')) (combine (rows s) (lq s) ++ added ops).
Proof.
  induction ops as [|o r IH]; intros s s' HI Hn H; cbn [steps added] in *.
  - injection H as <-. rewrite app_nil_r. apply Permutation_refl.
  - cbn in Hn. apply andb_prop in Hn. destruct Hn as [Ho Hr]. apply negb_true_iff in Ho.
    destruct (step s o) as [[s1 n]|] eqn:E; [|discriminate].
    pose proof (step_inv s o s1 n HI Ho E) as HI1.
    pose proof (step_content s o s1 n HI Ho E) as Hc.
    eapply Permutation_trans; [apply (IH s1 s' HI1 Hr H)|].
    destruct o as [b|b|t| |]; cbn in Ho; try discriminate Ho;
      try (rewrite app_nil_r in Hc; now apply Permutation_app_tail).
    rewrite app_assoc. now apply Permutation_app_tail.
Qed.

Lemma combine_fst_snd' {A B} (l : list (A * B)) : combine (map fst l) (map snd l) = l.
Proof. induction l as [|[a c] r IH]; cbn; [reflexivity|now rewrite IH]. Qed.
