(* C05 - what the information recurrence of _NSIntegralState.increment computes, in closed form:
   with k0 the first point of finite likelihood and W_i = L_i (X_{i-1} - X_i) the rectangle weights,
       Z (H + ln Z) = W_k0 ln W_k0 + sum_{i > k0, L_i > 0} W_i ln L_i ,
   i.e.  H = (W_k0 ln W_k0 + sum_{i>k0} W_i ln L_i) / Z - ln Z.
   (The exact information has ln L_k0 where the recurrence has ln W_k0: nothing is appended to `info`
   while logZ is still -inf.) *)
From Coq Require Import Reals List Bool Lra Lia.
From NessaiV Require Import Lib.Enclose Model.C02_Quadrature Proofs.C02_Quadrature_proofs Model.C05_Results.
Import ListNotations.
Local Open Scope R_scope.

Section Closed.
Variable md : mode.

Definition stepW (s : hstate) (ln_ : xlog * positive) : R :=
  exp (hlogw s) * xexp (fst ln_) * (1 - exp (logt md (snd ln_))).

(* the accumulated numerator *)
Definition g_incr (s : hstate) (g : R) (ln_ : xlog * positive) : R :=
  match fst ln_ with
  | Some l => if hseen s then g + stepW s ln_ * l else stepW s ln_ * ln (stepW s ln_)
  | None => g
  end.
Fixpoint hg_run (s : hstate) (g : R) (l : list (xlog * positive)) : hstate * R :=
  match l with
  | [] => (s, g)
  | x :: r => hg_run (h_incr md s x) (g_incr s g x) r
  end.

Definition ginv (s : hstate) (g : R) : Prop :=
  (hseen s = true -> 0 < hZ s /\ hZ s * (hH s + ln (hZ s)) = g) /\
  (hseen s = false -> hZ s = 0 /\ hH s = 0).

Lemma stepW_pos s l n : 0 < stepW s (Some l, n).
Proof.
  unfold stepW. cbn [fst snd xexp].
  assert (H : exp (logt md n) < exp 0) by (apply exp_increasing; apply logt_neg).
  rewrite exp_0 in H.
  apply Rmult_lt_0_compat; [apply Rmult_lt_0_compat; apply exp_pos|].
  lra.
Qed.

Lemma alg_step (Z W l H : R) : Z + W <> 0 ->
  (Z + W) * (W / (Z + W) * l + Z / (Z + W) * (H + ln Z) - ln (Z + W) + ln (Z + W)) = Z * (H + ln Z) + W * l.
Proof. intros Hz. field. exact Hz. Qed.

Lemma ginv_step s g x : ginv s g -> ginv (h_incr md s x) (g_incr s g x).
Proof.
  intros [Hs Hn]. destruct x as [[l|] n]; unfold ginv, h_incr, g_incr; cbn [fst snd hZ hseen hH hlogw].
  - pose proof (stepW_pos s l n) as HW. unfold stepW in *. cbn [fst snd] in *.
    destruct (hseen s) eqn:E; cbn [orb]; cbv beta iota.
    + destruct (Hs eq_refl) as [Hz Hg]. split; [intros _|discriminate].
      split; [lra|]. rewrite <- Hg. apply alg_step. lra.
    + destruct (Hn eq_refl) as [Hz Hh]. split; [intros _|discriminate].
      rewrite Hz, Hh. rewrite Rplus_0_l. split; [exact HW|ring].
  - cbn [xexp]. rewrite Rmult_0_r, Rmult_0_l, Rplus_0_r, orb_false_r. split; assumption.
Qed.

Lemma ginv_run l : forall s g, ginv s g -> ginv (fst (hg_run s g l)) (snd (hg_run s g l)).
Proof.
  induction l as [|x r IH]; intros s g H; cbn [hg_run fst snd]; [exact H|].
  apply IH. now apply ginv_step.
Qed.

Lemma hg_run_state l : forall s g, fst (hg_run s g l) = fold_left (h_incr md) l s.
Proof. induction l as [|x r IH]; intros s g; cbn [hg_run fold_left]; [reflexivity|apply IH]. Qed.

Theorem info_closed_form (ls : list xlog) (ns : list positive) :
  let s := h_run md ls ns in
  let g := snd (hg_run h_init 0 (combine ls ns)) in
  hseen s = true -> 0 < hZ s /\ hH s = g / hZ s - ln (hZ s).
Proof.
  intros s g Hseen.
  assert (H0 : ginv h_init 0) by (split; [discriminate|intros _; split; reflexivity]).
  pose proof (ginv_run (combine ls ns) h_init 0 H0) as [Hs _].
  rewrite hg_run_state in Hs. fold (h_run md ls ns) in Hs. fold s in Hs. fold g in Hs.
  destruct (Hs Hseen) as [Hz Hg]. split; [exact Hz|].
  rewrite <- Hg. field. lra.
Qed.
End Closed.
