(* C09 - radial samplers stay inside the latent contour; the rejection-sampling identity. *)
From Coq Require Import List Reals QArith Qfield Lra Psatz.
Import ListNotations.
From NessaiV Require Import Model.C09_Radial.

Local Open Scope R_scope.
Lemma sumsq_nonneg : forall v, 0 <= sumsq v.
Proof. induction v as [|x v IH]; simpl; [lra|]. pose proof (Rle_0_sqr x) as H. unfold Rsqr in H. lra. Qed.
Lemma sumsq_scale : forall c v, sumsq (scale c v) = c * c * sumsq v.
Proof. induction v as [|x v IH]; simpl; [ring|]. fold (scale c v). rewrite IH. ring. Qed.
Lemma norm_scale : forall c v, 0 <= c -> norm (scale c v) = c * norm v.
Proof.
  intros c v Hc. unfold norm. rewrite sumsq_scale. rewrite sqrt_mult; [|nra|apply sumsq_nonneg].
  rewrite sqrt_square by exact Hc. reflexivity.
Qed.
Lemma norm_nonneg : forall v, 0 <= norm v.
Proof. intros. unfold norm. apply sqrt_pos. Qed.

Lemma radial_norm : forall p g, 0 <= p -> norm g <> 0 -> norm (radial_point p g) = p.
Proof.
  intros p g Hp Hg. unfold radial_point. pose proof (norm_nonneg g) as Hn.
  rewrite norm_scale.
  - field. exact Hg.
  - apply Rmult_le_pos; [exact Hp|]. apply Rlt_le, Rinv_0_lt_compat. lra.
Qed.

(* draw_surface_nsphere: exactly on the sphere, direction kept *)
Lemma surface_radius : forall (r : R) (g : list R),
  0 <= r -> norm g <> 0 ->
  norm (radial_point r g) = r /\ exists c : R, 0 <= c /\ radial_point r g = scale c g.
Proof.
  intros r g Hr Hg. split; [exact (radial_norm r g Hr Hg)|].
  exists (r / norm g). split; [|reflexivity].
  unfold Rdiv. apply Rmult_le_pos; [exact Hr|].
  apply Rlt_le, Rinv_0_lt_compat.
  destruct (norm_nonneg g) as [H|H]; [exact H|congruence].
Qed.

(* any radius function that is monotone in the uniform draw and hits the contour at the top of its range *)
Lemma radial_bounded : forall (h : R -> R) (top bound u : R) (g : list R),
  (forall x y, x <= y -> h x <= h y) -> h top = bound -> u <= top -> 0 <= h u -> norm g <> 0 ->
  norm (radial_point (h u) g) <= bound.
Proof. intros h top bound u g Hm Ht Hu H0 Hg. rewrite radial_norm by assumption. rewrite <- Ht. apply Hm. exact Hu. Qed.

Lemma tg_radius_bounded : forall (ginv : R -> R) (umax u rf : R) (g : list R),
  0 <= rf -> 0 <= umax -> 0 <= u <= 1 ->
  (forall x y, x <= y -> ginv x <= ginv y) ->            (* gammaincinv(a, .) is monotone *)
  ginv umax = rf * rf / 2 ->                             (* gammaincinv(a, gammainc(a, s)) = s at s = (r fuzz)^2 / 2 *)
  norm g <> 0 ->
  norm (radial_point (tg_radius ginv umax u) g) <= rf.
Proof.
  intros ginv umax u rf g Hrf Hum Hu Hm Hinv Hg.
  rewrite radial_norm; [|apply sqrt_pos|exact Hg]. unfold tg_radius.
  assert (Hle : ginv (umax * u) <= rf * rf / 2). { rewrite <- Hinv. apply Hm. nra. }
  apply Rle_trans with (sqrt (rf * rf)); [apply sqrt_le_1_alt; lra | rewrite sqrt_square by exact Hrf; lra].
Qed.

Lemma tg2_radius_bounded : forall (ppf : R -> R) (sigma umax u rf : R) (g : list R),
  0 < sigma -> u <= umax -> 0 <= ppf u ->
  (forall x y, x <= y -> ppf x <= ppf y) ->              (* chi.ppf monotone *)
  ppf umax = rf / sigma ->                               (* chi.ppf(chi.cdf(s)) = s at s = r fuzz / sigma *)
  norm g <> 0 ->
  norm (radial_point (tg2_radius ppf sigma u) g) <= rf.
Proof.
  intros ppf sigma umax u rf g Hs Hu H0 Hm Hinv Hg. unfold tg2_radius.
  rewrite radial_norm; [|nra|exact Hg].
  assert (Hle : ppf u <= rf / sigma). { rewrite <- Hinv. apply Hm. exact Hu. }
  apply (Rmult_le_compat_l sigma) in Hle; [|lra]. replace (sigma * (rf / sigma)) with rf in Hle by (field; lra). exact Hle.
Qed.

Lemma ball_radius_bounded : forall (root : R -> R) (r fuzz u : R) (g : list R),
  0 <= r -> 0 <= fuzz -> 0 <= root u <= 1 ->             (* R ** (1 / dims) of R in [0, 1] stays in [0, 1] *)
  norm g <> 0 ->
  norm (radial_point (ball_radius root r fuzz u) g) <= fuzz * r.
Proof.
  intros root r fuzz u g Hr Hf Hu Hg. unfold ball_radius.
  assert (Hfr : 0 <= fuzz * r) by (apply Rmult_le_pos; lra).
  rewrite radial_norm; [|apply Rmult_le_pos; lra|exact Hg].
  rewrite <- (Rmult_1_r (fuzz * r)) at 2. apply Rmult_le_compat_l; lra.
Qed.

(* every population of a sequence with changing radii stays inside ITS OWN contour *)
Lemma radius_each_population : forall (ginv : R -> R) (umax u fuzz : R) (rs : list R) (k : nat) (g : list R),
  0 <= sampler_radius rs k -> 0 <= fuzz -> 0 <= umax -> 0 <= u <= 1 ->
  (forall x y, x <= y -> ginv x <= ginv y) ->
  ginv umax = (sampler_radius rs k * fuzz) * (sampler_radius rs k * fuzz) / 2 ->
  norm g <> 0 ->
  norm (radial_point (tg_radius ginv umax u) g) <= sampler_radius rs k * fuzz.
Proof.
  intros ginv umax u fuzz rs k g Hr Hf Hum Hu Hm Hinv Hg.
  apply (tg_radius_bounded ginv umax u (sampler_radius rs k * fuzz) g); auto. apply Rmult_le_pos; assumption.
Qed.
(* a sampler kept from the first population can hand out a latent point outside the current contour *)
Lemma stale_sampler_refuted : exists (rs : list R) (k : nat) (z : list R),
  norm z <= stale_sampler_radius rs k * 1 /\ ~ (norm z <= sampler_radius rs k * 1).
Proof.
  exists [2; 1], 1%nat, [2]. unfold stale_sampler_radius, sampler_radius, norm, sumsq. simpl.
  replace (2 * 2 + 0) with (2 * 2) by ring. rewrite sqrt_square by lra. split; lra.
Qed.

(* ---- rejection identity ----------------------------------------------------------------------------------------- *)
Local Open Scope Q_scope.
Lemma acc_mass_eq : forall wmax x, ~ fst x == 0 -> ~ wmax == 0 -> acc_mass wmax x == snd x / wmax.
Proof. intros wmax [q p] Hq Hw. unfold acc_mass, w_of. simpl in *. field. split; assumption. Qed.

Lemma qsum_acc : forall wmax l, ~ wmax == 0 -> Forall (fun x => ~ fst x == 0) l ->
  qsum (acc_mass wmax) l == qsum snd l / wmax.
Proof.
  intros wmax l Hw H. induction H as [|x l Hx Hl IH]; simpl.
  - field. exact Hw.
  - rewrite IH, (acc_mass_eq wmax x Hx Hw). field. exact Hw.
Qed.

Lemma rejection_identity : forall wmax l x,
  ~ wmax == 0 -> Forall (fun y => ~ fst y == 0) l -> In x l -> ~ qsum snd l == 0 ->
  acc_mass wmax x / qsum (acc_mass wmax) l == snd x / qsum snd l.
Proof.
  intros wmax l x Hw Hl Hx Hs.
  rewrite (qsum_acc wmax l Hw Hl).
  rewrite (acc_mass_eq wmax x); [|exact (proj1 (Forall_forall _ _) Hl x Hx)|exact Hw].
  field. split; assumption.
Qed.
