(* Proofs about Lib/FSModel.v: the abstract crash states over-approximate every concrete crash
   execution (abs_sound) and the generic checker is sound (checker_sound). *)
From Coq Require Import List Arith Bool Lia.
Import ListNotations.
From NessaiV Require Import Lib.FSModel.

Lemma role_eqb_eq : forall a b, role_eqb a b = true <-> a = b.
Proof.
  intros [| |n|n|n] [| |m|m|m]; simpl; split; intro H; try reflexivity; try discriminate;
    try (apply Nat.eqb_eq in H; now subst); inversion H; apply Nat.eqb_refl.
Qed.

Lemma fname_eqb_eq : forall a b, fname_eqb a b = true <-> a = b.
Proof.
  induction a as [r|f IH|f IH]; intros [s|g|g]; simpl; split; intro H; try discriminate.
  - apply role_eqb_eq in H. now subst.
  - inversion H. now apply role_eqb_eq.
  - apply IH in H. now subst.
  - inversion H; subst. now apply (IH g).
  - apply IH in H. now subst.
  - inversion H; subst. now apply (IH g).
Qed.

Lemma fname_eqb_refl : forall a, fname_eqb a a = true.
Proof. intro a. now apply fname_eqb_eq. Qed.

Lemma fname_eqb_neq : forall a b, fname_eqb a b = false <-> a <> b.
Proof.
  intros a b. split.
  - intros H E. apply fname_eqb_eq in E. congruence.
  - intro H. destruct (fname_eqb a b) eqn:E; [apply fname_eqb_eq in E; contradiction|reflexivity].
Qed.

Lemma fname_eqb_sym : forall a b, fname_eqb a b = fname_eqb b a.
Proof.
  intros a b. destruct (fname_eqb a b) eqn:E.
  - apply fname_eqb_eq in E. subst. symmetry. apply fname_eqb_refl.
  - symmetry. apply fname_eqb_neq. apply fname_eqb_neq in E. congruence.
Qed.

Lemma upd_same : forall X (m : fname -> X) f x, upd m f x f = x.
Proof. intros. unfold upd. now rewrite fname_eqb_refl. Qed.

Lemma upd_other : forall X (m : fname -> X) f g x, g <> f -> upd m f x g = m g.
Proof. intros X m f g x H. unfold upd. apply fname_eqb_neq in H. now rewrite H. Qed.

Section Sound.
Context {P : Type}.
Variable B : Type.
Variable bytes : P -> list B.
Variable decode : list B -> option P.
Hypothesis decode_bytes : forall p, decode (bytes p) = Some p.
Hypothesis decode_prefix : forall p j, j < length (bytes p) -> decode (firstn j (bytes p)) = None.
Hypothesis decode_nil : decode [] = None.

Definition hnd_inv (c : cstate B) (a : astate P) : Prop :=
  match ahnd a with
  | Some (h, None) => cfs c h = Some []
  | Some (h, Some p) => cfs c h = Some (bytes p)
  | None => True
  end.

Definition sim (c : cstate B) (a : astate P) : Prop :=
  (forall f, classify decode (cfs c) f = afs a f) /\
  chnd c = option_map fst (ahnd a) /\
  hnd_inv c a.

Lemma sim_exists : forall c a x, sim c a -> (cfs c x = None <-> aexists (afs a) x = false).
Proof.
  intros c a x [Hc _]. specialize (Hc x). unfold classify, aexists in *.
  destruct (cfs c x) as [bs|].
  - destruct (decode bs); rewrite <- Hc; split; intro; discriminate.
  - rewrite <- Hc. split; reflexivity.
Qed.

Lemma sim_move : forall c a x y,
  sim c a -> fname_eqb x y = false -> hnd_is a y = false ->
  sim (cmove c x y) (amove a x y).
Proof.
  intros c a x y Hs Hxy Hy.
  pose proof (sim_exists c a x Hs) as Hex.
  destruct Hs as (Hc & Hh & Hi).
  unfold cmove, amove.
  destruct (cfs c x) as [bs|] eqn:Ecx.
  - assert (Ea : aexists (afs a) x = true).
    { destruct (aexists (afs a) x) eqn:E; [reflexivity|]. destruct Hex as [_ Hex]. discriminate (Hex eq_refl). }
    rewrite Ea. split; [|split]; simpl.
    + intro f. unfold classify, upd.
      destruct (fname_eqb f x) eqn:Efx; [reflexivity|].
      destruct (fname_eqb f y) eqn:Efy.
      * specialize (Hc x). unfold classify in Hc. rewrite Ecx in Hc. exact Hc.
      * apply (Hc f).
    + rewrite Hh. destruct (ahnd a) as [[h w]|]; simpl; [|reflexivity].
      destruct (fname_eqb h x); reflexivity.
    + unfold hnd_inv in *. simpl. destruct (ahnd a) as [[h w]|] eqn:Eh; [|exact I].
      destruct (fname_eqb h x) eqn:Ehx.
      * apply fname_eqb_eq in Ehx. subst h.
        assert (Hyx : fname_eqb y x = false) by (rewrite fname_eqb_sym; exact Hxy).
        destruct w as [p|]; unfold upd; rewrite Hyx, fname_eqb_refl; rewrite <- Hi; exact (eq_sym Ecx).
      * unfold hnd_is in Hy. rewrite Eh in Hy.
        destruct w as [p|]; unfold upd; rewrite Ehx, Hy; exact Hi.
  - assert (Ea : aexists (afs a) x = false) by (apply Hex; reflexivity).
    rewrite Ea. split; [|split]; assumption.
Qed.

Lemma sim_step : forall c a o,
  sim c a -> alegal a o = true -> sim (cstep bytes c o) (astep a o).
Proof.
  intros c a o Hs Hl. destruct o as [x y|x y|f|p|]; simpl in *.
  - apply andb_prop in Hl. destruct Hl as [H1 H2].
    apply sim_move; [exact Hs| |]; [now destruct (fname_eqb x y)|now destruct (hnd_is a y)].
  - apply andb_prop in Hl. destruct Hl as [Hl _]. apply andb_prop in Hl. destruct Hl as [H1 H2].
    apply sim_move; [exact Hs| |]; [now destruct (fname_eqb x y)|now destruct (hnd_is a y)].
  - destruct Hs as (Hc & Hh & Hi). split; [|split]; simpl.
    + intro g. unfold classify, upd. destruct (fname_eqb g f); [now rewrite decode_nil|apply (Hc g)].
    + reflexivity.
    + unfold hnd_inv. simpl. apply upd_same.
  - destruct Hs as (Hc & Hh & Hi). unfold hnd_inv in Hi.
    destruct (ahnd a) as [[h [q|]]|] eqn:Eh; try discriminate.
    simpl in Hh. rewrite Hh, Hi. simpl. split; [|split]; simpl.
    + intro g. unfold classify, upd. destruct (fname_eqb g h); [now rewrite decode_bytes|apply (Hc g)].
    + reflexivity.
    + unfold hnd_inv. simpl. apply upd_same.
  - destruct Hs as (Hc & Hh & Hi). split; [|split]; simpl; [exact Hc|reflexivity|exact I].
Qed.

Lemma sim_view : forall c a j,
  sim c a -> exists v, In v (aviews a) /\ forall f, classify decode (cview c j) f = v f.
Proof.
  intros c a j (Hc & Hh & Hi). unfold cview, aviews, hnd_inv in *.
  destruct (ahnd a) as [[h [p|]]|] eqn:Eh; simpl in Hh; rewrite Hh.
  - rewrite Hi. simpl. destruct (Nat.ltb j (length (bytes p))) eqn:Ej.
    + apply Nat.ltb_lt in Ej. exists (upd (afs a) h Bad). split; [now left|].
      intro f. unfold classify, upd. destruct (fname_eqb f h); [now rewrite decode_prefix|apply (Hc f)].
    + apply Nat.ltb_ge in Ej. exists (afs a). split; [right; now left|].
      intro f. unfold classify, upd. destruct (fname_eqb f h) eqn:Efh.
      * rewrite firstn_all2 by exact Ej. apply fname_eqb_eq in Efh. subst f.
        rewrite <- (Hc h). unfold classify. now rewrite Hi.
      * apply (Hc f).
  - rewrite Hi. simpl. exists (afs a). split; [now left|].
    intro f. unfold classify, upd. destruct (fname_eqb f h) eqn:Efh.
    + rewrite firstn_nil. apply fname_eqb_eq in Efh. subst f.
      rewrite <- (Hc h). unfold classify. now rewrite Hi.
    + apply (Hc f).
  - exists (afs a). split; [now left|exact Hc].
Qed.

(* the abstract crash states over-approximate every concrete crash execution *)
Theorem abs_sound : forall (ops : list (fsop P)) (c0 : cstate B) (a0 : astate P),
  sim c0 a0 -> legal a0 ops = true ->
  forall n j, exists v, In v (crash_states a0 ops)
                     /\ forall f, classify decode (crash_exec bytes ops c0 n j) f = v f.
Proof.
  induction ops as [|o r IH]; intros c0 a0 Hs Hl n j.
  - unfold crash_exec. rewrite firstn_nil. simpl.
    destruct (sim_view c0 a0 j Hs) as (v & Hin & Hv). exists v. split; [|exact Hv].
    rewrite app_nil_r. exact Hin.
  - destruct n as [|n].
    + unfold crash_exec. simpl.
      destruct (sim_view c0 a0 j Hs) as (v & Hin & Hv). exists v. split; [|exact Hv].
      apply in_or_app. now left.
    + simpl in Hl. apply andb_prop in Hl. destruct Hl as [Hl1 Hl2].
      destruct (IH (cstep bytes c0 o) (astep a0 o) (sim_step c0 a0 o Hs Hl1) Hl2 n j) as (v & Hin & Hv).
      exists v. split; [|exact Hv].
      simpl. apply in_or_app. now right.
Qed.

(* after the whole list the abstract state still describes the concrete one *)
Lemma sim_exec : forall (ops : list (fsop P)) c0 a0,
  sim c0 a0 -> legal a0 ops = true -> sim (cexec bytes ops c0) (aexec ops a0).
Proof.
  induction ops as [|o r IH]; intros c0 a0 Hs Hl; [exact Hs|].
  simpl in Hl. apply andb_prop in Hl. destruct Hl as [Hl1 Hl2].
  simpl. apply IH; [apply sim_step; assumption|exact Hl2].
Qed.

Lemma sim_closed : forall (c0 : cstate B) (a0 : astate P),
  ahnd a0 = None -> chnd c0 = None ->
  (forall f, classify decode (cfs c0) f = afs a0 f) -> sim c0 a0.
Proof.
  intros c0 a0 Ha Hc Hv. split; [exact Hv|]. split.
  - rewrite Ha. exact Hc.
  - unfold hnd_inv. now rewrite Ha.
Qed.

(* generic checker soundness: R may be any reader that only looks at the classification *)
Theorem checker_sound : forall (O : Type) (R : view P -> list O) (acc : O -> bool),
  (forall v v', (forall f, v f = v' f) -> R v = R v') ->
  forall (ops : list (fsop P)) (c0 : cstate B) (a0 : astate P),
  sim c0 a0 -> crash_safe R acc a0 ops = true ->
  forall n j o, In o (R (classify decode (crash_exec bytes ops c0 n j))) -> acc o = true.
Proof.
  intros O R acc Rext ops c0 a0 Hs Hc n j o Ho.
  unfold crash_safe in Hc. apply andb_prop in Hc. destruct Hc as [Hl Hall].
  destruct (abs_sound ops c0 a0 Hs Hl n j) as (v & Hin & Hv).
  rewrite (Rext _ _ Hv) in Ho.
  rewrite forallb_forall in Hall. specialize (Hall v Hin).
  rewrite forallb_forall in Hall. exact (Hall o Ho).
Qed.
End Sound.
