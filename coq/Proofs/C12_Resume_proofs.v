(* Proofs for Model/C12_Resume.v *)
From Coq Require Import List String Bool ZArith Lia FinFun.
Import ListNotations.
From NessaiV Require Import Model.C12_Resume.

Section Roundtrip.
Variable V : Type.

(* what resume recomputes for a derived field equals what the object held before pickling
   (the densities are a function of samples and flows: C03) *)
Definition consistent (sk : skel) (cls : field -> fclass) (ov : field -> option V)
           (drv : obj V -> field -> option V) (o : obj V) : Prop :=
  forall f, In f (sk_fields sk) -> cls f = Derived -> fmem f (sk_rederive sk) = true ->
            drv (getstate V sk ov o) f = o f.

Lemma kept_roundtrip : forall sk ov env drv (o : obj V) f,
  kept sk f = true -> roundtrip V sk ov env drv o f = o f.
Proof.
  intros sk ov env drv o f H. unfold kept in H.
  apply andb_prop in H. destruct H as [H Hrd]. apply andb_prop in H. destruct H as [H Hra].
  apply andb_prop in H. destruct H as [Hov Hex].
  unfold roundtrip, resume, setstate, getstate.
  apply negb_true_iff in Hra. apply negb_true_iff in Hrd. apply negb_true_iff in Hov.
  rewrite Hrd, Hra, Hov.
  apply orb_prop in Hex. destruct Hex as [Hex|Hc].
  - apply negb_true_iff in Hex. now rewrite Hex.
  - rewrite Hc. simpl. now rewrite andb_false_r.
Qed.

Theorem roundtrip_view : forall sk cls,
  fields_ok sk cls = true ->
  forall ov env drv (o : obj V), consistent sk cls ov drv o ->
  forall f, In f (sk_fields sk) ->
    result_view V cls (roundtrip V sk ov env drv o) f = result_view V cls o f.
Proof.
  intros sk cls Hok ov env drv o Hcons f Hin.
  unfold fields_ok in Hok. rewrite forallb_forall in Hok. specialize (Hok f Hin).
  unfold field_ok in Hok. unfold result_view.
  destruct (cls f) eqn:Ec; [| |reflexivity].
  - now apply kept_roundtrip.
  - apply orb_prop in Hok. destruct Hok as [Hk|Hd]; [now apply kept_roundtrip|].
    unfold roundtrip, resume, setstate. rewrite Hd.
    exact (Hcons f Hin Ec Hd).
Qed.

(* an invariant that only looks at the result-bearing fields survives any number of
   run / checkpoint / kill / resume cycles, provided running preserves it *)
Section Chain.
Variables (sk : skel) (cls : field -> fclass).
Variable ov : obj V -> field -> option V.          (* what __getstate__ computes for its own keys *)
Variable env : field -> option V.
Variable drv : obj V -> field -> option V.
Variable run : obj V -> nat -> obj V.              (* n iterations of the sampler (oracle) *)
Variable Inv : obj V -> Prop.
Hypothesis Inv_view : forall o o',
  (forall f, In f (sk_fields sk) -> result_view V cls o f = result_view V cls o' f) -> Inv o' -> Inv o.
Hypothesis run_preserves : forall o n, Inv o -> Inv (run o n).
Hypothesis run_consistent : forall o n, consistent sk cls (ov (run o n)) drv (run o n).

Definition cycle (o : obj V) (n : nat) : obj V :=
  roundtrip V sk (ov (run o n)) env drv (run o n).
Definition cycles (o : obj V) (ns : list nat) : obj V := fold_left cycle ns o.

Theorem resumed_valid : fields_ok sk cls = true ->
  forall ns o, Inv o -> Inv (cycles o ns).
Proof.
  intros Hok ns. induction ns as [|n r IH]; intros o Ho; [exact Ho|].
  simpl. apply IH. unfold cycle.
  apply (Inv_view _ (run o n)).
  - intros f Hf. apply (roundtrip_view sk cls Hok); [apply run_consistent|exact Hf].
  - now apply run_preserves.
Qed.
End Chain.
End Roundtrip.

(* ---- counters ---------------------------------------------------------------------------------- *)
Lemma resume_count_ok : forall effs, counter_ok effs = true ->
  forall m0 saved, resume_count effs m0 saved = (m0 + saved)%Z.
Proof.
  intros effs H. unfold counter_ok in H. apply andb_prop in H. destruct H as [Hn Hf].
  apply Nat.eqb_eq in Hn.
  assert (G : forall l, forallb (fun e => match e with CSetSaved => false | _ => true end) l = true ->
              forall c saved,
              fold_left (fun c e => match e with CAddSaved => (c + saved)%Z | CSetSaved => saved | CSkip => c end) l c
              = (c + Z.of_nat (List.length (filter (fun e => match e with CAddSaved => true | _ => false end) l)) * saved)%Z).
  { induction l as [|e l IH]; intros Hl c saved; simpl.
    - lia.
    - simpl in Hl. apply andb_prop in Hl. destruct Hl as [He Hl].
      destruct e; try discriminate.
      + rewrite (IH Hl (c + saved)%Z saved). simpl List.length. lia.
      + rewrite (IH Hl c saved). reflexivity. }
  intros m0 saved. unfold resume_count. rewrite (G effs Hf m0 saved), Hn. lia.
Qed.

(* cumulative: neither reset nor doubled, for every number of kill / resume cycles *)
Theorem counters : forall effs, counter_ok effs = true ->
  forall segs, chain effs segs = total segs.
Proof.
  intros effs H segs. unfold chain, total.
  assert (G : forall l a, fold_left (segment effs) l a = fold_left (fun a s => (a + fst s + snd s)%Z) l a).
  { induction l as [|s l IH]; intro a; simpl; [reflexivity|].
    rewrite IH. f_equal. unfold segment. rewrite (resume_count_ok effs H). lia. }
  apply G.
Qed.

(* assigning instead of adding loses what the new process's model object had already counted *)
Lemma counters_assigned_refuted : exists segs, chain [CSetSaved] segs <> total segs.
Proof. exists [(3, 10); (3, 10)]%Z. vm_compute. discriminate. Qed.

(* adding is only right if the resuming process starts from a fresh model object: re-using the
   object that already carries the count doubles it *)
Lemma counters_reused_model_refuted : exists ds, chain_reused counter_today ds <> fold_left Z.add ds 0%Z.
Proof. exists [10; 10]%Z. vm_compute. discriminate. Qed.

Lemma counter_today_ok : counter_ok counter_today = true.
Proof. reflexivity. Qed.

Lemma sk_today_ok :
  fields_ok sk_base_sampler_today cls_sampler = true /\ fields_ok sk_ordered_samples_today cls_samples = true.
Proof. split; vm_compute; reflexivity. Qed.

(* ---- the first checkpoint after a resume carries the restored pool flag ------------------------------ *)
Lemma prologue_after_check : forall effs cks s orig,
  p_resumed s = false -> p_pop s = orig -> Forall (fun n => n = orig) (p_written s) ->
  Forall (fun n => n = orig) (p_written (prologue effs cks s)) /\ p_pop (prologue effs cks s) = orig.
Proof.
  induction effs as [|e r IH]; intros cks s orig Hr Hp Hw; simpl; [split; assumption|].
  destruct e.
  - apply IH; simpl; [reflexivity|now rewrite Hr|exact Hw].
  - destruct cks as [|[|] cks']; try (apply IH; assumption).
    apply IH; simpl; [exact Hr|exact Hp|constructor; [exact Hp|exact Hw]].
  - apply IH; assumption.
Qed.

Theorem prologue_sound : forall effs, prologue_ok effs = true ->
  forall orig cks,
    Forall (fun note => note = orig) (p_written (prologue effs cks (after_resume_pool orig))).
Proof.
  intros effs H orig cks.
  assert (G : forall effs cks s, prologue_ok effs = true -> p_resumed s = true -> p_note s = orig ->
              p_pop s = false -> p_written s = [] ->
              Forall (fun n => n = orig) (p_written (prologue effs cks s))).
  { induction effs0 as [|e r IH]; intros cks0 s Hok Hr Hn Hp Hw; simpl.
    - rewrite Hw. constructor.
    - destruct e; simpl in Hok; try discriminate.
      + apply prologue_after_check; simpl; [reflexivity| |rewrite Hw; constructor].
        rewrite Hr, Hn, Hp. now destruct orig.
      + now apply IH. }
  apply G; [exact H|reflexivity..].
Qed.

(* update_state before check_resume: the entry checkpoint records an empty pool although it is populated *)
Lemma prologue_swapped_refuted :
  exists cks, p_written (prologue [PSkip; PUpdateState; PCheckResume] cks (after_resume_pool true)) = [false].
Proof. exists [true]. reflexivity. Qed.

Lemma prologue_today_ok : prologue_ok prologue_today = true.
Proof. reflexivity. Qed.

(* ---- evaluating in batches = evaluating every row, when the plan covers the rows ------------------------ *)
Lemma map_nth_seq : forall A B (d : A) (f : A -> B) (l : list A),
  map f l = map (fun i => f (nth i l d)) (seq 0 (List.length l)).
Proof.
  intros A B d f l. induction l as [|x r IH]; simpl; [reflexivity|].
  f_equal. rewrite IH. rewrite <- seq_shift, map_map. reflexivity.
Qed.

Lemma batch_eval_covered : forall A B (d : A) (f : A -> B) g plan (l : list A),
  (forall i, i < List.length l -> covered plan i = true) ->
  batch_eval d f g plan l = map f l.
Proof.
  intros A B d f g plan l H. unfold batch_eval. rewrite (map_nth_seq A B d f l).
  apply map_ext_in. intros i Hi. apply in_seq in Hi. rewrite H; [reflexivity|lia].
Qed.

Lemma covered_slices : forall b m i, 0 < b -> i / b < m ->
  covered (map (fun j => (j * b, b)) (seq 0 m)) i = true.
Proof.
  intros b m i Hb Hm. unfold covered. apply existsb_exists. exists ((i / b) * b, b). split.
  - apply in_map_iff. exists (i / b). split; [reflexivity|]. apply in_seq. lia.
  - simpl. apply andb_true_intro. split.
    + apply Nat.leb_le. rewrite Nat.mul_comm. apply Nat.mul_div_le. lia.
    + apply Nat.ltb_lt. pose proof (Nat.div_mod i b ltac:(lia)) as E.
      pose proof (Nat.mod_upper_bound i b ltac:(lia)). lia.
Qed.

Theorem bplan_sound : forall bp, bplan_ok bp = true ->
  forall A B (d : A) (f : A -> B) (garbage : nat -> B) (l : list A),
    batch_eval d f garbage (plan_of bp (List.length l)) l = map f l.
Proof.
  intros bp Hok A B d f g l. apply batch_eval_covered. intros i Hi.
  destruct bp as [|b|b]; simpl in Hok; try discriminate.
  - unfold covered, plan_of. apply existsb_exists. exists (0, List.length l). split; [left; reflexivity|].
    apply andb_true_intro. split; [apply Nat.leb_le; simpl; lia|apply Nat.ltb_lt; simpl; lia].
  - apply Nat.ltb_lt in Hok. simpl. apply covered_slices; [exact Hok|].
    apply Nat.div_lt_upper_bound; [lia|].
    pose proof (Nat.div_mod (List.length l + b - 1) b ltac:(lia)) as E.
    pose proof (Nat.mod_upper_bound (List.length l + b - 1) b ltac:(lia)). nia.
Qed.

(* max(n // b, 1) batches: above b rows the tail after the last full batch is never written *)
Lemma floor_batches_refuted :
  exists (l : list nat), batch_eval 0 (fun x => x + 100) (fun _ => 0) (plan_of (FloorBatches 2) (List.length l)) l
                         <> map (fun x => x + 100) l.
Proof. exists [1; 2; 3; 4; 5]. vm_compute. discriminate. Qed.

(* ---- the legs of a resumed run never replay each other's random stream ---------------------------------- *)
Lemma seeding_ok_no_reseed : forall effs, seeding_ok effs = true -> existsb is_reseed effs = false.
Proof.
  induction effs as [|e r IH]; simpl; intro H; [reflexivity|].
  apply andb_prop in H. destruct H as [H1 H2]. destruct e; simpl in *; [now apply IH|discriminate].
Qed.

Theorem seeding_sound : forall effs, seeding_ok effs = true ->
  forall seed (legs : list (nat * nat)), NoDup (map fst legs) -> NoDup (run_draws effs seed legs).
Proof.
  intros effs H seed legs. unfold run_draws, leg_draws. rewrite (seeding_ok_no_reseed effs H).
  induction legs as [|[e n] r IH]; simpl; intro Hn; [constructor|].
  inversion Hn as [|x l Hnot Hr]; subst.
  assert (N1 : NoDup (map (fun k => (e, k)) (seq 0 n))).
  { apply FinFun.Injective_map_NoDup; [|apply seq_NoDup]. intros a b E. now inversion E. }
  assert (Dis : forall p, In p (map (fun k => (e, k)) (seq 0 n)) ->
                          ~ In p (flat_map (fun leg => map (fun k => (fst leg, k)) (seq 0 (snd leg))) r)).
  { intros p Hp Hq. apply in_map_iff in Hp. destruct Hp as (k & Ek & _). subst p.
    apply in_flat_map in Hq. destruct Hq as ([e' n'] & Hin & Hk). simpl in Hk.
    apply in_map_iff in Hk. destruct Hk as (k' & Ek' & _). inversion Ek'; subst.
    apply Hnot. apply in_map_iff. exists (e, n'). split; [reflexivity|exact Hin]. }
  clear Hnot Hn. specialize (IH Hr).
  induction (map (fun k => (e, k)) (seq 0 n)) as [|p ps IHp]; simpl; [exact IH|].
  inversion N1; subst. constructor.
  - intro Hin. apply in_app_or in Hin. destruct Hin as [Hin|Hin]; [contradiction|].
    exact (Dis p (or_introl eq_refl) Hin).
  - apply IHp; [assumption|]. intros q Hq. apply Dis. now right.
Qed.

(* seeding the generators from the pickled seed on every resume: two legs draw the same values *)
Lemma reseeding_refuted : exists legs, NoDup (map fst legs) /\ ~ NoDup (run_draws [SReseed] 1 legs).
Proof.
  exists [(10, 1); (11, 1)]. split.
  - repeat constructor; simpl; intuition discriminate.
  - intro H. vm_compute in H. inversion H as [|x l Hn _]; subst. apply Hn. now left.
Qed.
