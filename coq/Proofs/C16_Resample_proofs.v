(* C16 - lemmas about Model/C16_Resample.v *)
From Coq Require Import Reals ZArith List Bool Lia Lra Psatz.
From NessaiV Require Import Lib.Enclose Model.C16_Resample.
Import ListNotations.
Local Open Scope R_scope.

(* ---- np.where ------------------------------------------------------------------------- *)
Lemma positions_from_ge k bs : Forall (fun i => (k <= i)%nat) (positions_from k bs).
Proof.
  revert k. induction bs as [|b bs IH]; intros k; [constructor|]. simpl.
  assert (H : Forall (fun i => (k <= i)%nat) (positions_from (S k) bs)).
  { eapply Forall_impl; [|apply IH]. simpl. intros; lia. }
  destruct b; [constructor; [lia|exact H]|exact H].
Qed.

Lemma strictly_increasing_cons a l :
  Forall (fun i => (a < i)%nat) l -> strictly_increasing l -> strictly_increasing (a :: l).
Proof. intros H1 H2. destruct l as [|b l]; [exact Logic.I|]. inversion H1; subst. split; assumption. Qed.

Lemma positions_from_incr k bs : strictly_increasing (positions_from k bs).
Proof.
  revert k. induction bs as [|b bs IH]; intros k; [exact Logic.I|]. simpl.
  destruct b; [|apply IH]. apply strictly_increasing_cons; [|apply IH].
  eapply Forall_impl; [|apply (positions_from_ge (S k) bs)]. simpl. intros; lia.
Qed.

Lemma positions_from_In k bs i :
  In i (positions_from k bs) <-> (k <= i)%nat /\ nth (i - k) bs false = true.
Proof.
  revert k. induction bs as [|b bs IH]; intros k.
  - simpl. split; [tauto|]. intros [_ H]. destruct (i - k)%nat; discriminate.
  - simpl positions_from.
    assert (Hrec : In i (positions_from (S k) bs) <-> (S k <= i)%nat /\ nth (i - S k) bs false = true) by apply IH.
    destruct (Nat.eq_dec i k) as [->|Hne].
    + rewrite Nat.sub_diag. simpl nth. destruct b.
      * split; [intros _; split; [lia|reflexivity]|intros _; now left].
      * split; [|intros [_ H]; discriminate]. intros H. apply Hrec in H. lia.
    + assert (Hn : (k <= i)%nat -> nth (i - k) (b :: bs) false = nth (i - S k) bs false).
      { intros Hk. replace (i - k)%nat with (S (i - S k)) by lia. reflexivity. }
      destruct b.
      * split.
        -- intros [H|H]; [lia|]. apply Hrec in H. destruct H as [H1 H2]. split; [lia|]. rewrite Hn by lia. exact H2.
        -- intros [H1 H2]. right. apply Hrec. split; [lia|]. rewrite <- Hn by lia. exact H2.
      * split.
        -- intros H. apply Hrec in H. destruct H as [H1 H2]. split; [lia|]. rewrite Hn by lia. exact H2.
        -- intros [H1 H2]. apply Hrec. split; [lia|]. rewrite <- Hn by lia. exact H2.
Qed.

Lemma positions_In bs i : In i (positions bs) <-> nth i bs false = true.
Proof.
  unfold positions. rewrite positions_from_In. rewrite Nat.sub_0_r. split; [tauto|]. intros H; split; [lia|exact H].
Qed.

Lemma positions_range bs : Forall (fun i => (i < length bs)%nat) (positions bs).
Proof.
  apply Forall_forall. intros i Hi. apply positions_In in Hi.
  destruct (Nat.lt_ge_cases i (length bs)) as [H|H]; [exact H|].
  rewrite nth_overflow in Hi by exact H. discriminate.
Qed.

Lemma map2_length {A B C} (f : A -> B -> C) la lb : length (map2 f la lb) = Nat.min (length la) (length lb).
Proof. revert lb. induction la; destruct lb; simpl; try reflexivity. now rewrite IHla. Qed.

Lemma nth_map2 {A B C} (f : A -> B -> C) la lb i da db dc :
  (i < length la)%nat -> (i < length lb)%nat -> nth i (map2 f la lb) dc = f (nth i la da) (nth i lb db).
Proof.
  revert lb i. induction la as [|a la IH]; intros lb i Ha Hb; [simpl in Ha; lia|].
  destruct lb as [|b lb]; [simpl in Hb; lia|]. destruct i; [reflexivity|]. simpl in *. apply IH; lia.
Qed.

Lemma rej_keeps_length lw us : length us = length lw -> length (rej_keeps lw us) = length lw.
Proof.
  intros H. unfold rej_keeps. destruct (xmaxo lw); [|now rewrite map_length].
  rewrite map2_length, H. apply Nat.min_id.
Qed.

(* C16_subset *)
Theorem rejection_subset lw us :
  length us = length lw ->
  strictly_increasing (rejection lw us) /\ Forall (fun i => (i < length lw)%nat) (rejection lw us).
Proof.
  intros H. split; [apply positions_from_incr|].
  rewrite <- (rej_keeps_length lw us H). apply positions_range.
Qed.

Theorem take_in {A} (d : A) samples idx :
  Forall (fun i => (i < length samples)%nat) idx -> Forall (fun s => In s samples) (take d samples idx).
Proof.
  intros H. unfold take. apply Forall_forall. intros s Hs. apply in_map_iff in Hs.
  destruct Hs as [i [<- Hi]]. apply nth_In. rewrite Forall_forall in H. now apply H.
Qed.

(* ---- the maximum ------------------------------------------------------------------------ *)
Lemma xmaxo_ge lw M : xmaxo lw = Some M -> forall x, In (Some x) lw -> x <= M.
Proof.
  revert M. induction lw as [|l lw IH]; intros M H x Hx; [destruct Hx|].
  simpl in H. destruct l as [y|].
  - destruct (xmaxo lw) as [m|] eqn:E.
    + inversion H; subst. destruct Hx as [Hx|Hx].
      * inversion Hx; subst. apply Rmax_l.
      * eapply Rle_trans; [apply (IH m eq_refl x Hx)|apply Rmax_r].
    + inversion H; subst. destruct Hx as [Hx|Hx]; [inversion Hx; subst; lra|].
      exfalso. clear -E Hx. induction lw as [|l lw IH]; [destruct Hx|]. simpl in E.
      destruct l; [destruct (xmaxo lw); discriminate|]. destruct Hx as [Hx|Hx]; [discriminate|]. now apply IH.
  - destruct Hx as [Hx|Hx]; [discriminate|]. now apply IH.
Qed.

Lemma xmaxo_attained lw M : xmaxo lw = Some M -> In (Some M) lw.
Proof.
  revert M. induction lw as [|l lw IH]; intros M H; [discriminate|].
  simpl in H. destruct l as [y|]; [|right; now apply IH].
  destruct (xmaxo lw) as [m|] eqn:E.
  - inversion H; subst. unfold Rmax. destruct (Rle_dec y m); [right; now apply IH|now left].
  - inversion H; subst. now left.
Qed.

Lemma xmaxo_finite lw : has_finite lw -> exists M, xmaxo lw = Some M.
Proof.
  intros [x Hx]. induction lw as [|l lw IH]; [destruct Hx|]. simpl.
  destruct l as [y|].
  - destruct (xmaxo lw); eauto.
  - destruct Hx as [Hx|Hx]; [discriminate|]. now apply IH.
Qed.

(* ---- the acceptance test -------------------------------------------------------------------- *)
Lemma Rltb_true a b : Rltb a b = true <-> a < b.
Proof. unfold Rltb. destruct (Rlt_dec a b); split; intros; try assumption; try reflexivity; try discriminate; contradiction. Qed.

(* kept  <->  u < w / w_max   (for u >= 0) *)
Lemma keep_iff_ratio M l u : 0 <= u -> (xgt (xsub l M) (lnu u) = true <-> u < xexp l / exp M).
Proof.
  intros Hu. generalize (exp_pos M). intros HM. destruct l as [x|]; simpl.
  - unfold lnu. destruct (Req_EM_T u 0) as [->|Hne]; simpl.
    + split; [intros _|reflexivity]. apply Rdiv_lt_0_compat; [apply exp_pos|exact HM].
    + rewrite Rltb_true. assert (Hp : 0 < u) by lra.
      replace (exp x / exp M) with (exp (x - M)) by (unfold Rminus, Rdiv; now rewrite exp_plus, exp_Ropp).
      split; intros H.
      * rewrite <- (exp_ln u Hp). now apply exp_increasing.
      * rewrite <- (exp_ln u Hp) in H. now apply exp_lt_inv.
  - split; [discriminate|]. unfold Rdiv. rewrite Rmult_0_l. intros H. lra.
Qed.

Theorem keep_iff lw us M i :
  xmaxo lw = Some M -> length us = length lw -> (i < length lw)%nat -> 0 <= nth i us 0 ->
  (In i (rejection lw us) <-> nth i us 0 < xexp (nth i lw None) / exp M).
Proof.
  intros HM Hl Hi Hu. unfold rejection. rewrite positions_In. unfold rej_keeps. rewrite HM.
  rewrite (nth_map2 _ lw us i None 0 false) by lia. now apply keep_iff_ratio.
Qed.

Theorem max_always lw us M i :
  xmaxo lw = Some M -> length us = length lw -> (i < length lw)%nat ->
  nth i lw None = Some M -> 0 <= nth i us 0 < 1 -> In i (rejection lw us).
Proof.
  intros HM Hl Hi Hmax [Hu0 Hu1]. apply (keep_iff lw us M i HM Hl Hi Hu0). rewrite Hmax. simpl.
  unfold Rdiv. rewrite Rinv_r; [exact Hu1|]. generalize (exp_pos M). lra.
Qed.

Lemma nth_all_false {A} (l : list A) i : nth i (map (fun _ => false) l) false = false.
Proof. revert i. induction l; destruct i; simpl; auto. Qed.

Theorem zero_never lw us i : nth i lw None = None -> ~ In i (rejection lw us).
Proof.
  intros Hn H. unfold rejection in H. rewrite positions_In in H. unfold rej_keeps in H.
  destruct (xmaxo lw) as [M|].
  - destruct (Nat.lt_ge_cases i (length lw)) as [Hi|Hi]; destruct (Nat.lt_ge_cases i (length us)) as [Hj|Hj].
    + rewrite (nth_map2 _ lw us i None 0 false) in H by assumption. rewrite Hn in H. discriminate.
    + rewrite nth_overflow in H; [discriminate|]. rewrite map2_length.
      apply Nat.le_trans with (length us); [apply Nat.le_min_r|exact Hj].
    + rewrite nth_overflow in H; [discriminate|]. rewrite map2_length.
      apply Nat.le_trans with (length lw); [apply Nat.le_min_l|exact Hi].
    + rewrite nth_overflow in H; [discriminate|]. rewrite map2_length.
      apply Nat.le_trans with (length lw); [apply Nat.le_min_l|exact Hi].
  - rewrite nth_all_false in H. discriminate.
Qed.

(* no finite weight at all: nothing is kept (the comparisons against NaN are all False), and conversely
   with a finite weight and uniforms in [0, 1) the result is never empty *)
Lemma positions_from_all_false {A} k (l : list A) : positions_from k (map (fun _ => false) l) = [].
Proof. revert k; induction l as [|a r IH]; intros k; [reflexivity|]. cbn. apply IH. Qed.

Theorem rejection_none lw us : xmaxo lw = None -> rejection lw us = [].
Proof.
  intros H. unfold rejection, rej_keeps. rewrite H. unfold positions. apply positions_from_all_false.
Qed.

Theorem rejection_nonempty lw us :
  has_finite lw -> length us = length lw -> Forall (fun u => 0 <= u < 1) us -> rejection lw us <> [].
Proof.
  intros Hf Hl Hu. destruct (xmaxo_finite lw Hf) as [M HM].
  pose proof (xmaxo_attained lw M HM) as Hin.
  destruct (In_nth lw (Some M) None Hin) as [i [Hi Hnth]].
  assert (Hui : 0 <= nth i us 0 < 1).
  { rewrite Forall_forall in Hu. apply Hu. apply nth_In. rewrite Hl. exact Hi. }
  pose proof (max_always lw us M i HM Hl Hi Hnth Hui) as Hk.
  intros E. rewrite E in Hk. exact Hk.
Qed.

(* a common offset of the log-weights does not change which samples are kept *)
Lemma xmaxo_shift lw c : xmaxo (map (fun l => xsub l c) lw) = xsub (xmaxo lw) c.
Proof.
  induction lw as [|l r IH]; [reflexivity|].
  cbn [map xmaxo fold_right]. fold (xmaxo r). fold (xmaxo (map (fun l => xsub l c) r)). rewrite IH.
  destruct l as [x|]; destruct (xmaxo r) as [y|]; cbn; try reflexivity.
  f_equal. unfold Rmax. destruct (Rle_dec (x - c) (y - c)); destruct (Rle_dec x y); lra.
Qed.

Lemma map2_map_l {A A' B C} (f : A' -> B -> C) (g : A -> A') la lb :
  map2 f (map g la) lb = map2 (fun a b => f (g a) b) la lb.
Proof.
  revert lb; induction la as [|a ra IH]; intros lb; [reflexivity|].
  destruct lb as [|b rb]; [reflexivity|]. cbn. now rewrite IH.
Qed.

Lemma map2_ext {A B C} (f g : A -> B -> C) la lb : (forall a b, f a b = g a b) -> map2 f la lb = map2 g la lb.
Proof.
  intros H. revert lb; induction la as [|a ra IH]; intros lb; [reflexivity|].
  destruct lb as [|b rb]; [reflexivity|]. cbn. now rewrite H, IH.
Qed.

Theorem rejection_shift lw us c : rejection (map (fun l => xsub l c) lw) us = rejection lw us.
Proof.
  unfold rejection. f_equal. unfold rej_keeps. rewrite xmaxo_shift.
  destruct (xmaxo lw) as [M|]; cbn [xsub].
  - rewrite map2_map_l. apply map2_ext. intros l u. destruct l as [x|]; cbn [xsub]; [|reflexivity].
    replace (x - c - (M - c)) with (x - M) by lra. reflexivity.
  - rewrite map_map. reflexivity.
Qed.

Theorem ratio_le_1 lw M x : xmaxo lw = Some M -> In (Some x) lw -> 0 < exp x / exp M <= 1.
Proof.
  intros HM Hx. generalize (xmaxo_ge lw M HM x Hx) (exp_pos x) (exp_pos M). intros Hle Hx0 HM0. split.
  - now apply Rdiv_lt_0_compat.
  - apply Rmult_le_reg_r with (exp M); [exact HM0|]. unfold Rdiv. rewrite Rmult_assoc, Rinv_l by lra.
    rewrite Rmult_1_r, Rmult_1_l. destruct Hle as [Hlt| ->]; [left; now apply exp_increasing|lra].
Qed.

(* ---- ESS ------------------------------------------------------------------------------------- *)
Lemma sum_R_cons a l : sum_R (a :: l) = a + sum_R l.
Proof. reflexivity. Qed.

Lemma sumexp_scaled lw s :
  sumexp_R (map (xscale 2) (map (fun l => xsub l s) lw)) = sum_R (map (fun w => w ^ 2) (map xexp lw)) / (exp s) ^ 2.
Proof.
  generalize (exp_pos s). intros Hs. unfold sumexp_R. induction lw as [|l lw IH].
  - simpl. unfold Rdiv. now rewrite Rmult_0_l.
  - simpl map. rewrite !sum_R_cons, IH. destruct l as [x|]; simpl.
    + replace (2 * (x - s)) with ((x - s) + (x - s)) by lra. rewrite exp_plus. unfold Rminus.
      rewrite exp_plus, exp_Ropp. field. lra.
    + field. lra.
Qed.

Lemma sumexp_normalised lw s :
  sumexp_R (map (fun l => xsub l s) lw) = sumexp_R lw / exp s.
Proof.
  generalize (exp_pos s). intros Hs. unfold sumexp_R. induction lw as [|l lw IH].
  - simpl. unfold Rdiv. now rewrite Rmult_0_l.
  - simpl map. rewrite !sum_R_cons, IH. destruct l as [x|]; simpl.
    + unfold Rminus. rewrite exp_plus, exp_Ropp. field. lra.
    + field. lra.
Qed.

Lemma sumsq_pos lw : has_finite lw -> 0 < sum_R (map (fun w => w ^ 2) (map xexp lw)).
Proof.
  intros [x Hx]. induction lw as [|l lw IH]; [destruct Hx|]. cbn [map]. rewrite sum_R_cons.
  assert (Hnn : forall l', 0 <= sum_R (map (fun w => w ^ 2) (map xexp l'))).
  { induction l' as [|a l' IH']; [simpl; lra|]. cbn [map]. rewrite sum_R_cons.
    generalize (pow2_ge_0 (xexp a)). lra. }
  destruct Hx as [->|Hx].
  - change (xexp (Some x)) with (exp x). generalize (exp_pos x) (Hnn lw). intros Hx0 Hx1.
    assert (0 < exp x ^ 2) by (apply pow_lt; exact Hx0). lra.
  - generalize (IH Hx) (pow2_ge_0 (xexp l)). lra.
Qed.

Theorem ess_kish lw : has_finite lw -> ess lw = kish (map xexp lw).
Proof.
  intros Hf. generalize (sumexp_pos lw Hf) (sumsq_pos lw Hf). intros HS HQ.
  unfold ess, normalise, lse_R at 1. rewrite sumexp_scaled. unfold lse_R. rewrite exp_ln by exact HS.
  rewrite exp_Ropp, exp_ln.
  - unfold kish. fold (sumexp_R lw). field. split; lra.
  - apply Rdiv_lt_0_compat; [exact HQ|]. apply pow_lt. exact HS.
Qed.

(* Cauchy-Schwarz by induction:  sum w^2 <= (sum w)^2 <= n sum w^2  for non-negative w *)
Lemma kish_ineq ws : Forall (fun w => 0 <= w) ws ->
  0 <= sum_R ws /\ 0 <= sum_R (map (fun w => w ^ 2) ws) /\
  sum_R (map (fun w => w ^ 2) ws) <= (sum_R ws) ^ 2 /\
  (sum_R ws) ^ 2 <= INR (length ws) * sum_R (map (fun w => w ^ 2) ws).
Proof.
  induction 1 as [|a ws Ha H IH].
  - simpl. lra.
  - destruct IH as (H0 & HQ & H1 & H2). cbn [map]. rewrite !sum_R_cons.
    change (length (a :: ws)) with (Datatypes.S (length ws)). rewrite S_INR.
    assert (Hn : 0 <= INR (length ws)) by apply pos_INR.
    revert H0 HQ H1 H2 Hn.
    generalize (sum_R ws) (sum_R (map (fun w => w ^ 2) ws)) (INR (length ws)). intros Sm Q n H0 HQ H1 H2 Hn.
    repeat split.
    + lra.
    + generalize (pow2_ge_0 a). lra.
    + nra.
    + (* 2 a Sm <= n a^2 + Q  from  Sm^2 <= n Q *)
      replace ((a + Sm) ^ 2) with (a ^ 2 + 2 * a * Sm + Sm ^ 2) by ring.
      replace ((n + 1) * (a ^ 2 + Q)) with (n * a * a + n * Q + a ^ 2 + Q) by ring.
      destruct (Req_dec n 0) as [Hz|Hz].
      * assert (Hs0 : Sm = 0).
        { apply Rsqr_0_uniq. generalize (Rle_0_sqr Sm). unfold Rsqr. rewrite Hz in H2.
          replace (Sm ^ 2) with (Sm * Sm) in H2 by ring. lra. }
        subst Sm. rewrite Hz. generalize (pow2_ge_0 a). lra.
      * assert (Hnp : 0 < n) by lra.
        assert (Hsq : 0 <= (n * a - Sm) * (n * a - Sm)) by apply Rle_0_sqr.
        assert (E2 : 2 * a * Sm * n <= (n * a * a + Q) * n).
        { replace ((n * a * a + Q) * n) with (n * n * a * a + n * Q) by ring.
          replace ((n * a - Sm) * (n * a - Sm)) with (n * n * a * a - 2 * a * Sm * n + Sm ^ 2) in Hsq by ring. lra. }
        assert (E3 : 2 * a * Sm <= n * a * a + Q) by (apply Rmult_le_reg_r with n; [exact Hnp|exact E2]).
        lra.
Qed.

Theorem ess_bounds lw : has_finite lw -> 1 <= ess lw <= INR (length lw).
Proof.
  intros Hf. rewrite (ess_kish lw Hf). generalize (sumexp_pos lw Hf) (sumsq_pos lw Hf). intros HS HQ.
  assert (Hnn : Forall (fun w => 0 <= w) (map xexp lw)).
  { apply Forall_forall. intros w Hw. apply in_map_iff in Hw. destruct Hw as [l [<- _]]. apply xexp_nonneg. }
  destruct (kish_ineq _ Hnn) as (_ & _ & H1 & H2). rewrite map_length in H2. unfold kish. fold (sumexp_R lw) in *.
  split.
  - apply Rmult_le_reg_r with (sum_R (map (fun w => w ^ 2) (map xexp lw))); [exact HQ|].
    unfold Rdiv. rewrite Rmult_assoc, Rinv_l by lra. lra.
  - apply Rmult_le_reg_r with (sum_R (map (fun w => w ^ 2) (map xexp lw))); [exact HQ|].
    unfold Rdiv. rewrite Rmult_assoc, Rinv_l by lra. lra.
Qed.

Lemma has_finite_xsub lw c : has_finite lw -> has_finite (map (fun l => xsub l c) lw).
Proof. intros [x Hx]. exists (x - c). apply in_map_iff. now exists (Some x). Qed.

Lemma kish_scale c ws : c <> 0 -> kish (map (Rmult c) ws) = kish ws.
Proof.
  intros Hc. unfold kish.
  assert (H1 : sum_R (map (Rmult c) ws) = c * sum_R ws).
  { induction ws; [simpl; ring|]. cbn [map]. rewrite !sum_R_cons, IHws. ring. }
  assert (H2 : sum_R (map (fun w => w ^ 2) (map (Rmult c) ws)) = c ^ 2 * sum_R (map (fun w => w ^ 2) ws)).
  { clear H1. induction ws; [simpl; ring|]. cbn [map]. rewrite !sum_R_cons, IHws. ring. }
  rewrite H1, H2. destruct (Req_dec (sum_R (map (fun w => w ^ 2) ws)) 0) as [Hz|Hz].
  - rewrite Hz, Rmult_0_r. unfold Rdiv. rewrite Rinv_0. ring.
  - field. split; assumption.
Qed.

(* subtracting a constant from every log-weight (= adding -c) does not change the ESS *)
Theorem ess_shift lw c : has_finite lw -> ess (map (fun l => xsub l c) lw) = ess lw.
Proof.
  intros Hf. rewrite (ess_kish _ (has_finite_xsub lw c Hf)), (ess_kish lw Hf).
  rewrite map_map.
  replace (map (fun l => xexp (xsub l c)) lw) with (map (Rmult (exp (- c))) (map xexp lw)).
  - apply kish_scale. generalize (exp_pos (- c)). lra.
  - rewrite map_map. apply map_ext. intros [x|]; simpl; [|lra]. unfold Rminus. rewrite exp_plus. lra.
Qed.

(* ---- multinomial ------------------------------------------------------------------------------ *)
Theorem probs_normalised lw : has_finite lw ->
  sum_R (probs lw) = 1 /\ Forall (fun q => 0 <= q <= 1) (probs lw) /\
  (forall l l', xexp (xsub l (lse_R lw)) * xexp l' = xexp (xsub l' (lse_R lw)) * xexp l).
Proof.
  intros Hf. generalize (sumexp_pos lw Hf). intros HS.
  assert (Hs : exp (lse_R lw) = sumexp_R lw) by (unfold lse_R; now rewrite exp_ln).
  assert (Hsum : sum_R (probs lw) = 1).
  { unfold probs, normalise. change (sum_R (map xexp (map (fun l => xsub l (lse_R lw)) lw)))
      with (sumexp_R (map (fun l => xsub l (lse_R lw)) lw)).
    rewrite sumexp_normalised, Hs. field. lra. }
  split; [exact Hsum|]. split.
  - (* each probability is a non-negative part of a sum equal to one *)
    assert (Hnn : Forall (fun q => 0 <= q) (probs lw)).
    { apply Forall_forall. intros q Hq. unfold probs in Hq. apply in_map_iff in Hq.
      destruct Hq as [l [<- _]]. apply xexp_nonneg. }
    revert Hsum Hnn. generalize (probs lw). intros ps Hsum Hnn. apply Forall_forall. intros q Hq.
    rewrite Forall_forall in Hnn. split; [now apply Hnn|]. rewrite <- Hsum. clear Hsum.
    induction ps as [|a ps IH]; [destruct Hq|]. rewrite sum_R_cons.
    assert (0 <= sum_R ps) by (apply sum_R_nonneg; apply Forall_forall; intros; apply Hnn; now right).
    destruct Hq as [->|Hq]; [lra|].
    assert (0 <= a) by (apply Hnn; now left).
    assert (q <= sum_R ps) by (apply IH; [intros; apply Hnn; now right|exact Hq]). lra.
  - intros l l'. destruct l as [x|], l' as [y|]; simpl; try lra.
    unfold Rminus. rewrite !exp_plus. ring.
Qed.

Section Multinomial.
Variable choice : nat -> nat -> list R -> list nat.
Hypothesis choice_length : forall a n ps, length (choice a n ps) = n.
Hypothesis choice_range : forall a n ps, Forall (fun i => (i < a)%nat) (choice a n ps).

Theorem multinomial_n lw n :
  length (multinomial choice lw n) = match n with Some k => k | None => default_n lw end
  /\ Forall (fun i => (i < length lw)%nat) (multinomial choice lw n).
Proof. unfold multinomial. split; [apply choice_length|apply choice_range]. Qed.
End Multinomial.

(* int(ess) is the floor of the ESS and lies in 1..len *)
Theorem default_n_spec lw : has_finite lw ->
  INR (default_n lw) <= ess lw < INR (default_n lw) + 1 /\ (1 <= default_n lw <= length lw)%nat.
Proof.
  intros Hf. destruct (ess_bounds lw Hf) as [H1 H2]. unfold default_n.
  destruct (base_Int_part (ess lw)) as [Hi1 Hi2].
  assert (Hz : (0 < Int_part (ess lw))%Z) by (apply lt_IZR; lra).
  assert (Hinr : INR (Z.to_nat (Int_part (ess lw))) = IZR (Int_part (ess lw))).
  { rewrite INR_IZR_INZ. rewrite Z2Nat.id by lia. reflexivity. }
  rewrite Hinr. split; [lra|]. split.
  - apply (Z2Nat.inj_le 1); lia.
  - apply INR_le. rewrite Hinr. lra.
Qed.
