From Coq Require Import List ZArith Bool Lia ZifyBool QArith Lqa.
Import ListNotations.
From NessaiV Require Import Model.C17_Threshold.
Local Open Scope Z_scope.

(* Decide goals about an if-then-else integer function: split every test, finish with lia. *)
Ltac split_ifs :=
  repeat match goal with
         | |- context [if ?c then _ else _] => let E := fresh "E" in destruct c eqn:E
         | H : context [if ?c then _ else _] |- _ => let E := fresh "E" in destruct c eqn:E
         end.
Ltac clamp_tac := intros; cbv beta delta [clamp clamp_mid] in *; cbv zeta in *; split_ifs;
  try discriminate; repeat match goal with H : RetIndex _ = RetIndex _ |- _ => injection H as H end;
  subst; try reflexivity; try (f_equal; lia); try lia.

(* (a) the returned index is a valid index: the threshold is the likelihood of a live sample *)
Lemma clamp_range n size min_s min_r max_s nlive dc k :
  0 <= n < size -> 1 <= min_s -> 1 <= min_r -> min_r < size ->
  (dc = true -> max_s <> 0 -> nlive < max_s) ->
  clamp n size min_s min_r max_s nlive dc = RetIndex k -> 0 <= k < size.
Proof.
  intros Hn Hs Hr Hrs Hcap. destruct dc.
  - specialize (Hcap eq_refl). destruct (Z.eq_dec max_s 0) as [->|Hm].
    + clamp_tac.
    + specialize (Hcap Hm). clamp_tac.
  - clamp_tac.
Qed.

Lemma clamp_never_zero n size min_s min_r max_s nlive dc :
  1 <= min_r -> clamp n size min_s min_r max_s nlive dc <> RetZero.
Proof. clamp_tac. Qed.

(* (b) min_samples: if the method's own choice would leave fewer than min_samples then, before the
   cap, exactly min(size, min_samples) are kept *)
Lemma clamp_min_samples n size min_s min_r :
  0 <= n -> 0 <= size -> 1 <= min_s ->
  size - (if n =? 0 then 1 else n) < min_s ->
  size - clamp_mid n size min_s min_r = Z.min size min_s.
Proof. clamp_tac. Qed.

(* (c) otherwise at least min_remove are removed (index terms) *)
Lemma clamp_min_remove n size min_s min_r :
  0 <= n -> min_s <= size - (if n =? 0 then 1 else n) ->
  min_r <= clamp_mid n size min_s min_r /\ min_s <= size - (if n =? 0 then 1 else n).
Proof. clamp_tac. Qed.

(* the cap only ever removes more, and when it does not trigger the result is clamp_mid *)
Lemma clamp_cap_mono n size min_s min_r max_s nlive dc k :
  1 <= min_r ->
  clamp n size min_s min_r max_s nlive dc = RetIndex k ->
  clamp_mid n size min_s min_r <= k /\
  ((dc && negb (max_s =? 0) && (size - clamp_mid n size min_s min_r + nlive >? max_s)) = false ->
     k = clamp_mid n size min_s min_r).
Proof. clamp_tac. Qed.

(* (d) with constant draws and a cap the next level does not exceed max_samples *)
Lemma clamp_max_samples n size min_s min_r max_s nlive k :
  1 <= min_r -> max_s <> 0 ->
  clamp n size min_s min_r max_s nlive true = RetIndex k -> size - k + nlive <= max_s.
Proof. clamp_tac. Qed.

(* when the cap triggers, exactly max_s - nlive are kept: fewer than min_samples iff max_s - nlive < min_s *)
Lemma clamp_cap_kept n size min_s min_r max_s nlive k :
  1 <= min_r -> max_s <> 0 ->
  size - clamp_mid n size min_s min_r + nlive > max_s ->
  clamp n size min_s min_r max_s nlive true = RetIndex k -> size - k = max_s - nlive.
Proof. clamp_tac. Qed.

(* argmax of a mask *)
Lemma argmax_mask_lt m : m <> [] -> (argmax_mask m < length m)%nat.
Proof.
  induction m as [|b r IH]; [congruence|intros _]. cbn. destruct b; [lia|].
  destruct (existsb (fun b => b) r) eqn:E; [|lia].
  assert (r <> []) by (destruct r; [discriminate|congruence]). specialize (IH H). lia.
Qed.

Lemma argmax_mask_spec m : existsb (fun b => b) m = true ->
  nth (argmax_mask m) m false = true /\ forall j, (j < argmax_mask m)%nat -> nth j m false = false.
Proof.
  induction m as [|b r IH]; [discriminate|]. cbn [existsb argmax_mask]. destruct b; cbn.
  - intros _. split; [reflexivity|]. intros j Hj. lia.
  - intros H. rewrite H. destruct (IH H) as [H1 H2]. split; [exact H1|].
    intros [|j] Hj; [reflexivity|]. apply H2. lia.
Qed.

(* a mask with no True: numpy's argmax answers 0 *)
Lemma argmax_mask_none m : existsb (fun b => b) m = false -> argmax_mask m = 0%nat.
Proof.
  destruct m as [|b r]; [reflexivity|]. cbn [existsb argmax_mask]. destruct b; [reflexivity|].
  cbn. intros H. rewrite H. reflexivity.
Qed.

Lemma existsb_id_map {X} (g : X -> bool) l : existsb (fun b => b) (map g l) = existsb g l.
Proof. induction l as [|x r IH]; [reflexivity|]. cbn. rewrite IH. reflexivity. Qed.

(* on ascending keys the cut is a clean split: everything from argmax on is >= cut, everything before < cut *)
Lemma argmax_ge_key_sorted keys cut :
  (forall i j, (i <= j < length keys)%nat -> nth i keys 0 <= nth j keys 0) ->
  existsb (fun k => cut <=? k) keys = true ->
  (forall j, (argmax_ge_key keys cut <= j < length keys)%nat -> cut <= nth j keys 0)
  /\ (forall j, (j < argmax_ge_key keys cut)%nat -> nth j keys 0 < cut).
Proof.
  intros Hs He. unfold argmax_ge_key.
  set (g := fun k => cut <=? k). set (m := map g keys).
  assert (Hex : existsb (fun b => b) m = true) by (unfold m; rewrite existsb_id_map; exact He).
  assert (Hne : m <> []).
  { intros E. rewrite E in Hex. discriminate. }
  pose proof (argmax_mask_lt m Hne) as Hlt.
  destruct (argmax_mask_spec m Hex) as [H1 H2].
  assert (Hlen : length m = length keys) by (unfold m; apply map_length).
  assert (Hnth : forall j, (j < length keys)%nat -> nth j m false = g (nth j keys 0)).
  { intros j Hj. unfold m. rewrite (nth_indep _ false (g 0)) by (rewrite map_length; exact Hj).
    apply map_nth. }
  split.
  - intros j Hj. rewrite Hnth in H1 by lia. unfold g in H1.
    pose proof (Hs (argmax_mask m) j ltac:(lia)) as Hle. lia.
  - intros j Hj. specialize (H2 j Hj). rewrite Hnth in H2 by lia. unfold g in H2. lia.
Qed.

(* training-set floor *)
Lemma n_train_floor keys thr min_s :
  0 <= min_s <= Z.of_nat (length keys) ->
  0 <= n_train keys thr min_s /\ min_s <= Z.of_nat (length keys) - n_train keys thr min_s.
Proof. unfold n_train. lia. Qed.

(* unless the min_samples floor takes over, the new proposal is trained only on samples at or above the threshold;
   when the floor takes over, it is trained on exactly min_samples *)
Lemma n_train_sorted keys thr min_s :
  (forall i j, (i <= j < length keys)%nat -> nth i keys 0 <= nth j keys 0) ->
  existsb (fun k => thr <=? k) keys = true ->
  (Z.of_nat (argmax_ge_key keys thr) <= Z.of_nat (length keys) - min_s ->
     forall j, n_train keys thr min_s <= Z.of_nat j < Z.of_nat (length keys) -> thr <= nth j keys 0)
  /\ (Z.of_nat (length keys) - min_s < Z.of_nat (argmax_ge_key keys thr) ->
     Z.of_nat (length keys) - n_train keys thr min_s = min_s).
Proof.
  intros Hs He. destruct (argmax_ge_key_sorted keys thr Hs He) as [H1 _]. split.
  - intros Hle j Hj. apply H1. unfold n_train in Hj. lia.
  - intros Hlt. unfold n_train. lia.
Qed.

(* ---- weighted quantile is a convex combination --------------------------------------------- *)
Local Open Scope Q_scope.

Fixpoint ends_sorted (prev : Q) (ev : list (Q * Q)) : Prop :=
  match ev with [] => True | (e, _) :: r => prev <= e /\ ends_sorted e r end.
Fixpoint last_end (prev : Q) (ev : list (Q * Q)) : Q :=
  match ev with [] => prev | (e, _) :: r => last_end e r end.

Lemma wq_bounds (B : Q -> Q) (lo hi : Q) :
  (forall x y, x <= y -> B x <= B y) ->
  forall ev prev, ends_sorted prev ev -> Forall (fun p => lo <= snd p /\ snd p <= hi) ev ->
    lo * (B (last_end prev ev) - B prev) <= wq_sum B prev ev
    /\ wq_sum B prev ev <= hi * (B (last_end prev ev) - B prev).
Proof.
  intros Hmono ev. induction ev as [|[e v] r IH]; intros prev Hs Hv; cbn [wq_sum last_end].
  - split; lra.
  - destruct Hs as [Hpe Hs]. inversion Hv as [|? ? [Hlo Hhi] Hr]; subst. cbn in Hlo, Hhi.
    destruct (IH e Hs Hr) as [I1 I2]. pose proof (Hmono _ _ Hpe) as Hb.
    assert (0 <= B e - B prev) by lra.
    split; nra.
Qed.

(* with B 0 = 0, B 1 = 1 and end points running from 0 to 1 the estimate lies within the data range *)
Lemma wq_in_range (B : Q -> Q) (lo hi : Q) ev :
  (forall x y, x <= y -> B x <= B y) -> B 0 == 0 -> B 1 == 1 ->
  ends_sorted 0 ev -> last_end 0 ev == 1 ->
  (forall x y, x == y -> B x == B y) ->
  Forall (fun p => lo <= snd p /\ snd p <= hi) ev ->
  lo <= wq_sum B 0 ev /\ wq_sum B 0 ev <= hi.
Proof.
  intros Hmono H0 H1 Hs Hl Hext Hv. destruct (wq_bounds B lo hi Hmono ev 0 Hs Hv) as [I1 I2].
  rewrite (Hext _ _ Hl), H0, H1 in I1, I2. split; lra.
Qed.

(* ---- the same statements as predicates over ANY clamp function (tie A: they are re-proved on every
   run for the function regenerated from /repo's source) ---------------------------------------- *)
Local Open Scope Z_scope.
Definition clampfn := Z -> Z -> Z -> Z -> Z -> Z -> bool -> cres.

Definition P_range (f : clampfn) : Prop :=
  forall n size min_s min_r max_s nlive dc k,
    0 <= n < size -> 1 <= min_s -> 1 <= min_r -> min_r < size ->
    (negb dc || (max_s =? 0) || (nlive <? max_s)) = true ->
    f n size min_s min_r max_s nlive dc = RetIndex k -> 0 <= k < size.
Definition P_nonzero (f : clampfn) : Prop :=
  forall n size min_s min_r max_s nlive dc,
    1 <= min_r -> f n size min_s min_r max_s nlive dc <> RetZero.
Definition P_min_samples (f : clampfn) : Prop :=      (* cap not active *)
  forall n size min_s min_r max_s nlive dc k,
    0 <= n -> 0 <= size -> 1 <= min_s -> 1 <= min_r ->
    (negb dc || (max_s =? 0)) = true ->
    size - (if n =? 0 then 1 else n) < min_s ->
    f n size min_s min_r max_s nlive dc = RetIndex k -> size - k = Z.min size min_s.
Definition P_min_remove (f : clampfn) : Prop :=       (* with or without cap *)
  forall n size min_s min_r max_s nlive dc k,
    0 <= n -> 1 <= min_r -> min_s <= size - (if n =? 0 then 1 else n) ->
    f n size min_s min_r max_s nlive dc = RetIndex k -> min_r <= k.
Definition P_cap (f : clampfn) : Prop :=
  forall n size min_s min_r max_s nlive k,
    1 <= min_r -> max_s <> 0 ->
    f n size min_s min_r max_s nlive true = RetIndex k -> size - k + nlive <= max_s.

Ltac prop_tac f :=
  intros; cbv beta delta [f] in *; cbv zeta in *; split_ifs;
  try discriminate; repeat match goal with H : RetIndex _ = RetIndex _ |- _ => injection H as H end;
  subst; try reflexivity; try (f_equal; lia); try lia.

Lemma clamp_P_range : P_range clamp. Proof. unfold P_range. prop_tac clamp. Qed.
Lemma clamp_P_nonzero : P_nonzero clamp. Proof. unfold P_nonzero. prop_tac clamp. Qed.
Lemma clamp_P_min_samples : P_min_samples clamp. Proof. unfold P_min_samples. prop_tac clamp. Qed.
Lemma clamp_P_min_remove : P_min_remove clamp. Proof. unfold P_min_remove. prop_tac clamp. Qed.
Lemma clamp_P_cap : P_cap clamp. Proof. unfold P_cap. prop_tac clamp. Qed.
