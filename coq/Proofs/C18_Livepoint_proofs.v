From Coq Require Import String.
From Coq Require Import List ZArith Bool Arith Lia.
Import ListNotations.
From NessaiV Require Import Model.C18_Livepoint.

(* ====================================================================== *)
(* 0. small facts                                                          *)
(* ====================================================================== *)
Lemma mem_In (s : string) (l : list string) : mem s l = true <-> In s l.
Proof.
  unfold mem. rewrite existsb_exists. split.
  - intros [x [Hin He]]. apply String.eqb_eq in He. subst. exact Hin.
  - intros H. exists s. split; [exact H|apply String.eqb_refl].
Qed.

Lemma mem_false (s : string) (l : list string) : mem s l = false <-> ~ In s l.
Proof.
  rewrite <- mem_In. destruct (mem s l).
  - split; [discriminate|intros H; exfalso; apply H; reflexivity].
  - split; [intros _ H; discriminate|reflexivity].
Qed.

Lemma nodupb_NoDup (l : list string) : nodupb l = true <-> NoDup l.
Proof.
  induction l as [|x r IH]; cbn [nodupb].
  - split; [constructor|reflexivity].
  - rewrite andb_true_iff, negb_true_iff, mem_false, IH. split.
    + intros [H1 H2]. constructor; assumption.
    + intros H. inversion H; subst. split; assumption.
Qed.

Lemma NoDup_snoc {A} (l : list A) (x : A) : NoDup l -> ~ In x l -> NoDup (l ++ [x]).
Proof.
  induction l as [|y r IH]; cbn; intros Hn Hx.
  - constructor; [intros []|constructor].
  - inversion Hn; subst. constructor.
    + rewrite in_app_iff. intros [H|[H|[]]]; [contradiction|]. subst. apply Hx. left. reflexivity.
    + apply IH; [assumption|]. intros H. apply Hx. right. exact H.
Qed.

Lemma val_eqb_eq a b : val_eqb a b = true -> a = b.
Proof. destruct a, b; cbn; intros H; try discriminate; apply Z.eqb_eq in H; congruence. Qed.
Lemma kind_eqb_eq a b : kind_eqb a b = true -> a = b.
Proof. destruct a, b; cbn; intros H; try discriminate; reflexivity. Qed.

Lemma pair_list_eqb {A} (e : A -> A -> bool) (He : forall a b, e a b = true -> a = b) :
  forall a b : list A,
    (length a =? length b)%nat && forallb (fun p => e (fst p) (snd p)) (combine a b) = true -> a = b.
Proof.
  induction a as [|x a IH]; intros [|y b] H; cbn in H; try discriminate; try reflexivity.
  apply andb_true_iff in H. destruct H as [Hl H]. apply andb_true_iff in H. destruct H as [Hxy H].
  f_equal; [apply He; exact Hxy|]. apply IH. rewrite Hl. exact H.
Qed.

Lemma strs_eqb_eq a b : strs_eqb a b = true -> a = b.
Proof. apply pair_list_eqb. intros x y H. apply String.eqb_eq. exact H. Qed.
Lemma kinds_eqb_eq a b : kinds_eqb a b = true -> a = b.
Proof. apply pair_list_eqb. exact kind_eqb_eq. Qed.
Lemma vals_eqb_eq a b : vals_eqb a b = true -> a = b.
Proof. apply pair_list_eqb. exact val_eqb_eq. Qed.

Lemma ord_ok_eq o : ord_ok o = true -> o = [SCore; SExtra].
Proof.
  destruct o as [|[] [|[] [|? ?]]]; cbn; intros H; try discriminate; reflexivity.
Qed.

Lemma compose_std {A} (core extra : list A) : compose [SCore; SExtra] core extra = core ++ extra.
Proof. unfold compose. cbn. rewrite app_nil_r. reflexivity. Qed.

(* ====================================================================== *)
(* 1. The registry                                                         *)
(* ====================================================================== *)


Section RegistryProofs.
Variable sk : cfg_sk.
Hypothesis Hok : cfg_ok sk = true.

Lemma ok_parts :
  k_core_names sk = core_names /\ k_core_kinds sk = core_kinds /\ k_core_defs sk = core_defs
  /\ k_fill sk = vnan /\ k_fkind sk = F8
  /\ k_ord_names sk = [SCore; SExtra] /\ k_ord_defs sk = [SCore; SExtra] /\ k_ord_kinds sk = [SCore; SExtra]
  /\ all3c (k_reset_props sk) = true
  /\ all3x (k_reset_lists sk) = true /\ k_reset_calls_rp sk = true
  /\ all3x (k_add_appends sk) = true /\ k_add_calls_rp sk = true.
Proof.
  pose proof Hok as H. unfold cfg_ok in H.
  do 12 (apply andb_true_iff in H; let h := fresh "P" in destruct H as [H h]).
  repeat split;
    first [ assumption | apply strs_eqb_eq; assumption | apply kinds_eqb_eq; assumption
          | apply vals_eqb_eq; assumption | apply val_eqb_eq; assumption
          | apply kind_eqb_eq; assumption | apply ord_ok_eq; assumption ].
Qed.

(* the invariant linking the machine state to the paired specification list *)
Definition coh {A} (c : option (list A)) (core extra : list A) : Prop :=
  c = None \/ c = Some (core ++ extra).
Record Inv (r : reg) (e : list (string * val)) : Prop := {
  i_xp : xp r = map fst e;
  i_xd : xd r = map snd e;
  i_xt : xt r = repeat F8 (length e);
  i_cP : coh (cP r) core_names (xp r);
  i_cD : coh (cD r) core_defs (xd r);
  i_cT : coh (cT r) core_kinds (xt r);
  i_nd : NoDup (map fst e)
}.

Lemma all3c_parts l : all3c l = true -> cmem CP l = true /\ cmem CD l = true /\ cmem CT l = true.
Proof. unfold all3c. intros H. repeat (apply andb_true_iff in H; destruct H as [H ?]). auto. Qed.
Lemma all3x_parts l : all3x l = true -> xmem XP l = true /\ xmem XD l = true /\ xmem XT l = true.
Proof. unfold all3x. intros H. repeat (apply andb_true_iff in H; destruct H as [H ?]). auto. Qed.

Lemma inv_reset_properties r e :
  xp r = map fst e -> xd r = map snd e -> xt r = repeat F8 (length e) -> NoDup (map fst e) ->
  Inv (reset_properties sk r) e.
Proof.
  intros H1 H2 H3 H4.
  destruct ok_parts as (_ & _ & _ & _ & _ & _ & _ & _ & Hc & _).
  destruct (all3c_parts _ Hc) as (Ha & Hb & Hd).
  unfold reset_properties. constructor; cbn; try assumption; rewrite ?Ha, ?Hb, ?Hd; left; reflexivity.
Qed.

Lemma inv_read r e : Inv r e -> Inv (read sk r) e.
Proof.
  intros [H1 H2 H3 H4 H5 H6 H7].
  destruct ok_parts as (Hn & Hk & Hd & _ & _ & On & Od & Ok_ & _).
  constructor; cbn; try assumption.
  - right. unfold vis_names. destruct H4 as [E|E]; rewrite E; [|reflexivity].
    rewrite On, Hn, compose_std. reflexivity.
  - right. unfold vis_defs. destruct H5 as [E|E]; rewrite E; [|reflexivity].
    rewrite Od, Hd, compose_std. reflexivity.
  - right. unfold vis_kinds. destruct H6 as [E|E]; rewrite E; [|reflexivity].
    rewrite Ok_, Hk, compose_std. reflexivity.
Qed.

Lemma inv_reset r e : Inv r e -> Inv (do_reset sk r) [].
Proof.
  intros _.
  destruct ok_parts as (_ & _ & _ & _ & _ & _ & _ & _ & _ & Hx & Hrp & _).
  destruct (all3x_parts _ Hx) as (Ha & Hb & Hd).
  unfold do_reset. rewrite Hrp, Ha, Hb, Hd.
  apply inv_reset_properties; cbn; try reflexivity. constructor.
Qed.

(* the loop body preserves the data part of the invariant (caches are untouched by it) *)
Lemma add_one_data r e pd :
  xp r = map fst e -> xd r = map snd e -> xt r = repeat F8 (length e) -> NoDup (map fst e) ->
  let r' := add_one sk r pd in let e' := spec_add_one e pd in
  xp r' = map fst e' /\ xd r' = map snd e' /\ xt r' = repeat F8 (length e') /\ NoDup (map fst e')
  /\ cP r' = cP r /\ cD r' = cD r /\ cT r' = cT r.
Proof.
  intros H1 H2 H3 H4 r' e'. subst r' e'. destruct pd as [p d].
  destruct ok_parts as (_ & _ & _ & _ & Hfk & _ & _ & _ & _ & _ & _ & Hx & _).
  destruct (all3x_parts _ Hx) as (Ha & Hb & Hd).
  unfold add_one, spec_add_one. cbn [fst]. rewrite H1.
  destruct (mem p (map fst e)) eqn:Em.
  - repeat split; assumption.
  - rewrite Ha, Hb, Hd, Hfk. cbn [xp xd xt cP cD cT].
    rewrite !map_app, app_length, H2, H3. cbn [map fst snd length].
    repeat split; try reflexivity.
    + rewrite repeat_app. reflexivity.
    + apply mem_false in Em.
      apply NoDup_snoc; assumption.
Qed.

Lemma add_fold_data pds : forall r e,
  xp r = map fst e -> xd r = map snd e -> xt r = repeat F8 (length e) -> NoDup (map fst e) ->
  let r' := fold_left (add_one sk) pds r in let e' := fold_left spec_add_one pds e in
  xp r' = map fst e' /\ xd r' = map snd e' /\ xt r' = repeat F8 (length e') /\ NoDup (map fst e')
  /\ cP r' = cP r /\ cD r' = cD r /\ cT r' = cT r.
Proof.
  induction pds as [|pd pds IH]; intros r e H1 H2 H3 H4; cbn [fold_left].
  - repeat split; assumption.
  - destruct (add_one_data r e pd H1 H2 H3 H4) as (A1 & A2 & A3 & A4 & A5 & A6 & A7).
    destruct (IH _ _ A1 A2 A3 A4) as (B1 & B2 & B3 & B4 & B5 & B6 & B7).
    repeat split; try assumption; congruence.
Qed.

Lemma inv_add r e ps dv : Inv r e -> Inv (do_add sk ps dv r) (spec_step sk e (RAdd ps dv)).
Proof.
  intros [H1 H2 H3 H4 H5 H6 H7].
  destruct ok_parts as (_ & _ & _ & _ & _ & _ & _ & _ & _ & _ & _ & _ & Hrp).
  unfold do_add. rewrite Hrp. cbn [spec_step].
  destruct (add_fold_data (zip_defaults sk ps dv) r e H1 H2 H3 H7) as (A1 & A2 & A3 & A4 & _).
  apply inv_reset_properties; cbn [read_nd xp xd xt]; assumption.
Qed.

Lemma inv_step r e o : Inv r e -> Inv (step sk r o) (spec_step sk e o).
Proof.
  intros H. destruct o as [ps dv| |]; cbn [step spec_step].
  - apply inv_add; exact H.
  - eapply inv_reset; exact H.
  - apply inv_read; exact H.
Qed.

Lemma inv_run ops : forall r e, Inv r e -> Inv (run sk ops r) (spec_run sk ops e).
Proof.
  induction ops as [|o ops IH]; intros r e H; cbn [run spec_run fold_left]; [exact H|].
  apply IH. apply inv_step. exact H.
Qed.

Lemma inv0 : Inv reg0 [].
Proof. constructor; cbn; try reflexivity; try (left; reflexivity). Qed.

Lemma inv_visible r e : Inv r e ->
  vis_names sk r = core_names ++ map fst e
  /\ vis_defs sk r = core_defs ++ map snd e
  /\ vis_kinds sk r = core_kinds ++ repeat F8 (length e).
Proof.
  intros [H1 H2 H3 H4 H5 H6 H7].
  destruct ok_parts as (Hn & Hk & Hd & _ & _ & On & Od & Ok_ & _).
  unfold vis_names, vis_defs, vis_kinds. repeat split.
  - destruct H4 as [E|E]; rewrite E; [rewrite On, Hn, compose_std|]; rewrite H1; reflexivity.
  - destruct H5 as [E|E]; rewrite E; [rewrite Od, Hd, compose_std|]; rewrite H2; reflexivity.
  - destruct H6 as [E|E]; rewrite E; [rewrite Ok_, Hk, compose_std|]; rewrite H3; reflexivity.
Qed.

Theorem cfg_ok_sound_aux : forall ops, registry_spec sk ops.
Proof.
  intros ops. unfold registry_spec.
  pose proof (inv_run ops reg0 [] inv0) as HI.
  destruct (inv_visible _ _ HI) as (V1 & V2 & V3).
  repeat split; try assumption.
  - exact (i_nd _ _ HI).
  - unfold aligned, view_of. cbn [ns_names ns_kinds ns_defs]. rewrite V1, V2, V3.
    rewrite !app_length, !map_length, repeat_length. cbn. rewrite !Nat.eqb_refl. reflexivity.
Qed.
End RegistryProofs.

Section RegistryGen.
Variable sk : cfg_sk.
Hypothesis Hok : cfg_struct_ok sk = true.

Lemma gok_parts :
  k_ord_names sk = [SCore; SExtra] /\ k_ord_defs sk = [SCore; SExtra] /\ k_ord_kinds sk = [SCore; SExtra]
  /\ all3c (k_reset_props sk) = true
  /\ all3x (k_reset_lists sk) = true /\ k_reset_calls_rp sk = true
  /\ all3x (k_add_appends sk) = true /\ k_add_calls_rp sk = true.
Proof.
  pose proof Hok as H. unfold cfg_struct_ok in H.
  do 7 (apply andb_true_iff in H; let h := fresh "P" in destruct H as [H h]).
  repeat split; first [ assumption | apply ord_ok_eq; assumption ].
Qed.

(* the invariant linking the machine state to the paired specification list *)
Definition gcoh {A} (c : option (list A)) (core extra : list A) : Prop :=
  c = None \/ c = Some (core ++ extra).
Record gInv (r : reg) (e : list (string * val)) : Prop := {
  gi_xp : xp r = map fst e;
  gi_xd : xd r = map snd e;
  gi_xt : xt r = repeat (k_fkind sk) (length e);
  gi_cP : gcoh (cP r) (k_core_names sk) (xp r);
  gi_cD : gcoh (cD r) (k_core_defs sk) (xd r);
  gi_cT : gcoh (cT r) (k_core_kinds sk) (xt r);
  gi_nd : NoDup (map fst e)
}.

Lemma gall3c_parts l : all3c l = true -> cmem CP l = true /\ cmem CD l = true /\ cmem CT l = true.
Proof. unfold all3c. intros H. repeat (apply andb_true_iff in H; destruct H as [H ?]). auto. Qed.
Lemma gall3x_parts l : all3x l = true -> xmem XP l = true /\ xmem XD l = true /\ xmem XT l = true.
Proof. unfold all3x. intros H. repeat (apply andb_true_iff in H; destruct H as [H ?]). auto. Qed.

Lemma ginv_reset_properties r e :
  xp r = map fst e -> xd r = map snd e -> xt r = repeat (k_fkind sk) (length e) -> NoDup (map fst e) ->
  gInv (reset_properties sk r) e.
Proof.
  intros H1 H2 H3 H4.
  destruct gok_parts as (_ & _ & _ & Hc & _).
  destruct (gall3c_parts _ Hc) as (Ha & Hb & Hd).
  unfold reset_properties. constructor; cbn; try assumption; rewrite ?Ha, ?Hb, ?Hd; left; reflexivity.
Qed.

Lemma ginv_read r e : gInv r e -> gInv (read sk r) e.
Proof.
  intros [H1 H2 H3 H4 H5 H6 H7].
  destruct gok_parts as (On & Od & Ok_ & _).
  constructor; cbn; try assumption.
  - right. unfold vis_names. destruct H4 as [E|E]; rewrite E; [|reflexivity].
    rewrite On, compose_std. reflexivity.
  - right. unfold vis_defs. destruct H5 as [E|E]; rewrite E; [|reflexivity].
    rewrite Od, compose_std. reflexivity.
  - right. unfold vis_kinds. destruct H6 as [E|E]; rewrite E; [|reflexivity].
    rewrite Ok_, compose_std. reflexivity.
Qed.

Lemma ginv_reset r e : gInv r e -> gInv (do_reset sk r) [].
Proof.
  intros _.
  destruct gok_parts as (_ & _ & _ & _ & Hx & Hrp & _).
  destruct (gall3x_parts _ Hx) as (Ha & Hb & Hd).
  unfold do_reset. rewrite Hrp, Ha, Hb, Hd.
  apply ginv_reset_properties; cbn; try reflexivity. constructor.
Qed.

(* the loop body preserves the data part of the invariant (caches are untouched by it) *)
Lemma gadd_one_data r e pd :
  xp r = map fst e -> xd r = map snd e -> xt r = repeat (k_fkind sk) (length e) -> NoDup (map fst e) ->
  let r' := add_one sk r pd in let e' := spec_add_one e pd in
  xp r' = map fst e' /\ xd r' = map snd e' /\ xt r' = repeat (k_fkind sk) (length e') /\ NoDup (map fst e')
  /\ cP r' = cP r /\ cD r' = cD r /\ cT r' = cT r.
Proof.
  intros H1 H2 H3 H4 r' e'. subst r' e'. destruct pd as [p d].
  destruct gok_parts as (_ & _ & _ & _ & _ & _ & Hx & _).
  destruct (gall3x_parts _ Hx) as (Ha & Hb & Hd).
  unfold add_one, spec_add_one. cbn [fst]. rewrite H1.
  destruct (mem p (map fst e)) eqn:Em.
  - repeat split; assumption.
  - rewrite Ha, Hb, Hd. cbn [xp xd xt cP cD cT].
    rewrite !map_app, app_length, H2, H3. cbn [map fst snd length].
    repeat split; try reflexivity.
    + rewrite repeat_app. reflexivity.
    + apply mem_false in Em.
      apply NoDup_snoc; assumption.
Qed.

Lemma gadd_fold_data pds : forall r e,
  xp r = map fst e -> xd r = map snd e -> xt r = repeat (k_fkind sk) (length e) -> NoDup (map fst e) ->
  let r' := fold_left (add_one sk) pds r in let e' := fold_left spec_add_one pds e in
  xp r' = map fst e' /\ xd r' = map snd e' /\ xt r' = repeat (k_fkind sk) (length e') /\ NoDup (map fst e')
  /\ cP r' = cP r /\ cD r' = cD r /\ cT r' = cT r.
Proof.
  induction pds as [|pd pds IH]; intros r e H1 H2 H3 H4; cbn [fold_left].
  - repeat split; assumption.
  - destruct (gadd_one_data r e pd H1 H2 H3 H4) as (A1 & A2 & A3 & A4 & A5 & A6 & A7).
    destruct (IH _ _ A1 A2 A3 A4) as (B1 & B2 & B3 & B4 & B5 & B6 & B7).
    repeat split; try assumption; congruence.
Qed.

Lemma ginv_add r e ps dv : gInv r e -> gInv (do_add sk ps dv r) (spec_step sk e (RAdd ps dv)).
Proof.
  intros [H1 H2 H3 H4 H5 H6 H7].
  destruct gok_parts as (_ & _ & _ & _ & _ & _ & _ & Hrp).
  unfold do_add. rewrite Hrp. cbn [spec_step].
  destruct (gadd_fold_data (zip_defaults sk ps dv) r e H1 H2 H3 H7) as (A1 & A2 & A3 & A4 & _).
  apply ginv_reset_properties; cbn [read_nd xp xd xt]; assumption.
Qed.

Lemma ginv_step r e o : gInv r e -> gInv (step sk r o) (spec_step sk e o).
Proof.
  intros H. destruct o as [ps dv| |]; cbn [step spec_step].
  - apply ginv_add; exact H.
  - eapply ginv_reset; exact H.
  - apply ginv_read; exact H.
Qed.

Lemma ginv_run ops : forall r e, gInv r e -> gInv (run sk ops r) (spec_run sk ops e).
Proof.
  induction ops as [|o ops IH]; intros r e H; cbn [run spec_run fold_left]; [exact H|].
  apply IH. apply ginv_step. exact H.
Qed.

Lemma ginv0 : gInv reg0 [].
Proof. constructor; cbn; try reflexivity; try (left; reflexivity). Qed.

Lemma ginv_visible r e : gInv r e ->
  vis_names sk r = (k_core_names sk) ++ map fst e
  /\ vis_defs sk r = (k_core_defs sk) ++ map snd e
  /\ vis_kinds sk r = (k_core_kinds sk) ++ repeat (k_fkind sk) (length e).
Proof.
  intros [H1 H2 H3 H4 H5 H6 H7].
  destruct gok_parts as (On & Od & Ok_ & _).
  unfold vis_names, vis_defs, vis_kinds. repeat split.
  - destruct H4 as [E|E]; rewrite E; [rewrite On, compose_std|]; rewrite H1; reflexivity.
  - destruct H5 as [E|E]; rewrite E; [rewrite Od, compose_std|]; rewrite H2; reflexivity.
  - destruct H6 as [E|E]; rewrite E; [rewrite Ok_, compose_std|]; rewrite H3; reflexivity.
Qed.

Theorem registry_gen_aux : forall ops, registry_spec_gen sk ops.
Proof.
  intros ops. unfold registry_spec_gen.
  pose proof (ginv_run ops reg0 [] ginv0) as HI.
  destruct (ginv_visible _ _ HI) as (V1 & V2 & V3).
  repeat split; try assumption. exact (gi_nd _ _ HI).
Qed.
End RegistryGen.

(* whatever the configured core fields, dtypes and default values are: a history of add / reset / read
   changes the extra fields only *)
Theorem registry_gen : forall sk, cfg_struct_ok sk = true -> forall ops, registry_spec_gen sk ops.
Proof. intros sk H. exact (registry_gen_aux sk H). Qed.

Lemma cfg_ok_struct sk : cfg_ok sk = true -> cfg_struct_ok sk = true.
Proof.
  intros H. unfold cfg_ok in H. unfold cfg_struct_ok.
  do 12 (apply andb_true_iff in H; let h := fresh "P" in destruct H as [H h]).
  rewrite P6, P5, P4, P3, P2, P1, P0, P. reflexivity.
Qed.


Theorem cfg_ok_sound : forall sk, cfg_ok sk = true -> forall ops, registry_spec sk ops.
Proof. intros sk H. exact (cfg_ok_sound_aux sk H). Qed.

Lemma cfg_today_ok : cfg_ok cfg_today = true.
Proof. vm_compute. reflexivity. Qed.

Lemma spec_run_app sk ops1 ops2 e : spec_run sk (ops1 ++ ops2) e = spec_run sk ops2 (spec_run sk ops1 e).
Proof. unfold spec_run. apply fold_left_app. Qed.

(* after a reset the visible fields are the core fields again, whatever happened before *)
Lemma reset_restores sk : cfg_ok sk = true -> forall ops,
  let r := run sk (ops ++ [RReset]) reg0 in
  vis_names sk r = core_names /\ vis_defs sk r = core_defs /\ vis_kinds sk r = core_kinds.
Proof.
  intros H ops r. destruct (cfg_ok_sound sk H (ops ++ [RReset])) as (A & B & C & _).
  fold r in A, B, C. rewrite spec_run_app in A, B, C.
  cbn [spec_run fold_left spec_step map length repeat] in A, B, C.
  rewrite app_nil_r in A, B, C. auto.
Qed.

(* ====================================================================== *)
(* 2. Converters                                                           *)
(* ====================================================================== *)
Lemma pick_all {A} (d : A) (l t : list A) : map (fun i => nth i (l ++ t) d) (seq 0 (length l)) = l.
Proof.
  induction l as [|x l IH]; cbn [length seq map]; [reflexivity|].
  cbn [app nth]. f_equal. rewrite <- seq_shift, map_map. cbn [app nth]. exact IH.
Qed.

Lemma pick_all0 {A} (d : A) (l : list A) : map (fun i => nth i l d) (seq 0 (length l)) = l.
Proof. pose proof (pick_all d l []) as H. rewrite app_nil_r in H. exact H. Qed.

Lemma index_of_skip (pre : list string) x rest :
  ~ In x pre -> index_of x (pre ++ x :: rest) = Some (length pre).
Proof.
  induction pre as [|y pre IH]; intros Hn; cbn [app index_of length].
  - rewrite String.eqb_refl. reflexivity.
  - destruct (String.eqb_spec x y) as [E|E].
    + exfalso. apply Hn. left. symmetry. exact E.
    + rewrite IH; [reflexivity|]. intros H. apply Hn. right. exact H.
Qed.

Lemma map_opt_index (names : list string) : forall pre rest,
  NoDup (pre ++ names ++ rest) ->
  map_opt (fun n => index_of n (pre ++ names ++ rest)) names = Some (seq (length pre) (length names)).
Proof.
  induction names as [|x ns IH]; intros pre rest Hnd; cbn [map_opt length seq]; [reflexivity|].
  assert (Hx : ~ In x pre).
  { intros Hin. apply NoDup_remove_2 in Hnd. apply Hnd. rewrite in_app_iff. left. exact Hin. }
  cbn [app]. rewrite (index_of_skip pre x (ns ++ rest) Hx).
  specialize (IH (pre ++ [x]) rest).
  rewrite <- !app_assoc in IH. cbn [app] in IH. rewrite (IH Hnd).
  rewrite app_length. cbn [length]. rewrite Nat.add_1_r. reflexivity.
Qed.

Lemma map_opt_index0 (names rest : list string) :
  NoDup (names ++ rest) ->
  map_opt (fun n => index_of n (names ++ rest)) names = Some (seq 0 (length names)).
Proof. intros H. exact (map_opt_index names [] rest H). Qed.


Section Conv.
Variables (names : list string) (nsp : bool) (v : nsview).
Hypothesis Hal : aligned v = true.
Hypothesis Hnd : NoDup (dt_names names nsp v).

Lemma mk_arr_ok rows :
  mk_arr names nsp v rows
  = Ok {| s_names := dt_names names nsp v; s_kinds := dt_kinds names nsp v; s_rows := rows |}.
Proof.
  unfold mk_arr. rewrite Hal. apply nodupb_NoDup in Hnd. rewrite Hnd. reflexivity.
Qed.

Lemma mk_arr_lp a : exists x, mk_arr names nsp v (map (fun r => r ++ tail_defs nsp v) a) = Ok x /\ lp_of names nsp v a x.
Proof. eexists. split; [apply mk_arr_ok|]. repeat split. Qed.

Lemma wf_forallb_le a : wf_rows names a -> forallb (fun r => (length names <=? length r)%nat) a = true.
Proof.
  intros H. apply forallb_forall. intros r Hr. unfold wf_rows in H; rewrite Forall_forall in H.
  rewrite (H r Hr). apply Nat.leb_refl.
Qed.

Lemma wf_forallb_eq a : wf_rows names a -> forallb (fun r => (length r =? length names)%nat) a = true.
Proof.
  intros H. apply forallb_forall. intros r Hr. unfold wf_rows in H; rewrite Forall_forall in H.
  rewrite (H r Hr). apply Nat.eqb_refl.
Qed.

Lemma wf_firstn a : wf_rows names a ->
  map (fun r => firstn (length names) r ++ tail_defs nsp v) a = map (fun r => r ++ tail_defs nsp v) a.
Proof.
  intros H. apply map_ext_in. intros r Hr. unfold wf_rows in H; rewrite Forall_forall in H.
  rewrite <- (H r Hr), firstn_all. reflexivity.
Qed.

(* numpy_array_to_live_points *)
Lemma np_to_lp_spec a : wf_rows names a ->
  exists x, np_to_lp a names nsp v = Ok x /\ lp_of names nsp v (if (length (concat a) =? 0)%nat then [] else a) x.
Proof.
  intros Hwf. unfold np_to_lp. destruct (length (concat a) =? 0)%nat.
  - unfold empty_sa. cbn [repeat]. exact (mk_arr_lp []).
  - rewrite (wf_forallb_le a Hwf), (wf_firstn a Hwf). exact (mk_arr_lp a).
Qed.

Lemma concat_nonempty a : names <> [] -> wf_rows names a -> a <> [] -> (length (concat a) =? 0)%nat = false.
Proof.
  intros Hn Hwf Ha. destruct a as [|r a]; [contradiction|].
  inversion Hwf; subst. cbn [concat]. rewrite app_length.
  destruct names; [contradiction|]. cbn [length] in *. apply Nat.eqb_neq. lia.
Qed.

Lemma np_to_lp_ok a : names <> [] -> wf_rows names a ->
  exists x, np_to_lp a names nsp v = Ok x /\ lp_of names nsp v a x.
Proof.
  intros Hn Hwf. destruct a as [|r a'] eqn:Ea.
  - destruct (np_to_lp_spec [] Hwf) as [x [H1 H2]]. exists x. split; assumption.
  - destruct (np_to_lp_spec (r :: a') Hwf) as [x [H1 H2]].
    rewrite (concat_nonempty (r :: a') Hn Hwf) in H2 by discriminate.
    exists x. split; assumption.
Qed.

(* dataframe_to_live_points *)
Lemma df_to_lp_ok a : wf_rows names a ->
  exists x, df_to_lp (names, a) nsp v = Ok x /\ lp_of names nsp v a x.
Proof. intros Hwf. unfold df_to_lp. rewrite (wf_forallb_eq a Hwf). exact (mk_arr_lp a). Qed.

(* parameters_to_live_point *)
Lemma params_to_lp_ok ps : ps <> [] -> length ps = length names ->
  exists x, params_to_lp ps names nsp v = Ok x /\ lp_of names nsp v [ps] x.
Proof.
  intros Hne Hl. unfold params_to_lp. destruct ps as [|p ps']; [contradiction|].
  rewrite Hl, Nat.eqb_refl. exact (mk_arr_lp [p :: ps']).
Qed.
Lemma params_to_lp_empty : exists x, params_to_lp [] names nsp v = Ok x /\ lp_of names nsp v [] x.
Proof. unfold params_to_lp, empty_sa. cbn [repeat]. exact (mk_arr_lp []). Qed.

(* empty_structured_array *)
Lemma empty_sa_ok n :
  exists x, empty_sa n names nsp v = Ok x
            /\ lp_of names nsp v (repeat (repeat (ns_fill v) (length names)) n) x.
Proof.
  unfold empty_sa. rewrite mk_arr_ok. eexists. split; [reflexivity|]. repeat split.
  cbn [s_rows]. unfold default_row. induction n as [|n IH]; cbn [repeat map]; [reflexivity|].
  f_equal. exact IH.
Qed.

(* ---- reading back from any array that holds data a ----------------------- *)
Lemma rows_pick a : wf_rows names a ->
  map (fun r => map (fun i => nth i r vnan) (seq 0 (length names))) (map (fun r => r ++ tail_defs nsp v) a) = a.
Proof.
  intros Hwf. rewrite map_map. rewrite <- (map_id a) at 2. apply map_ext_in.
  intros r Hr. unfold wf_rows in Hwf; rewrite Forall_forall in Hwf. rewrite <- (Hwf r Hr). apply pick_all.
Qed.

Lemma lp_to_array_ok a x : wf_rows names a -> lp_of names nsp v a x -> lp_to_array x names = Ok a.
Proof.
  intros Hwf (Hn & _ & Hr). unfold lp_to_array. rewrite Hn. unfold dt_names in *.
  rewrite (map_opt_index0 names _ Hnd), Hr, (rows_pick a Hwf). reflexivity.
Qed.

Lemma lp_to_df_ok a x : wf_rows names a -> lp_of names nsp v a x -> lp_to_df x names = Ok (names, a).
Proof. intros Hwf H. unfold lp_to_df. rewrite (lp_to_array_ok a x Hwf H). reflexivity. Qed.


Lemma col_at_tail c a : wf_rows names a -> (c < length names)%nat ->
  col_at c (map (fun r => r ++ tail_defs nsp v) a) = col_at c a.
Proof.
  intros Hwf Hc. unfold col_at. rewrite map_map. apply map_ext_in. intros r Hr.
  unfold wf_rows in Hwf; rewrite Forall_forall in Hwf. apply app_nth1. rewrite (Hwf r Hr). exact Hc.
Qed.

Lemma lp_to_dict_ok a x : wf_rows names a -> lp_of names nsp v a x ->
  lp_to_dict x names = Ok (combine names (columns (length names) a)).
Proof.
  intros Hwf (Hn & _ & Hr). unfold lp_to_dict. rewrite Hn. unfold dt_names in *.
  rewrite (map_opt_index0 names _ Hnd), Hr. unfold columns. do 2 f_equal.
  apply map_ext_in. intros c Hc. apply in_seq in Hc. apply col_at_tail; [exact Hwf|lia].
Qed.
End Conv.

(* ---- dictionaries ---------------------------------------------------------- *)
Lemma map_fst_combine {A B} (a : list A) (b : list B) : length a = length b -> map fst (combine a b) = a.
Proof.
  revert b; induction a as [|x a IH]; intros [|y b] H; cbn in *; try discriminate; try reflexivity.
  f_equal. apply IH. lia.
Qed.
Lemma map_snd_combine {A B} (a : list A) (b : list B) : length a = length b -> map snd (combine a b) = b.
Proof.
  revert b; induction a as [|x a IH]; intros [|y b] H; cbn in *; try discriminate; try reflexivity.
  f_equal. apply IH. lia.
Qed.

Lemma bcast_seq N cols : Forall (fun c => length c = N) cols -> map_opt (bcast N) (map DSeq cols) = Some cols.
Proof.
  induction 1 as [|c cols Hc _ IH]; cbn [map map_opt]; [reflexivity|].
  rewrite IH. cbn [bcast]. rewrite Hc, Nat.eqb_refl. reflexivity.
Qed.
Lemma scalar_all ps : map_opt scalar_of (map DScalar ps) = Some ps.
Proof. induction ps as [|p ps IH]; cbn [map map_opt scalar_of]; [reflexivity|]. rewrite IH. reflexivity. Qed.

Lemma nth_map_default {A B} (f : A -> B) (l : list A) (d : A) (db : B) i :
  f d = db -> nth i (map f l) db = f (nth i l d).
Proof. intros H. rewrite <- H. apply map_nth. Qed.

(* transposing twice gives the original, both ways *)
Lemma transpose_cols N cols : Forall (fun c => length c = N) cols ->
  map (fun c => col_at c (rows_of_cols N cols)) (seq 0 (length cols)) = cols.
Proof.
  intros H. etransitivity; [|apply (pick_all0 [] cols)]. apply map_ext_in. intros c Hc. apply in_seq in Hc.
  unfold col_at, rows_of_cols. rewrite map_map.
  assert (Hl : length (nth c cols []) = N).
  { rewrite Forall_forall in H. apply H. apply nth_In. lia. }
  etransitivity; [|apply (pick_all0 vnan (nth c cols []))]. rewrite Hl. apply map_ext. intros i.
  apply (nth_map_default (fun col => nth i col vnan) cols [] vnan c). destruct i; reflexivity.
Qed.

Lemma transpose_rows k a : Forall (fun r => length r = k) a ->
  rows_of_cols (length a) (map (fun c => col_at c a) (seq 0 k)) = a.
Proof.
  intros H. unfold rows_of_cols. etransitivity; [|apply (pick_all0 [] a)]. apply map_ext_in. intros i Hi.
  apply in_seq in Hi. rewrite map_map.
  assert (Hl : length (nth i a []) = k).
  { rewrite Forall_forall in H. apply H. apply nth_In. lia. }
  etransitivity; [|apply (pick_all0 vnan (nth i a []))]. rewrite Hl. apply map_ext. intros c.
  unfold col_at. apply (nth_map_default (fun r => nth c r vnan) a [] vnan i). destruct c; reflexivity.
Qed.

Lemma rows_of_cols_wf N cols : Forall (fun r => length r = length cols) (rows_of_cols N cols).
Proof.
  unfold rows_of_cols. apply Forall_forall. intros r Hr. apply in_map_iff in Hr.
  destruct Hr as [i [E _]]. subst. apply map_length.
Qed.

Section Dict.
Variables (names : list string) (nsp : bool) (v : nsview).
Hypothesis Hal : aligned v = true.
Hypothesis Hnd : NoDup (dt_names names nsp v).

Lemma dict_seq_ok (lenient : bool) cols N :
  names <> [] -> length cols = length names -> Forall (fun c => length c = N) cols ->
  (lenient = true \/ N <> 1%nat) ->
  exists x, dict_to_lp lenient (combine names (map DSeq cols)) nsp v = Ok x
            /\ lp_of names nsp v (rows_of_cols N cols) x.
Proof.
  intros Hne Hl Hc Hcase.
  assert (Hfst : map fst (combine names (map DSeq cols)) = names)
    by (apply map_fst_combine; rewrite map_length; lia).
  assert (Hsnd : map snd (combine names (map DSeq cols)) = map DSeq cols)
    by (apply map_snd_combine; rewrite map_length; lia).
  unfold dict_to_lp.
  destruct names as [|n0 ns] eqn:En; [contradiction|].
  destruct cols as [|c0 cs] eqn:Ec; [discriminate|].
  cbn [map combine]. cbn [map combine] in Hfst, Hsnd. cbn [dlen].
  assert (H0 : length c0 = N) by (inversion Hc; assumption).
  rewrite H0.
  assert (Htp : (if lenient then false else (N =? 1)%nat) = false).
  { destruct Hcase as [E|E]; [rewrite E; reflexivity|]. destruct lenient; [reflexivity|].
    apply Nat.eqb_neq. exact E. }
  rewrite Htp.
  change ((n0, DSeq c0) :: combine ns (map DSeq cs)) with (combine (n0 :: ns) (map DSeq (c0 :: cs))).
  change (combine (n0 :: ns) (map DSeq (c0 :: cs))) with (combine (n0 :: ns) (map DSeq (c0 :: cs))) in Hfst.
  cbn [map combine] in *. rewrite Hsnd, Hfst.
  change (DSeq c0 :: map DSeq cs) with (map DSeq (c0 :: cs)). rewrite (bcast_seq N (c0 :: cs) Hc).
  rewrite <- En in *. apply (mk_arr_lp names nsp v Hal Hnd).
Qed.

Lemma dict_scalar_ok (lenient : bool) ps :
  names <> [] -> length ps = length names ->
  exists x, dict_to_lp lenient (combine names (map DScalar ps)) nsp v = Ok x /\ lp_of names nsp v [ps] x.
Proof.
  intros Hne Hl.
  assert (Hfst : map fst (combine names (map DScalar ps)) = names)
    by (apply map_fst_combine; rewrite map_length; lia).
  assert (Hsnd : map snd (combine names (map DScalar ps)) = map DScalar ps)
    by (apply map_snd_combine; rewrite map_length; lia).
  unfold dict_to_lp.
  destruct names as [|n0 ns] eqn:En; [contradiction|].
  destruct ps as [|p0 ps'] eqn:Ep; [discriminate|].
  cbn [map combine] in *. cbn [dlen Nat.eqb].
  assert (Htp : (if lenient then true else true) = true) by (destruct lenient; reflexivity).
  rewrite Htp, Hsnd, Hfst.
  change (DScalar p0 :: map DScalar ps') with (map DScalar (p0 :: ps')). rewrite scalar_all.
  rewrite <- En in *. apply (mk_arr_lp names nsp v Hal Hnd [p0 :: ps']).
Qed.
End Dict.

(* ====================================================================== *)
(* 3. The unstructured view                                                *)
(* ====================================================================== *)
Local Open Scope Z_scope.

Lemma offsets_from_repeat k : forall o rest,
  offsets_from o (repeat F8 k ++ rest)
  = map (fun c => o + 8 * Z.of_nat c) (seq 0 k) ++ offsets_from (o + 8 * Z.of_nat k) rest.
Proof.
  induction k as [|k IH]; intros o rest.
  - cbn [repeat app seq map]. f_equal. lia.
  - cbn [repeat app offsets_from seq map ksize]. f_equal; [lia|].
    rewrite IH. rewrite <- seq_shift, map_map. f_equal.
    + apply map_ext. intros c. lia.
    + f_equal. lia.
Qed.

Lemma itemsize_app a b : itemsize (a ++ b) = itemsize a + itemsize b.
Proof. induction a as [|k a IH]; cbn [app itemsize]; [reflexivity|]. rewrite IH. lia. Qed.
Lemma itemsize_repeat k : itemsize (repeat F8 k) = 8 * Z.of_nat k.
Proof. induction k as [|k IH]; cbn [repeat itemsize ksize]; [reflexivity|]. rewrite IH. lia. Qed.

Lemma map_opt_nth_error {A} (l : list A) : forall k, (k <= length l)%nat ->
  map_opt (nth_error l) (seq 0 k) = Some (firstn k l).
Proof.
  induction l as [|x l IH]; intros k Hk.
  - cbn in Hk. assert (k = 0%nat) by lia. subst. reflexivity.
  - destruct k as [|k]; [reflexivity|]. cbn [seq map_opt nth_error firstn].
    cbn [length] in Hk. specialize (IH k ltac:(lia)).
    rewrite <- seq_shift.
    assert (E : forall s, map_opt (nth_error (x :: l)) (map S s) = map_opt (nth_error l) s).
    { induction s as [|i s IHs]; cbn [map map_opt nth_error]; [reflexivity|]. rewrite IHs. reflexivity. }
    rewrite E, IH. reflexivity.
Qed.

Lemma map_opt_compose {A B C} (f : A -> option B) (g : B -> option C) (l : list A) (lb : list B) :
  map_opt f l = Some lb ->
  map_opt (fun a => match f a with Some b => g b | None => None end) l = map_opt g lb.
Proof.
  revert lb; induction l as [|a l IH]; intros lb H; cbn [map_opt] in *.
  - inversion H. reflexivity.
  - destruct (f a) as [b|]; [|discriminate]. destruct (map_opt f l) as [bs|]; [|discriminate].
    inversion H; subst. cbn [map_opt]. rewrite (IH bs eq_refl). reflexivity.
Qed.

Lemma view_itemsize_seq k : forall s,
  view_itemsize (map (fun c => 8 * Z.of_nat c) (seq s k))
  = if (k =? 0)%nat then 0 else 8 * Z.of_nat (s + k).
Proof.
  induction k as [|k IH]; intros s; [reflexivity|].
  cbn [seq map]. unfold view_itemsize in *. cbn [fold_right]. rewrite IH.
  destruct k; cbn [Nat.eqb]; lia.
Qed.


Lemma lp_of_params_first names nsp v a x :
  NoDup (dt_names names nsp v) -> lp_of names nsp v a x -> params_first names x.
Proof.
  intros Hnd (Hn & Hk & _). constructor.
  - exists (if nsp then ns_names v else []). split; assumption.
  - exists (if nsp then ns_kinds v else []). exact Hk.
Qed.

Section View.
Variables (names : list string) (x : sarr).
Hypothesis Hpf : params_first names x.

Lemma offsets_prefix :
  firstn (length names) (offsets (s_kinds x)) = map (fun c => 8 * Z.of_nat c) (seq 0 (length names)).
Proof.
  destruct (pf_kinds _ _ Hpf) as [restk Hk]. rewrite Hk. unfold offsets.
  rewrite offsets_from_repeat.
  rewrite firstn_app, map_length, seq_length, Nat.sub_diag, firstn_O, app_nil_r.
  rewrite firstn_all2 by (rewrite map_length, seq_length; lia).
  apply map_ext. intros c. lia.
Qed.

Lemma offsets_length : (length names <= length (offsets (s_kinds x)))%nat.
Proof.
  destruct (pf_kinds _ _ Hpf) as [restk Hk]. rewrite Hk. unfold offsets.
  rewrite offsets_from_repeat, app_length, map_length, seq_length. lia.
Qed.

Lemma view_dtype_prefix :
  view_dtype x names = Some (map (fun c => 8 * Z.of_nat c) (seq 0 (length names))).
Proof.
  destruct (pf_names _ _ Hpf) as [rest [Hn Hnd]].
  unfold view_dtype, field_offset. rewrite Hn.
  rewrite (map_opt_compose _ (nth_error (offsets (s_kinds x))) names _ (map_opt_index0 names rest Hnd)).
  rewrite (map_opt_nth_error _ _ offsets_length). rewrite offsets_prefix. reflexivity.
Qed.

Lemma view_ok_prefix : view_ok (map (fun c => 8 * Z.of_nat c) (seq 0 (length names))) = true.
Proof.
  unfold view_ok. rewrite view_itemsize_seq, map_length, seq_length.
  destruct (length names); cbn [Nat.eqb]; apply Z.eqb_eq; lia.
Qed.

(* the address computed by the view for element (r, c) is the address of field names[c] of row r *)
Lemma field_offset_param c : (c < length names)%nat ->
  field_offset x (nth c names EmptyString) = Some (8 * Z.of_nat c).
Proof.
  intros Hc. pose proof view_dtype_prefix as H. unfold view_dtype in H.
  assert (G : forall (l : list string) (offs : list Z) k, map_opt (field_offset x) l = Some offs ->
              (k < length l)%nat -> field_offset x (nth k l EmptyString) = Some (nth k offs 0)).
  { induction l as [|n l IH]; intros offs k E Hk; cbn [length] in Hk; [lia|].
    cbn [map_opt] in E. destruct (field_offset x n) as [o|] eqn:Eo; [|discriminate].
    destruct (map_opt (field_offset x) l) as [os|] eqn:Eos; [|discriminate].
    inversion E; subst. destruct k; cbn [nth]; [exact Eo|]. apply IH; [reflexivity|lia]. }
  rewrite (G names _ c H Hc). f_equal.
  rewrite (nth_indep _ 0 (8 * Z.of_nat 0)) by (rewrite map_length, seq_length; exact Hc).
  rewrite (map_nth (fun c => 8 * Z.of_nat c)), seq_nth by exact Hc. reflexivity.
Qed.

Lemma view_zero_copy base stride r c : (c < length names)%nat ->
  exists off, field_offset x (nth c names EmptyString) = Some off
              /\ view_addr base stride r c = elem_addr base stride r off.
Proof.
  intros Hc. exists (8 * Z.of_nat c). split; [apply field_offset_param; exact Hc|reflexivity].
Qed.
End View.

(* reading the f8 at byte 8 c of a row whose first k fields are f8 *)
Lemma read_at_prefix k : forall o restk (row : list val) c,
  (c < k)%nat -> (k <= length row)%nat ->
  read_at (offsets_from o (repeat F8 k ++ restk)) (repeat F8 k ++ restk) row (o + 8 * Z.of_nat c)
  = Some (nth c row vnan).
Proof.
  induction k as [|k IH]; intros o restk row c Hc Hk; [lia|].
  destruct row as [|v0 row]; [cbn in Hk; lia|].
  cbn [repeat app offsets_from read_at ksize].
  destruct c as [|c].
  - replace (o + 8 * Z.of_nat 0) with o by lia. rewrite Z.eqb_refl. reflexivity.
  - assert (E : (o =? o + 8 * Z.of_nat (S c)) = false) by (apply Z.eqb_neq; lia). rewrite E.
    replace (o + 8 * Z.of_nat (S c)) with ((o + 8) + 8 * Z.of_nat c) by lia.
    cbn [nth]. apply IH; [lia|cbn [length] in Hk; lia].
Qed.

Lemma view_values_ok names nsp v a x :
  NoDup (dt_names names nsp v) -> wf_rows names a -> lp_of names nsp v a x ->
  unstructured_view x names = Ok a.
Proof.
  intros Hnd Hwf Hlp. pose proof (lp_of_params_first _ _ _ _ _ Hnd Hlp) as Hpf.
  unfold unstructured_view. rewrite (view_dtype_prefix names x Hpf).
  unfold view_values. rewrite (view_ok_prefix names), map_length, seq_length.
  destruct Hlp as (_ & Hk & Hr). rewrite Hr, Hk. unfold dt_kinds, offsets.
  assert (G : forall rows, Forall (fun r => length r = length names) rows ->
     map_opt (fun r => map_opt (fun c => read_at (offsets_from 0 (repeat F8 (length names) ++ (if nsp then ns_kinds v else [])))
                                              (repeat F8 (length names) ++ (if nsp then ns_kinds v else [])) r (8 * Z.of_nat c))
                               (seq 0 (length names)))
             (map (fun r => r ++ tail_defs nsp v) rows) = Some rows).
  { induction 1 as [|r rows Hr0 _ IH]; cbn [map map_opt]; [reflexivity|]. rewrite IH.
    assert (E : map_opt (fun c => read_at (offsets_from 0 (repeat F8 (length names) ++ (if nsp then ns_kinds v else [])))
                                  (repeat F8 (length names) ++ (if nsp then ns_kinds v else []))
                                  (r ++ tail_defs nsp v) (8 * Z.of_nat c)) (seq 0 (length names)) = Some r).
    { assert (F : forall s, (forall c, In c s -> (c < length names)%nat) ->
                map_opt (fun c => read_at (offsets_from 0 (repeat F8 (length names) ++ (if nsp then ns_kinds v else [])))
                                  (repeat F8 (length names) ++ (if nsp then ns_kinds v else []))
                                  (r ++ tail_defs nsp v) (8 * Z.of_nat c)) s
                = Some (map (fun c => nth c (r ++ tail_defs nsp v) vnan) s)).
      { induction s as [|c s IHs]; intros Hs; cbn [map map_opt]; [reflexivity|].
        rewrite IHs by (intros c' Hc'; apply Hs; right; exact Hc').
        replace (8 * Z.of_nat c) with (0 + 8 * Z.of_nat c) by lia.
        rewrite read_at_prefix; [reflexivity|apply Hs; left; reflexivity|rewrite app_length; lia]. }
      rewrite F by (intros c Hc; apply in_seq in Hc; lia).
      rewrite <- Hr0. rewrite pick_all. reflexivity. }
    rewrite E. reflexivity. }
  rewrite (G a Hwf). reflexivity.
Qed.

(* the offsets of the parameter fields do not depend on the registry: a view dtype cached by
   Model._view_dtype under one registry state addresses arrays built under any other *)
Lemma view_dtype_registry_independent names nsp1 v1 a1 x1 nsp2 v2 a2 x2 :
  NoDup (dt_names names nsp1 v1) -> NoDup (dt_names names nsp2 v2) ->
  lp_of names nsp1 v1 a1 x1 -> lp_of names nsp2 v2 a2 x2 ->
  view_dtype x1 names = view_dtype x2 names.
Proof.
  intros N1 N2 L1 L2.
  rewrite (view_dtype_prefix names x1 (lp_of_params_first _ _ _ _ _ N1 L1)).
  rewrite (view_dtype_prefix names x2 (lp_of_params_first _ _ _ _ _ N2 L2)). reflexivity.
Qed.

Lemma itemsize_lp names v :
  itemsize (dt_kinds names true v) = 8 * Z.of_nat (length names) + itemsize (ns_kinds v).
Proof. unfold dt_kinds. rewrite itemsize_app, itemsize_repeat. reflexivity. Qed.

(* ====================================================================== *)
(* 4. Assembled statements                                                 *)
(* ====================================================================== *)
Lemma lp_of_unique names nsp v a x x' : lp_of names nsp v a x -> lp_of names nsp v a x' -> x = x'.
Proof.
  intros (A1 & A2 & A3) (B1 & B2 & B3). destruct x, x'. cbn in *. congruence.
Qed.

Lemma wf_cols names a : wf_rows names a ->
  Forall (fun c => length c = length a) (columns (length names) a)
  /\ length (columns (length names) a) = length names.
Proof.
  intros _. unfold columns. split.
  - apply Forall_forall. intros c Hc. apply in_map_iff in Hc. destruct Hc as [i [E _]]. subst.
    unfold col_at. apply map_length.
  - rewrite map_length, seq_length. reflexivity.
Qed.

Section Assembled.
Variables (names : list string) (nsp : bool) (v : nsview).
Hypothesis Hal : aligned v = true.
Hypothesis Hnd : NoDup (dt_names names nsp v).
Hypothesis Hne : names <> [].

Theorem roundtrip_array a : wf_rows names a ->
  exists x, np_to_lp a names nsp v = Ok x /\ lp_of names nsp v a x
            /\ lp_to_array x names = Ok a
            /\ (forall y, lp_of names nsp v a y -> np_to_lp a names nsp v = Ok y).
Proof.
  intros Hwf. destruct (np_to_lp_ok names nsp v Hal Hnd a Hne Hwf) as [x [H1 H2]].
  exists x. split; [exact H1|]. split; [exact H2|]. split.
  - exact (lp_to_array_ok names nsp v Hnd a x Hwf H2).
  - intros y Hy. rewrite H1. f_equal. exact (lp_of_unique _ _ _ _ _ _ H2 Hy).
Qed.

Theorem roundtrip_frame a : wf_rows names a ->
  exists x, df_to_lp (names, a) nsp v = Ok x /\ lp_of names nsp v a x
            /\ lp_to_df x names = Ok (names, a).
Proof.
  intros Hwf. destruct (df_to_lp_ok names nsp v Hal Hnd a Hwf) as [x [H1 H2]].
  exists x. split; [exact H1|]. split; [exact H2|]. exact (lp_to_df_ok names nsp v Hnd a x Hwf H2).
Qed.

Theorem roundtrip_point ps : ps <> [] -> length ps = length names ->
  exists x, params_to_lp ps names nsp v = Ok x /\ lp_of names nsp v [ps] x
            /\ lp_to_array x names = Ok [ps].
Proof.
  intros Hp Hl. destruct (params_to_lp_ok names nsp v Hal Hnd ps Hp Hl) as [x [H1 H2]].
  exists x. split; [exact H1|]. split; [exact H2|].
  apply (lp_to_array_ok names nsp v Hnd [ps] x); [|exact H2]. constructor; [exact Hl|constructor].
Qed.

Theorem roundtrip_dict (lenient : bool) cols N :
  length cols = length names -> Forall (fun c => length c = N) cols ->
  (lenient = true \/ N <> 1%nat) ->
  exists x, dict_to_lp lenient (combine names (map DSeq cols)) nsp v = Ok x
            /\ lp_of names nsp v (rows_of_cols N cols) x
            /\ lp_to_dict x names = Ok (combine names cols).
Proof.
  intros Hl Hc Hcase.
  destruct (dict_seq_ok names nsp v Hal Hnd lenient cols N Hne Hl Hc Hcase) as [x [H1 H2]].
  exists x. split; [exact H1|]. split; [exact H2|].
  assert (Hwf : wf_rows names (rows_of_cols N cols)).
  { unfold wf_rows. rewrite <- Hl. apply rows_of_cols_wf. }
  rewrite (lp_to_dict_ok names nsp v Hnd _ x Hwf H2). unfold columns.
  rewrite <- Hl, (transpose_cols N cols Hc). reflexivity.
Qed.

Theorem roundtrip_dict_scalars (lenient : bool) ps : length ps = length names ->
  exists x, dict_to_lp lenient (combine names (map DScalar ps)) nsp v = Ok x
            /\ lp_of names nsp v [ps] x
            /\ lp_to_dict x names = Ok (combine names (map (fun p => [p]) ps)).
Proof.
  intros Hl. destruct (dict_scalar_ok names nsp v Hal Hnd lenient ps Hne Hl) as [x [H1 H2]].
  exists x. split; [exact H1|]. split; [exact H2|].
  assert (Hwf : wf_rows names [ps]) by (constructor; [exact Hl|constructor]).
  rewrite (lp_to_dict_ok names nsp v Hnd _ x Hwf H2). do 2 f_equal.
  unfold columns, col_at. cbn [map]. rewrite <- Hl.
  etransitivity; [|apply (f_equal (map (fun p => [p])) (pick_all0 vnan ps))].
  rewrite map_map. reflexivity.
Qed.

(* array, frame and dictionary inputs holding the same data give the same live points *)
Theorem converters_agree (lenient : bool) a : wf_rows names a ->
  (lenient = true \/ length a <> 1%nat) ->
  exists x, np_to_lp a names nsp v = Ok x
            /\ df_to_lp (names, a) nsp v = Ok x
            /\ dict_to_lp lenient (combine names (map DSeq (columns (length names) a))) nsp v = Ok x
            /\ (forall r, a = [r] -> params_to_lp r names nsp v = Ok x
                                  /\ dict_to_lp lenient (combine names (map DScalar r)) nsp v = Ok x).
Proof.
  intros Hwf Hcase.
  destruct (np_to_lp_ok names nsp v Hal Hnd a Hne Hwf) as [x [H1 H2]]. exists x.
  split; [exact H1|]. split; [|split].
  - destruct (df_to_lp_ok names nsp v Hal Hnd a Hwf) as [y [G1 G2]].
    rewrite G1. f_equal. exact (lp_of_unique _ _ _ _ _ _ G2 H2).
  - destruct (wf_cols names a Hwf) as [C1 C2].
    destruct (dict_seq_ok names nsp v Hal Hnd lenient _ (length a) Hne C2 C1 Hcase) as [y [G1 G2]].
    rewrite G1. f_equal. unfold columns in G2. rewrite (transpose_rows (length names) a Hwf) in G2.
    exact (lp_of_unique _ _ _ _ _ _ G2 H2).
  - intros r E. subst a. inversion Hwf; subst.
    assert (Hr : r <> []) by (intros E; subst; destruct names; [contradiction|discriminate]).
    split.
    + destruct (params_to_lp_ok names nsp v Hal Hnd r Hr H3) as [y [G1 G2]].
      rewrite G1. f_equal. exact (lp_of_unique _ _ _ _ _ _ G2 H2).
    + destruct (dict_scalar_ok names nsp v Hal Hnd lenient r Hne H3) as [y [G1 G2]].
      rewrite G1. f_equal. exact (lp_of_unique _ _ _ _ _ _ G2 H2).
Qed.

Theorem view_values a x : wf_rows names a -> lp_of names nsp v a x ->
  unstructured_view x names = Ok a /\ lp_to_array x names = Ok a.
Proof.
  intros Hwf H. split; [exact (view_values_ok names nsp v a x Hnd Hwf H)|].
  exact (lp_to_array_ok names nsp v Hnd a x Hwf H).
Qed.
End Assembled.

(* names, order and defaults of every live-point array built after any registry history *)
Theorem defaults_after_history sk (Hok : cfg_ok sk = true) ops names a x :
  let v := view_of sk (run sk ops reg0) in
  let e := spec_run sk ops [] in
  lp_of names true v a x ->
  s_names x = names ++ core_names ++ map fst e
  /\ s_kinds x = repeat F8 (length names) ++ core_kinds ++ repeat F8 (length e)
  /\ s_rows x = map (fun r => r ++ core_defs ++ map snd e) a
  /\ aligned v = true.
Proof.
  intros v e (H1 & H2 & H3).
  destruct (cfg_ok_sound sk Hok ops) as (V1 & V2 & V3 & _ & V5).
  unfold dt_names, dt_kinds, tail_defs in *. subst v. cbn [view_of ns_names ns_kinds ns_defs] in *.
  fold e in V1, V2, V3. rewrite V1 in H1. rewrite V3 in H2. rewrite V2 in H3. auto.
Qed.

Lemma itemsize_after_history sk (Hok : cfg_ok sk = true) ops names :
  itemsize (dt_kinds names true (view_of sk (run sk ops reg0)))
  = 8 * Z.of_nat (length names) + 8 + 8 + 4 + 8 * Z.of_nat (length (spec_run sk ops [])).
Proof.
  rewrite itemsize_lp. destruct (cfg_ok_sound sk Hok ops) as (_ & _ & V3 & _).
  cbn [view_of ns_kinds]. rewrite V3, itemsize_app, itemsize_repeat. unfold core_kinds. cbn [itemsize ksize]. lia.
Qed.

(* today's dict_to_live_points rejects the dictionary that live_points_to_dict returns for a
   one-point array (numpy >= 2: a length-1 array inside the row tuple is not a scalar) *)
Lemma dict_one_point_witness :
  let v := view_of cfg_today reg0 in
  let names := ["x"]%string in
  exists x d, np_to_lp [[VF 0]] names true v = Ok x
              /\ lp_to_dict x names = Ok d
              /\ dict_to_lp false (map (fun p => (fst p, DSeq (snd p))) d) true v = Err
              /\ dict_to_lp true (map (fun p => (fst p, DSeq (snd p))) d) true v = Ok x.
Proof. vm_compute. eexists. eexists. repeat split. Qed.

(* ====================================================================== *)
(* 5. Reading BY NAME: `names` in any order, any subset                    *)
(* ====================================================================== *)
Local Close Scope Z_scope.

Lemma index_of_nth (n : string) (l : list string) : forall i,
  index_of n l = Some i -> nth i l EmptyString = n /\ i < length l.
Proof.
  induction l as [|x l IH]; intros i H; cbn [index_of] in H; [discriminate|].
  destruct (String.eqb_spec n x) as [E|E].
  - inversion H; subst. cbn. split; [reflexivity|lia].
  - destruct (index_of n l) as [j|] eqn:Ej; [|discriminate]. inversion H; subst.
    destruct (IH j eq_refl) as [A B]. cbn [nth length]. split; [exact A|lia].
Qed.

Lemma index_of_in (n : string) (l : list string) : In n l -> exists i, index_of n l = Some i.
Proof.
  induction l as [|x l IH]; intros H; [destruct H|]. cbn [index_of].
  destruct (String.eqb_spec n x) as [E|E]; [eexists; reflexivity|].
  destruct H as [H|H]; [subst; contradiction|]. destruct (IH H) as [i Hi]. rewrite Hi. eexists; reflexivity.
Qed.

Lemma index_of_app_l (n : string) (l rest : list string) : In n l -> index_of n (l ++ rest) = index_of n l.
Proof.
  induction l as [|x l IH]; intros H; [destruct H|]. cbn [app index_of].
  destruct (String.eqb_spec n x) as [E|E]; [reflexivity|].
  destruct H as [H|H]; [subst; contradiction|]. rewrite (IH H). reflexivity.
Qed.

Lemma map_opt_all {A B} (f : A -> option B) (l : list A) :
  (forall a, In a l -> exists b, f a = Some b) ->
  exists bs, map_opt f l = Some bs /\ Forall2 (fun a b => f a = Some b) l bs.
Proof.
  induction l as [|a l IH]; intros H.
  - exists []. split; [reflexivity|constructor].
  - destruct (H a (or_introl eq_refl)) as [b Hb].
    destruct (IH (fun x Hx => H x (or_intror Hx))) as [bs [E F]].
    exists (b :: bs). cbn [map_opt]. rewrite Hb, E. split; [reflexivity|constructor; assumption].
Qed.

(* any structured array, any list of existing field names in any order: column j of the result is
   the column stored under names[j] *)
Theorem to_array_by_name (x : sarr) (qn : list string) :
  (forall n, In n qn -> In n (s_names x)) ->
  exists idx, lp_to_array x qn = Ok (map (fun r => map (fun i => nth i r vnan) idx) (s_rows x))
              /\ lp_to_dict x qn = Ok (combine qn (map (fun i => col_at i (s_rows x)) idx))
              /\ Forall2 (fun n i => nth i (s_names x) EmptyString = n /\ i < length (s_names x)) qn idx.
Proof.
  intros H.
  destruct (map_opt_all (fun n => index_of n (s_names x)) qn (fun n Hn => index_of_in n _ (H n Hn))) as [idx [E F]].
  exists idx. unfold lp_to_array, lp_to_dict. rewrite E. repeat split.
  clear -F. induction F as [|n i qn idx Hi _ IH]; constructor; [apply index_of_nth; exact Hi|exact IH].
Qed.

(* for live points holding the data a: reading the parameters back under ANY order / subset of
   their names gives, in column j, the data column of names[j] *)
Theorem roundtrip_by_name names nsp v a x (qn : list string) :
  NoDup (dt_names names nsp v) -> wf_rows names a -> lp_of names nsp v a x ->
  (forall n, In n qn -> In n names) ->
  lp_to_array x qn
  = Ok (map (fun r => map (fun n => match index_of n names with Some i => nth i r vnan | None => vnan end) qn) a).
Proof.
  intros Hnd Hwf (Hn & _ & Hr) Hq. unfold lp_to_array. rewrite Hn. unfold dt_names.
  destruct (map_opt_all (fun n => index_of n names) qn (fun n Hn' => index_of_in n _ (Hq n Hn'))) as [idx [E F]].
  assert (E' : map_opt (fun n => index_of n (names ++ (if nsp then ns_names v else []))) qn = Some idx).
  { rewrite <- E. clear -Hq. induction qn as [|n qn IH]; cbn [map_opt]; [reflexivity|].
    rewrite (index_of_app_l n names _ (Hq n (or_introl eq_refl))).
    rewrite (IH (fun m Hm => Hq m (or_intror Hm))). reflexivity. }
  rewrite E', Hr, map_map. f_equal. apply map_ext_in. intros r Hr'.
  unfold wf_rows in Hwf. rewrite Forall_forall in Hwf. specialize (Hwf r Hr').
  clear -F Hwf. induction F as [|n i qn idx Hi _ IH]; cbn [map]; [reflexivity|].
  rewrite Hi, IH. f_equal. apply app_nth1. rewrite Hwf. apply (index_of_nth n names i Hi).
Qed.

(* ---- empty_structured_array with a caller-supplied dtype: defaults go BY NAME ---------------- *)
Lemma assoc_def_in (k : string) (d : val) : forall names defs,
  NoDup names -> In (k, d) (combine names defs) -> assoc_def k names defs = Some d.
Proof.
  induction names as [|n names IH]; intros defs Hnd Hin; [destruct Hin|].
  destruct defs as [|d0 defs]; [destruct Hin|]. cbn [combine] in Hin. cbn [assoc_def].
  inversion Hnd; subst. destruct (String.eqb_spec k n) as [E|E].
  - subst. destruct Hin as [Hin|Hin]; [inversion Hin; reflexivity|].
    exfalso. apply H1. apply (in_combine_l _ _ _ _ Hin).
  - destruct Hin as [Hin|Hin]; [inversion Hin; subst; contradiction|]. apply IH; assumption.
Qed.

Lemma assoc_def_notin (k : string) : forall names defs, ~ In k names -> assoc_def k names defs = None.
Proof.
  induction names as [|n names IH]; intros defs Hn; [reflexivity|]. destruct defs as [|d0 defs]; [reflexivity|].
  cbn [assoc_def]. destruct (String.eqb_spec k n) as [E|E]; [subst; exfalso; apply Hn; left; reflexivity|].
  apply IH. intros H. apply Hn. right. exact H.
Qed.

Theorem empty_dtype_by_name (n : nat) (fields : list (string * kind)) (v : nsview) :
  aligned v = true -> NoDup (map fst fields) -> NoDup (ns_names v) ->
  (forall k, In k (ns_names v) -> In k (map fst fields)) ->
  empty_sa_dtype n fields v
  = Ok {| s_names := map fst fields; s_kinds := map snd fields;
          s_rows := repeat (map (fun f => field_default v (fst f)) fields) n |}
  /\ (forall k d, In (k, d) (combine (ns_names v) (ns_defs v)) -> field_default v k = d)
  /\ (forall k, ~ In k (ns_names v) -> field_default v k = ns_fill v).
Proof.
  intros Hal Hnd Hns Hall. split; [|split].
  - unfold empty_sa_dtype. rewrite Hal. apply nodupb_NoDup in Hnd. rewrite Hnd.
    assert (E : forallb (fun nm => mem nm (map fst fields)) (ns_names v) = true).
    { apply forallb_forall. intros k Hk. apply mem_In. apply Hall. exact Hk. }
    rewrite E, orb_true_r. reflexivity.
  - intros k d Hin. unfold field_default. rewrite (assoc_def_in k d _ _ Hns Hin). reflexivity.
  - intros k Hk. unfold field_default. rewrite (assoc_def_notin k _ _ Hk). reflexivity.
Qed.

(* with the dtype get_dtype builds (parameters, core, extras in registration order) the by-name filling
   is the positional default row of empty_structured_array(n, names) *)
Lemma map_assoc_self : forall names defs fill, NoDup names -> length names = length defs ->
  map (fun k => match assoc_def k names defs with Some d => d | None => fill end) names = defs.
Proof.
  induction names as [|n names IH]; intros defs fill Hnd Hl; destruct defs as [|d defs]; try discriminate; [reflexivity|].
  inversion Hnd; subst. cbn [map assoc_def]. rewrite String.eqb_refl. f_equal.
  etransitivity; [|apply (IH defs fill H2); cbn in Hl; lia].
  apply map_ext_in. intros k Hk. destruct (String.eqb_spec k n) as [E|E]; [subst; contradiction|reflexivity].
Qed.

Lemma NoDup_app_r {A} (a b : list A) : NoDup (a ++ b) -> NoDup b.
Proof. induction a as [|x a IH]; cbn [app]; intros H; [exact H|]. inversion H; subst. apply IH. assumption. Qed.

Theorem empty_dtype_standard_order n names v :
  aligned v = true -> NoDup (dt_names names true v) ->
  empty_sa_dtype n (combine (dt_names names true v) (dt_kinds names true v)) v = empty_sa n names true v.
Proof.
  intros Hal Hnd. pose proof Hal as Hal'. unfold aligned in Hal'. apply andb_true_iff in Hal'.
  destruct Hal' as [L1 L2]. apply Nat.eqb_eq in L1, L2.
  assert (Hlen : length (dt_names names true v) = length (dt_kinds names true v)).
  { unfold dt_names, dt_kinds. rewrite !app_length, repeat_length. lia. }
  unfold dt_names in Hnd. pose proof (NoDup_app_r _ _ Hnd) as Hns.
  unfold empty_sa_dtype, empty_sa, mk_arr. rewrite Hal, (map_fst_combine _ _ Hlen), (map_snd_combine _ _ Hlen).
  pose proof Hnd as Hb. apply nodupb_NoDup in Hb. fold (dt_names names true v) in Hb. rewrite Hb.
  assert (E : forallb (fun nm => mem nm (dt_names names true v)) (ns_names v) = true).
  { apply forallb_forall. intros k Hk. apply mem_In. unfold dt_names. apply in_app_iff. right. exact Hk. }
  rewrite E, orb_true_r. cbn [andb]. do 2 f_equal. unfold default_row, tail_defs.
  rewrite <- (map_map fst (field_default v)), (map_fst_combine _ _ Hlen). unfold dt_names. rewrite map_app.
  assert (A : map (field_default v) names = repeat (ns_fill v) (length names)).
  { clear -Hnd. induction names as [|k names IH]; cbn [map length repeat]; [reflexivity|].
    cbn [app] in Hnd. inversion Hnd; subst. f_equal; [|apply IH; assumption].
    unfold field_default. rewrite assoc_def_notin; [reflexivity|]. intros Hin. apply H1. apply in_app_iff. right. exact Hin. }
  assert (B : map (field_default v) (ns_names v) = ns_defs v).
  { unfold field_default. apply map_assoc_self; [exact Hns|lia]. }
  rewrite A, B. reflexivity.
Qed.

(* the default names=None: all fields, in storage order (the only change is the int32 -> float64 cast) *)
Theorem to_array_all_fields (x : sarr) :
  NoDup (s_names x) -> Forall (fun r => length r = length (s_names x)) (s_rows x) ->
  lp_to_array x (s_names x) = Ok (s_rows x)
  /\ lp_to_array_all x = Ok (map (map to_f8) (s_rows x))
  /\ lp_to_dict x (s_names x) = Ok (combine (s_names x) (map (fun i => col_at i (s_rows x)) (seq 0 (length (s_names x))))).
Proof.
  intros Hnd Hw.
  pose proof (map_opt_index0 (s_names x) [] ) as E. rewrite app_nil_r in E. specialize (E Hnd).
  assert (A : lp_to_array x (s_names x) = Ok (s_rows x)).
  { unfold lp_to_array. rewrite E. f_equal. etransitivity; [|apply map_id]. apply map_ext_in. intros r Hr.
    rewrite Forall_forall in Hw. rewrite <- (Hw r Hr). apply pick_all0. }
  split; [exact A|]. split.
  - unfold lp_to_array_all. rewrite A. reflexivity.
  - unfold lp_to_dict. rewrite E. reflexivity.
Qed.
