(* C02 - model of the nested-sampling quadrature of nessai:
     nessai/evidence.py   _NSIntegralState.increment / finalise / log_posterior_weights,
                          log_integrate_log_trap, logsubexp
     nessai/posterior.py  compute_weights
   over Coq's reals, likelihoods in the LINEAR domain (L = exp logL, L = 0 for logL = -inf),
   volumes through their logarithms exactly as the code accumulates them.
   Definitions only (the interval twins at the end run with vm_compute); proofs are in
   Proofs/C02_Quadrature_proofs.v. *)
From Coq Require Import Reals ZArith List Bool.
From NessaiV Require Import Lib.Enclose.
Import ListNotations.
Local Open Scope R_scope.

(* ---- shrinkage ---------------------------------------------------------------- *)
Inductive mode := LogT | TT.            (* expectation="logt" : <log t> = -1/n ;  "t" : log <t> = -log(1+1/n) *)
Definition nR (n : positive) : R := IZR (Zpos n).
Definition logt (md : mode) (n : positive) : R :=
  match md with
  | LogT => - (1 / nR n)
  | TT => - ln (1 + 1 / nR n)
  end.

(* log_vols = [0, lt_1, lt_1 + lt_2, ...]  (np.cumsum / the running self.logw) *)
Fixpoint cumsum_from (acc : R) (l : list R) : list R :=
  match l with
  | [] => []
  | x :: r => (acc + x) :: cumsum_from (acc + x) r
  end.
Definition lvols (md : mode) (ns : list positive) : list R := 0 :: cumsum_from 0 (map (logt md) ns).
Definition vols (md : mode) (ns : list positive) : list R := map exp (lvols md ns).

(* ---- trapezoid over adjacent pairs (log_integrate_log_trap in the linear domain) -- *)
Fixpoint adj {A B} (op : A -> A -> B) (l : list A) : list B :=
  match l with
  | a :: r => match r with b :: _ => op a b :: adj op r | [] => [] end
  | [] => []
  end.
(* sum_k (f_k + f_{k+1}) / 2 * (x_k - x_{k+1}) *)
Definition trap (fs xs : list R) : R :=
  sum_R (map2 (fun s d => s / 2 * d) (adj Rplus fs) (adj Rminus xs)).

(* ---- one pass: posterior.compute_weights --------------------------------------- *)
(* likelihoods [-inf] ++ samples ++ [samples[-1]], volumes [1, X_1 .. X_m, 0] *)
Definition cw_L (ls : list xlog) : list R := map xexp (None :: ls ++ [last ls None]).
Definition cw_X (md : mode) (ns : list positive) : list R := vols md ns ++ [0].
Definition cw_Z (md : mode) (ls : list xlog) (ns : list positive) : R := trap (cw_L ls) (cw_X md ns).
(* X_{i-1} - X_i for i = 1..m  (logsubexp(log_vols[:-1], log_vols[1:])[:-1]: the closing interval is dropped) *)
Definition dX (md : mode) (ns : list positive) : list R := adj Rminus (vols md ns).
(* posterior weights in the linear domain: L_i (X_{i-1} - X_i) / Z  (rectangle weights, trapezoid Z) *)
Definition cw_w (md : mode) (ls : list xlog) (ns : list positive) : list R :=
  map2 (fun L dx => L * dx / cw_Z md ls ns) (map xexp ls) (dX md ns).
(* the rectangle-rule evidence accumulated during sampling *)
Definition Zrect (md : mode) (ls : list xlog) (ns : list positive) : R :=
  sum_R (map2 Rmult (map xexp ls) (dX md ns)).

(* the same quantities as the code returns them: logarithms, -inf as None *)
Definition cw_lnZ (md : mode) (ls : list xlog) (ns : list positive) : R := ln (cw_Z md ls ns).
Definition cw_lnw (md : mode) (ls : list xlog) (ns : list positive) : list xlog :=
  map2 (fun l dx => match l with None => None | Some x => Some (x + ln dx - cw_lnZ md ls ns) end)
       ls (dX md ns).

Fixpoint strict_dec (l : list R) : Prop :=
  match l with
  | a :: r => match r with b :: _ => b < a /\ strict_dec r | [] => True end
  | [] => True
  end.

(* int nlive:  nlive * ones ; [-nlive:] = arange(nlive, 0, -1)   (needs nlive <= len) *)
Fixpoint countdown (k : nat) : list positive :=
  match k with O => [] | S k' => Pos.of_succ_nat k' :: countdown k' end.
Definition cw_schedule (n : nat) (m : nat) : list positive :=
  repeat (Pos.of_nat n) (m - n) ++ countdown n.
(* NestedSampler: `iters` calls increment(logL) with the default nlive, then finalise():
   for i, p in enumerate(live_points): increment(p.logL, nlive = nlive - i) *)
Definition sampler_schedule (n : nat) (iters : nat) : list positive :=
  repeat (Pos.of_nat n) iters ++ map (fun i => Pos.of_nat (n - i)) (seq 0 n).

(* ---- the incremental state: _NSIntegralState ----------------------------------- *)
Record nsstate := {
  sZ : R;                 (* exp(logZ): rectangle rule so far *)
  slogw : R;              (* self.logw *)
  sLs : list xlog;        (* self.logLs without the initial -inf *)
  slv : list R            (* self.log_vols without the initial 0.0 *)
}.
Definition ns_init : nsstate := {| sZ := 0; slogw := 0; sLs := []; slv := [] |}.
Definition increment (md : mode) (s : nsstate) (ln : xlog * positive) : nsstate :=
  let lt := logt md (snd ln) in
  {| sZ := sZ s + exp (slogw s) * xexp (fst ln) * (1 - exp lt);   (* logaddexp(logZ, logw + logL + log1p(-exp(logt))) *)
     slogw := slogw s + lt;
     sLs := sLs s ++ [fst ln];
     slv := slv s ++ [slogw s + lt] |}.
Definition ns_run (md : mode) (ls : list xlog) (ns : list positive) : nsstate :=
  fold_left (increment md) (combine ls ns) ns_init.
Definition st_logLs (s : nsstate) : list xlog := None :: sLs s.
Definition st_log_vols (s : nsstate) : list R := 0 :: slv s.
(* finalise: log_integrate_log_trap(logLs + [logLs[-1]], log_vols + [-inf]) *)
Definition st_L (s : nsstate) : list R := map xexp (st_logLs s ++ [last (st_logLs s) None]).
Definition st_X (s : nsstate) : list R := map exp (st_log_vols s) ++ [0].
Definition st_Z (s : nsstate) : R := trap (st_L s) (st_X s).
Definition st_w (s : nsstate) : list R :=
  map2 (fun L dx => L * dx / st_Z s) (map xexp (sLs s)) (adj Rminus (map exp (st_log_vols s))).

(* ---- shifting all log-likelihoods by a constant ---------------------------------- *)
Definition shift (a : R) (l : xlog) : xlog := match l with None => None | Some x => Some (x + a) end.

(* ---- tie A: the expressions read from the source --------------------------------- *)
(* shrinkage expression over the live count n *)
Inductive sexp :=
| SN                         (* nlive / nlive_per_iteration *)
| SConst (z : Z)             (* 1, 1.0, -1.0 ... *)
| SNeg (a : sexp)
| SAdd (a b : sexp)
| SDiv (a b : sexp)
| SLog (a : sexp)
| SLog1p (a : sexp).
Fixpoint sden (e : sexp) (n : R) : R :=
  match e with
  | SN => n
  | SConst z => IZR z
  | SNeg a => - sden a n
  | SAdd a b => sden a n + sden b n
  | SDiv a b => sden a n / sden b n
  | SLog a => ln (sden a n)
  | SLog1p a => ln (1 + sden a n)
  end.
Definition is_one (e : sexp) : bool := match e with SConst 1 => true | _ => false end.
Definition is_inv_n (e : sexp) : bool :=                 (* 1 / n *)
  match e with SDiv a SN => is_one a | _ => false end.
(* accepted spellings of the two documented expectations *)
Definition shrink_ok (md : mode) (e : sexp) : bool :=
  match md, e with
  | LogT, SDiv (SConst (-1)) SN => true                          (* -1.0 / nlive *)
  | LogT, SDiv (SNeg (SConst 1)) SN => true
  | LogT, SNeg a => is_inv_n a                                    (* -(1 / nlive) *)
  | TT, SNeg (SLog1p a) => is_inv_n a                             (* -np.log1p(1 / nlive) *)
  | TT, SNeg (SLog (SAdd a b)) => is_one a && is_inv_n b          (* -np.log(1 + 1 / nlive) *)
  | TT, SLog (SDiv SN (SAdd SN b)) => is_one b                    (* np.log(nlive / (nlive + 1)) *)
  | _, _ => false
  end.
(* schedule expression of NestedSampler.finalise over nlive and the loop index i *)
Inductive zexp := ZNlive | ZI | ZConst (z : Z) | ZAdd (a b : zexp) | ZSub (a b : zexp).
Fixpoint zden (e : zexp) (n i : Z) : Z :=
  match e with
  | ZNlive => n | ZI => i | ZConst z => z
  | ZAdd a b => zden a n i + zden b n i
  | ZSub a b => zden a n i - zden b n i
  end%Z.
(* linear normal form (coefficient of nlive, coefficient of i, constant) *)
Fixpoint zlin (e : zexp) : Z * Z * Z :=
  match e with
  | ZNlive => (1, 0, 0) | ZI => (0, 1, 0) | ZConst z => (0, 0, z)
  | ZAdd a b => let '(a1, a2, a3) := zlin a in let '(b1, b2, b3) := zlin b in (a1 + b1, a2 + b2, a3 + b3)
  | ZSub a b => let '(a1, a2, a3) := zlin a in let '(b1, b2, b3) := zlin b in (a1 - b1, a2 - b2, a3 - b3)
  end%Z.
Definition sched_ok (e : zexp) : bool :=
  let '(a, b, c) := zlin e in ((a =? 1) && (b =? -1) && (c =? 0))%Z.
Definition final_schedule (e : zexp) (n : nat) : list Z :=
  map (fun i => zden e (Z.of_nat n) (Z.of_nat i)) (seq 0 n).

(* ---- tolerances (explicit; calibrated on the unchanged tree, see design.d/C02.md) --- *)
Definition u53 : R := dyR 1 (-53).                      (* unit round-off of float64 *)
Definition K_lv : Z := 256.                             (* log-volume i:  K_lv u i |lv_i|                      *)
Definition K_q : Z := 2048.                             (* log Z, log w:  K_q u (nmax (1 + |lv_m|) + max|logL| + m) *)
Definition nmaxZ (ns : list positive) : Z := fold_right (fun n a => Z.max (Zpos n) a) 1%Z ns.
Definition absmax (ls : list xlog) : R :=
  fold_right (fun l a => match l with None => a | Some x => Rmax (Rabs x) a end) 0 ls.
Definition tol_lv (i : nat) (lv : R) : R := IZR K_lv * u53 * (INR i * Rabs lv).
Definition tol_q (md : mode) (ls : list xlog) (ns : list positive) : R :=
  IZR K_q * u53 *
  (IZR (nmaxZ ns) * (1 + Rabs (last (lvols md ns) 0)) + absmax ls + INR (length ls)).

(* ================= interval twins (run with vm_compute) ============================ *)
Section Twins.
Variable p : prec.
Definition one_I := iZ p 1.
Definition logt_I (md : mode) (n : positive) : I.type :=
  match md with
  | LogT => I.neg (I.div p one_I (iZ p (Zpos n)))
  | TT => I.neg (I.ln p (I.add p one_I (I.div p one_I (iZ p (Zpos n)))))
  end.
Fixpoint cumsum_from_I (acc : I.type) (l : list I.type) : list I.type :=
  match l with
  | [] => []
  | x :: r => I.add p acc x :: cumsum_from_I (I.add p acc x) r
  end.
Definition lvols_I (md : mode) (ns : list positive) : list I.type :=
  iZ p 0 :: cumsum_from_I (iZ p 0) (map (logt_I md) ns).
Definition half_I := dy p 1 (-1).
Definition trap_I (fs xs : list I.type) : I.type :=
  sum_I p (map2 (fun s d => I.mul p (I.mul p s half_I) d) (adj (I.add p) fs) (adj (I.sub p) xs)).
(* from the already exponentiated likelihoods: [0] ++ Ls ++ [last Ls] *)
Definition cw_L_I (Ls : list I.type) : list I.type := iZ p 0 :: Ls ++ [last Ls (iZ p 0)].

Record qencl := {
  q_lv : list I.type;          (* log-volumes *)
  q_lnZrect : I.type;
  q_lnZ : I.type;
  q_lnw : list (option I.type);
  q_tol : I.type               (* enclosure of tol_q *)
}.
Definition absmax_I (ls : list (option I.type)) : I.type :=
  fold_right (fun l a => match l with None => a | Some x => max_I p (I.abs x) a end) (iZ p 0) ls.
Definition u53_I := dy p 1 (-53).
Definition tol_lv_I (i : nat) (lv : I.type) : I.type :=
  I.mul p (I.mul p (iZ p K_lv) u53_I) (I.mul p (iZ p (Z.of_nat i)) (I.abs lv)).
Definition quad_I (md : mode) (ls : list (option I.type)) (ns : list positive) : qencl :=
  let lv := lvols_I md ns in
  let E := map (I.exp p) lv in
  let X := E ++ [iZ p 0] in
  let dX := adj (I.sub p) E in
  let Ls := map (xexp_I p) ls in
  let lnZ := I.ln p (trap_I (cw_L_I Ls) X) in
  {| q_lv := lv;
     q_lnZrect := I.ln p (sum_I p (map2 (I.mul p) Ls dX));
     q_lnZ := lnZ;
     q_lnw := map2 (fun l dx => match l with None => None
                                | Some x => Some (I.sub p (I.add p x (I.ln p dx)) lnZ) end) ls dX;
     q_tol := I.mul p (I.mul p (iZ p K_q) u53_I)
                (I.add p (I.add p (I.mul p (iZ p (nmaxZ ns)) (I.add p one_I (I.abs (last lv (iZ p 0)))))
                                   (absmax_I ls))
                         (iZ p (Z.of_nat (length ls)))) |}.
End Twins.
