(* C05 - model of how the reported results are computed from the returned samples:
     nessai/evidence.py   _INSIntegralState.update_evidence / logZ / compute_uncertainty /
                          log_posterior_weights, log_evidence_from_ins_samples
                          _NSIntegralState.increment (the information estimate) / log_evidence_error
     result assembly      NestedSampler.get_result_dictionary, ImportanceNestedSampler.get_result_dictionary,
                          FlowSampler.run_standard_sampler / run_importance_nested_sampler
   The live-set / store parts reuse the models of C01, C02 and C03.  Definitions only. *)
From Coq Require Import Reals ZArith List Bool Arith.
From NessaiV Require Import Lib.Enclose Model.C02_Quadrature.
Import ListNotations.
Local Open Scope R_scope.

(* ---- importance nested sampler: evidence as the mean importance weight ----------------------- *)
(* ws_i = logL_i + logW_i  (xlog: None = -inf) *)
Definition ins_lnZ (ws : list xlog) : R := lse_R ws - ln (INR (length ws)).
Definition ins_lpw (ws : list xlog) : list xlog := map (fun w => xsub w (ins_lnZ ws)) ws.
(* compute_uncertainty(log_evidence=True), exactly as coded:
     Z_hat = exp(logZ); Z = exp(weights); u = sqrt(sum (Z - Z_hat)^2 / (n (n-1))); |u / Z_hat| *)
Definition ins_err (ws : list xlog) : R :=
  let n := INR (length ws) in
  let zh := exp (ins_lnZ ws) in
  Rabs (sqrt (sum_R (map (fun w => (xexp w - zh) * (xexp w - zh)) ws) / (n * (n - 1))) / zh).
(* the same number without any overflow: every term is relative to Z_hat *)
Definition ins_err_scaled (ws : list xlog) : R :=
  let n := INR (length ws) in
  sqrt (sum_R (map (fun w => (xexp (xsub w (ins_lnZ ws)) - 1) * (xexp (xsub w (ins_lnZ ws)) - 1)) ws) / (n * (n - 1))).

(* interval twins *)
Definition ins_lnZ_I (p : prec) (ws : list (option I.type)) : I.type :=
  I.sub p (lse_I p ws) (I.ln p (iZ p (Z.of_nat (length ws)))).
Definition ins_lpw_I (p : prec) (ws : list (option I.type)) : list (option I.type) :=
  map (fun w => xsub_I p w (ins_lnZ_I p ws)) ws.
Definition ins_err_I (p : prec) (ws : list (option I.type)) : I.type :=
  let n := iZ p (Z.of_nat (length ws)) in
  let lz := ins_lnZ_I p ws in
  I.sqrt p (I.div p (sum_I p (map (fun w => I.sqr p (I.sub p (xexp_I p (xsub_I p w lz)) (iZ p 1))) ws))
                  (I.mul p n (I.sub p n (iZ p 1)))).

(* ---- standard sampler: the information estimate of _NSIntegralState.increment ---------------- *)
(* state: rectangle evidence so far (linear), whether any finite log-likelihood has been seen
   (then and only then logZ is finite), logw, info[-1] *)
Record hstate := { hZ : R; hseen : bool; hlogw : R; hH : R }.
Definition h_init : hstate := {| hZ := 0; hseen := false; hlogw := 0; hH := 0 |}.
Definition h_incr (md : mode) (s : hstate) (ln_ : xlog * positive) : hstate :=
  let lt := logt md (snd ln_) in
  let W := exp (hlogw s) * xexp (fst ln_) * (1 - exp lt) in
  let Z' := hZ s + W in
  let H' := match fst ln_ with
            | Some l => if hseen s
                        then W / Z' * l + hZ s / Z' * (hH s + ln (hZ s)) - ln Z'
                        else hH s           (* oldZ = -inf: the code appends nothing *)
            | None => hH s                  (* logL = -inf: the code appends nothing *)
            end in
  {| hZ := Z'; hseen := hseen s || (match fst ln_ with Some _ => true | None => false end);
     hlogw := hlogw s + lt; hH := H' |}.
Definition h_run (md : mode) (ls : list xlog) (ns : list positive) : hstate :=
  fold_left (h_incr md) (combine ls ns) h_init.
(* log_evidence_error = sqrt(info[-1] / base_nlive) *)
Definition std_err (md : mode) (ls : list xlog) (ns : list positive) (nlive : positive) : R :=
  sqrt (hH (h_run md ls ns) / nR nlive).

(* the information the recurrence computes, in closed form: with k0 the first finite sample,
   H = sum_{i > k0} (W_i / Z) ln L_i + (W_k0 / Z) ln W_k0 - ln Z
   (C05_info_closed_form; the exact information has ln L_k0 in place of ln W_k0) *)

(* interval twin of the recurrence *)
Record hstate_I := { iZ_ : I.type; iseen : bool; ilogw : I.type; iH : I.type }.
Definition h_incr_I (p : prec) (md : mode) (s : hstate_I) (ln_ : option I.type * positive) : hstate_I :=
  let lt := logt_I p md (snd ln_) in
  let W := I.mul p (I.mul p (I.exp p (ilogw s)) (xexp_I p (fst ln_))) (I.sub p (iZ p 1) (I.exp p lt)) in
  let Z' := I.add p (iZ_ s) W in
  let H' := match fst ln_ with
            | Some l => if iseen s
                        then I.sub p (I.add p (I.mul p (I.div p W Z') l)
                                              (I.mul p (I.div p (iZ_ s) Z') (I.add p (iH s) (I.ln p (iZ_ s)))))
                                     (I.ln p Z')
                        else iH s
            | None => iH s
            end in
  {| iZ_ := Z'; iseen := iseen s || (match fst ln_ with Some _ => true | None => false end);
     ilogw := I.add p (ilogw s) lt; iH := H' |}.
Definition h_init_I (p : prec) : hstate_I := {| iZ_ := iZ p 0; iseen := false; ilogw := iZ p 0; iH := iZ p 0 |}.
Definition h_run_I (p : prec) (md : mode) (ls : list (option I.type)) (ns : list positive) : hstate_I :=
  fold_left (h_incr_I p md) (combine ls ns) (h_init_I p).
Definition std_err_I (p : prec) (md : mode) (ls : list (option I.type)) (ns : list positive) (nlive : positive) : I.type :=
  I.sqrt p (I.div p (iH (h_run_I p md ls ns)) (iZ p (Zpos nlive))).

(* ---- tie A: which store each reported quantity is read from --------------------------------- *)
(* The importance sampler keeps up to three stores; every reported quantity is read through a chain
   of properties that ends in one of them (or in None). *)
Inductive src := STrain | SIid | SRedraw | SNone.
Inductive cond := CHasRedraw | CHasIid | CDrawIid.     (* _final_samples is not None / iid_samples is not None / draw_iid_live *)
(* a property body:  if c1: return s1  elif c2: return s2 ... else: return s_else *)
Record chain := { c_branches : list (cond * src); c_else : src }.
Record cfg := { has_redraw : bool; has_iid : bool; draw_iid : bool }.
Definition cond_holds (k : cfg) (c : cond) : bool :=
  match c with CHasRedraw => has_redraw k | CHasIid => has_iid k | CDrawIid => draw_iid k end.
Fixpoint resolve_br (k : cfg) (bs : list (cond * src)) (e : src) : src :=
  match bs with
  | [] => e
  | (c, s) :: r => if cond_holds k c then s else resolve_br k r e
  end.
Definition resolve (k : cfg) (c : chain) : src := resolve_br k (c_branches c) (c_else c).
Definition src_eqb (a b : src) : bool :=
  match a, b with STrain, STrain | SIid, SIid | SRedraw, SRedraw | SNone, SNone => true | _, _ => false end.

(* the skeleton: the chain behind the result dictionary's samples / log_posterior_weights /
   log_evidence / log_evidence_error (the final_ properties), the chain behind FlowSampler._nested_samples / logZ /
   logZ_error without a redraw (main store) and with redraw_samples=True, and whether __init__
   creates iid_samples exactly when draw_iid_live is set *)
Record ins_fields := {
  f_dict : list chain;
  f_sampler : list chain;
  f_sampler_redraw : list chain;
  f_iid_iff_draw : bool
}.
Definition all_same (k : cfg) (cs : list chain) (s : src) : bool :=
  forallb (fun c => src_eqb (resolve k c) s) cs.
Definition all_cfgs : list cfg :=
  flat_map (fun a => flat_map (fun b => map (fun c => {| has_redraw := a; has_iid := b; draw_iid := c |})
                                            [false; true]) [false; true]) [false; true].
Definition reachable (f : ins_fields) (k : cfg) : bool :=
  if f_iid_iff_draw f then Bool.eqb (has_iid k) (draw_iid k) else true.
Definition cfg_ok (f : ins_fields) (k : cfg) : bool :=
  match f_dict f with
  | [] => false
  | c0 :: _ =>
      let s := resolve k c0 in
      negb (src_eqb s SNone) && all_same k (f_dict f) s
      && (if has_redraw k then all_same k (f_sampler_redraw f) s else all_same k (f_sampler f) s)
  end.
(* for every reachable configuration every reported quantity comes from one and the same, existing store *)
Definition fields_consistent (f : ins_fields) : bool :=
  forallb (fun k => negb (reachable f k) || cfg_ok f k) all_cfgs.
