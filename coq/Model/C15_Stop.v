(* C15 - model of the stopping logic of both samplers.

   NestedSampler.nested_sampling_loop / initialise / finalise / consume_sample (the condition),
   ImportanceNestedSampler.nested_sampling_loop / reached_tolerance / configure_stopping_criterion,
   over an ORACLE STREAM: one element per loop body (the condition / criterion values that the body
   produces).  Fuel = length of the stream; "out of fuel" is an explicit result that the theorems
   exclude in their statements.

   Floats enter as integer order keys (common.float_key, strictly monotone; +inf has a key).
   max_iteration = None (np.inf) is [None : option Z].

   The tests of the loops are NOT fixed here: a skeleton record carries them as functions of the
   variables they may read ([lvars]); translator/c15_loops.py regenerates those functions from the
   AST on every run and the predicates of Proofs/C15_Stop_proofs.v are re-proved for them.
   Definitions only. *)
From Coq Require Import String.
From Coq Require Import List ZArith Bool.
Import ListNotations.
Local Open Scope Z_scope.

(* ---- extended integers: None = +infinity (max_iteration=None) ------------------------------- *)
Definition xle (a b : option Z) : bool :=
  match a, b with
  | _, None => true
  | None, Some _ => false
  | Some x, Some y => x <=? y
  end.
Definition xlt (a b : option Z) : bool :=
  match a, b with
  | None, _ => false
  | Some _, None => true
  | Some x, Some y => x <? y
  end.

(* ---- what a loop test may read --------------------------------------------------------------- *)
Record lvars := {
  v_cond : Z;            (* self.condition                      (standard sampler)  *)
  v_tol : Z;             (* self.tolerance                      (standard sampler)  *)
  v_reached : bool;      (* self.reached_tolerance              (importance sampler) *)
  v_fin : bool;          (* self.finalised                                           *)
  v_it : Z;              (* self.iteration                                           *)
  v_min : Z;             (* self.min_iteration                  (importance sampler) *)
  v_cap : option Z       (* self.max_iteration, None = np.inf                        *)
}.
Definition test := lvars -> bool.

(* ---- the generic loop:   while not pre: body; if post: break ---------------------------------
   pre  = not (while-guard) or any `if ..: break` that precedes the body
   post = any `if ..: break` that follows the body
   Result: final state, number of bodies executed, out-of-fuel flag. *)
Section Loop.
Variables (St O : Type) (step : St -> O -> St) (pre post : St -> bool).

Fixpoint loop (st : St) (stream : list O) : St * nat * bool :=
  if pre st then (st, 0%nat, false) else
  match stream with
  | [] => (st, 0%nat, true)
  | o :: r => let st' := step st o in
              if post st' then (st', 1%nat, false)
              else let '(s, n, oof) := loop st' r in (s, S n, oof)
  end.

(* the state after k bodies (k <= length stream) *)
Fixpoint after (st : St) (stream : list O) (k : nat) : St :=
  match k, stream with
  | S k', o :: r => after (step st o) r k'
  | _, _ => st
  end.

(* would the loop stop once k bodies have been executed? *)
Definition stops_at (st : St) (stream : list O) (k : nat) : bool :=
  pre (after st stream k) || ((1 <=? k)%nat && post (after st stream k)).
End Loop.
Arguments loop {St O}.
Arguments after {St O}.
Arguments stops_at {St O}.

(* ---- finalise as an effect list (regenerated from NestedSampler.finalise) -------------------- *)
Inductive beff := BAppendNS | BOtherB.            (* inside `for p in self.live_points:`   *)
Inductive feff :=
| FForLive (body : list beff)                      (* for i, p in enumerate(self.live_points) *)
| FSetLiveNone                                     (* self.live_points = None               *)
| FSetFinalised                                    (* self.finalised = True                 *)
| FOtherF.                                         (* anything that touches none of ns / live / finalised *)

(* ---- standard sampler ------------------------------------------------------------------------ *)
Record sst := {
  s_cond : Z; s_it : Z; s_fin : bool;
  s_live : option (list Z);        (* ids of the live points, worst first; None after finalise   *)
  s_ns : list Z;                   (* ids of the nested samples                                   *)
  s_err : bool                     (* the real code would have raised (live points are None)      *)
}.
Record scfg := { sc_tol : Z; sc_cap : option Z; sc_prior : bool }.

Definition svars (cfg : scfg) (st : sst) : lvars :=
  {| v_cond := s_cond st; v_tol := sc_tol cfg; v_reached := false; v_fin := s_fin st;
     v_it := s_it st; v_min := 0; v_cap := sc_cap cfg |}.

(* consume_sample: oracle = (new condition, id of the replacement point) *)
Definition s_body (st : sst) (o : Z * Z) : sst :=
  match s_live st with
  | Some (w :: l) =>
      {| s_cond := fst o; s_it := s_it st + 1; s_fin := s_fin st; s_live := Some (l ++ [snd o]);
         s_ns := s_ns st ++ [w]; s_err := s_err st |}
  | Some [] =>
      {| s_cond := fst o; s_it := s_it st + 1; s_fin := s_fin st; s_live := Some [snd o];
         s_ns := s_ns st; s_err := s_err st |}
  | None =>
      {| s_cond := fst o; s_it := s_it st + 1; s_fin := s_fin st; s_live := None;
         s_ns := s_ns st; s_err := true |}
  end.

Definition app_body (body : list beff) (ns : list Z) (p : Z) : list Z :=
  fold_left (fun acc b => match b with BAppendNS => acc ++ [p] | BOtherB => acc end) body ns.
Definition do_feff (st : sst) (e : feff) : sst :=
  match e with
  | FForLive body =>
      match s_live st with
      | None => {| s_cond := s_cond st; s_it := s_it st; s_fin := s_fin st; s_live := None;
                   s_ns := s_ns st; s_err := true |}
      | Some l => {| s_cond := s_cond st; s_it := s_it st; s_fin := s_fin st; s_live := Some l;
                     s_ns := fold_left (app_body body) l (s_ns st); s_err := s_err st |}
      end
  | FSetLiveNone => {| s_cond := s_cond st; s_it := s_it st; s_fin := s_fin st; s_live := None;
                       s_ns := s_ns st; s_err := s_err st |}
  | FSetFinalised => {| s_cond := s_cond st; s_it := s_it st; s_fin := true; s_live := s_live st;
                        s_ns := s_ns st; s_err := s_err st |}
  | FOtherF => st
  end.
Definition finalise (effs : list feff) (st : sst) : sst := fold_left do_feff effs st.

Record sskel := {
  k_spre : test;          (* not (while guard)  or  a break test before consume_sample           *)
  k_spost : test;         (* a break test after consume_sample                                     *)
  k_sentry : test;        (* `if self.finalised: return` at the top of nested_sampling_loop        *)
  k_sfin : test;          (* the guard of self.finalise() after the loop                           *)
  k_sinit : test;         (* initialise: the guard of `self.finalised = False`                     *)
  k_sfin_effs : list feff (* NestedSampler.finalise                                                *)
}.

(* NestedSampler.initialise: live points are drawn when there are none and the run is not finalised;
   then the finalised flag is cleared when the condition is above the tolerance *)
Definition s_initialise (sk : sskel) (cfg : scfg) (st : sst) (fresh : list Z) : sst :=
  let st1 := match s_live st with
             | None => if negb (s_fin st)
                       then {| s_cond := s_cond st; s_it := s_it st; s_fin := s_fin st; s_live := Some fresh;
                               s_ns := s_ns st; s_err := s_err st |}
                       else st
             | Some _ => st
             end in
  if k_sinit sk (svars cfg st1)
  then {| s_cond := s_cond st1; s_it := s_it st1; s_fin := false; s_live := s_live st1;
          s_ns := s_ns st1; s_err := s_err st1 |}
  else st1.

Definition s_loop (sk : sskel) (cfg : scfg) (st : sst) (stream : list (Z * Z)) : sst * nat * bool :=
  if k_sentry sk (svars cfg st) then (st, 0%nat, false) else
  if sc_prior cfg then (finalise (k_sfin_effs sk) st, 0%nat, false) else
  let '(st', n, oof) := loop s_body (fun s => k_spre sk (svars cfg s)) (fun s => k_spost sk (svars cfg s)) st stream in
  ((if k_sfin sk (svars cfg st') then finalise (k_sfin_effs sk) st' else st'), n, oof).

(* FlowSampler.run_standard_sampler = ns.initialise(); ns.nested_sampling_loop()
   (a resumed sampler is the unpickled state put through the same two calls) *)
Definition s_run (sk : sskel) (cfg : scfg) (st : sst) (fresh : list Z) (stream : list (Z * Z)) : sst * nat * bool :=
  s_loop sk cfg (s_initialise sk cfg st fresh) stream.

(* today's code, by hand *)
Definition std_effs : list feff := [FForLive [BOtherB; BAppendNS]; FSetLiveNone; FOtherF; FOtherF; FSetFinalised].
Definition std_sk : sskel :=
  {| k_spre := fun v => negb (v_tol v <? v_cond v);
     k_spost := fun v => xle (v_cap v) (Some (v_it v));
     k_sentry := fun v => v_fin v;
     k_sfin := fun v => negb (v_fin v) && (v_cond v <=? v_tol v);
     k_sinit := fun v => v_tol v <? v_cond v;
     k_sfin_effs := std_effs |}.

(* checker for the finalise effect list: after dropping the no-ops it is one of the accepted orders *)
Definition strip_b (b : list beff) : list beff := filter (fun e => match e with BAppendNS => true | BOtherB => false end) b.
Definition strip_f (l : list feff) : list feff :=
  flat_map (fun e => match e with
                     | FOtherF => []
                     | FForLive b => [FForLive (strip_b b)]
                     | x => [x]
                     end) l.
Definition beff_eqb (a b : beff) : bool :=
  match a, b with BAppendNS, BAppendNS => true | BOtherB, BOtherB => true | _, _ => false end.
Fixpoint blist_eqb (a b : list beff) : bool :=
  match a, b with [], [] => true | x :: a', y :: b' => beff_eqb x y && blist_eqb a' b' | _, _ => false end.
Definition feff_eqb (a b : feff) : bool :=
  match a, b with
  | FForLive x, FForLive y => blist_eqb x y
  | FSetLiveNone, FSetLiveNone => true
  | FSetFinalised, FSetFinalised => true
  | FOtherF, FOtherF => true
  | _, _ => false
  end.
Fixpoint flist_eqb (a b : list feff) : bool :=
  match a, b with [], [] => true | x :: a', y :: b' => feff_eqb x y && flist_eqb a' b' | _, _ => false end.
Definition fin_orders : list (list feff) :=
  [ [FForLive [BAppendNS]; FSetLiveNone; FSetFinalised];
    [FForLive [BAppendNS]; FSetFinalised; FSetLiveNone];
    [FSetFinalised; FForLive [BAppendNS]; FSetLiveNone] ].
Definition fin_ok (effs : list feff) : bool := existsb (flist_eqb (strip_f effs)) fin_orders.

(* ---- importance sampler ---------------------------------------------------------------------- *)
Definition le_pairs (crit tol : list Z) : list bool := map (fun p => fst p <=? snd p) (combine crit tol).
Definition reached (stop_any : bool) (crit tol : list Z) : bool :=
  if stop_any then existsb (fun b : bool => b) (le_pairs crit tol)
  else forallb (fun b : bool => b) (le_pairs crit tol).

Record ist := {
  i_crit : list Z; i_it : Z; i_fin : bool;
  i_live : option (list Z); i_dead : list Z
}.
Record icfg := { ic_any : bool; ic_tols : list Z; ic_min : Z; ic_cap : option Z }.

Record iskel := {
  k_ipre : test; k_ipost : test; k_ientry : test;
  k_reached : bool -> list Z -> list Z -> bool;       (* the reached_tolerance property          *)
  k_ifin_always : bool                                 (* self.finalise() follows the loop unconditionally *)
}.
Definition ivars (sk : iskel) (cfg : icfg) (st : ist) : lvars :=
  {| v_cond := 0; v_tol := 0; v_reached := k_reached sk (ic_any cfg) (i_crit st) (ic_tols cfg);
     v_fin := i_fin st; v_it := i_it st; v_min := ic_min cfg; v_cap := ic_cap cfg |}.

(* the loop body: oracle = (criterion values, number of samples removed, ids of the new samples) *)
Definition i_body (st : ist) (o : list Z * nat * list Z) : ist :=
  let '(c, nrem, new) := o in
  match i_live st with
  | Some l => {| i_crit := c; i_it := i_it st + 1; i_fin := i_fin st;
                 i_live := Some (skipn nrem l ++ new); i_dead := i_dead st ++ firstn nrem l |}
  | None => {| i_crit := c; i_it := i_it st + 1; i_fin := i_fin st; i_live := None; i_dead := i_dead st |}
  end.
(* ImportanceNestedSampler.finalise: nothing when already finalised; else the store consumes the live points *)
Definition i_finalise (st : ist) : ist :=
  if i_fin st then st else
  {| i_crit := i_crit st; i_it := i_it st; i_fin := true; i_live := None;
     i_dead := i_dead st ++ match i_live st with Some l => l | None => [] end |}.

Definition i_run (sk : iskel) (cfg : icfg) (st : ist) (stream : list (list Z * nat * list Z)) : ist * nat * bool :=
  if k_ientry sk (ivars sk cfg st) then (st, 0%nat, false) else
  let '(st', n, oof) := loop i_body (fun s => k_ipre sk (ivars sk cfg s)) (fun s => k_ipost sk (ivars sk cfg s)) st stream in
  ((if k_ifin_always sk then i_finalise st' else st'), n, oof).

Definition ins_sk : iskel :=
  {| k_ipre := fun v => v_reached v && (v_min v <=? v_it v);
     k_ipost := fun v => xle (v_cap v) (Some (v_it v));
     k_ientry := fun v => v_fin v;
     k_reached := reached;
     k_ifin_always := true |}.

(* ---- configure_stopping_criterion: alias resolution over the regenerated table ---------------- *)
Definition atable := list (string * list string).
Definition has_alias (c : string) (row : string * list string) : bool := existsb (String.eqb c) (snd row).
Definition resolve1 (t : atable) (c : string) : list string := map fst (filter (has_alias c) t).
Definition resolve (t : atable) (names : list string) : list string := flat_map (resolve1 t) names.
(* every alias belongs to one criterion only *)
Fixpoint nodupb (l : list string) : bool :=
  match l with [] => true | x :: r => negb (existsb (String.eqb x) r) && nodupb r end.
Definition atable_ok (t : atable) : bool := nodupb (List.concat (map snd t)).
