(* C20 - "every algorithmic option runs to completion or is rejected up front".
   Definitions only (they must still run when a proof breaks).

   (i)   the two population loops over an oracle stream of per-batch outcomes, with explicit fuel:
         FlowProposal.populate (`while n_accepted < N`, both the rejection-per-batch branch and the
         accumulate_weights branch) and ImportanceFlowProposal.draw
         (`while n_accepted < n and n_draw > 0`);
   (ii)  option validation as decision functions: ImportanceNestedSampler.check_configuration,
         configure_stopping_criterion, get_flow_proposal_class, check_proposal_kwargs,
         update_training_config (noise options); the ordered event list of a sampler's
         construct-then-run pipeline and the checker "every validator precedes X";
   (iii) the package's CALL TABLE / ATTRIBUTE TABLE and the boolean checker calls_well_formed. *)
From Coq Require Import List ZArith Bool String Arith.
Import ListNotations.
Local Open Scope Z_scope.

(* ------------------------------------------------------------------------------------------- *)
(** * (i) population loops *)

(* what one pass through the loop body did:
   b_empty : nothing survived the truncation / the backward pass (`if not len(x): continue`)
   b_try   : accumulate_weights only - the expected number of accepted points reached N, so the
             rejection step ran and n_accepted was RE-ASSIGNED to b_acc
   b_acc   : rejection-per-batch branch: points accepted in this batch (n_accepted += b_acc);
             accumulate branch: the new value of n_accepted when b_try *)
Record batch := mkBatch { b_empty : bool; b_try : bool; b_acc : Z }.

(* Done k a p : the loop was left after k passes with n_accepted = a and n_proposed = p *)
Inductive lres := Done (k : nat) (n_accepted n_proposed : Z) | OutOfFuel.

Fixpoint populate (fuel : nat) (accumulate : bool) (N drawsize max_samples : Z) (s : nat -> batch)
                  (k : nat) (n_acc n_prop : Z) : lres :=
  if N <=? n_acc then Done k n_acc n_prop else          (* while n_accepted < N *)
  match fuel with
  | O => OutOfFuel
  | S f =>
    let b := s k in
    let n_prop' := n_prop + drawsize in                  (* n_proposed += z.shape[0] *)
    if b_empty b then populate f accumulate N drawsize max_samples s (S k) n_acc n_prop'   (* continue *)
    else if accumulate then
      let n_acc' := if b_try b then b_acc b else n_acc in
      if n_prop' >? max_samples then Done (S k) n_acc' n_prop'                             (* break *)
      else populate f accumulate N drawsize max_samples s (S k) n_acc' n_prop'
    else populate f accumulate N drawsize max_samples s (S k) (n_acc + b_acc b) n_prop'
  end.

Definition populate0 fuel accumulate N drawsize max_samples s := populate fuel accumulate N drawsize max_samples s 0%nat 0 0.

(* ImportanceFlowProposal.draw: n_draw = int(1.01 n) is fixed before the loop; a pass that accepts
   nothing (`continue`) contributes 0 *)
Fixpoint ins_draw (fuel : nat) (n n_draw : Z) (s : nat -> Z) (k : nat) (n_acc : Z) : lres :=
  if (n_acc <? n) && (0 <? n_draw) then
    match fuel with
    | O => OutOfFuel
    | S f => ins_draw f n n_draw s (S k) (n_acc + s k)
    end
  else Done k n_acc (Z.of_nat k * n_draw).

Definition ins_draw0 fuel n n_draw s := ins_draw fuel n n_draw s 0%nat 0.

(* a finite recorded trace as a stream (the tail is never reached when fuel = length) *)
Definition stream_of {X} (d : X) (l : list X) : nat -> X := fun k => nth k l d.

(* ------------------------------------------------------------------------------------------- *)
(** * (ii) option validation *)

Inductive vres := Accept | Reject (branch : nat).

(* ImportanceNestedSampler.check_configuration; max_s = 0 encodes None (and the falsy 0) *)
Definition check_configuration (min_s min_r max_s nlive : Z) : vres :=
  if min_s >? nlive then Reject 0
  else if min_r >? nlive then Reject 1
  else if negb (max_s =? 0) && (max_s <=? nlive) then Reject 2
  else Accept.

Definition mem (x : string) (l : list string) : bool := existsb (String.eqb x) l.

(* configure_stopping_criterion.  aliases : (criterion, its aliases) in dictionary order.
   For every requested name, every criterion whose alias list contains it is appended. *)
Definition resolve_criteria (aliases : list (string * list string)) (req : list string) : list string :=
  flat_map (fun c => map fst (filter (fun ca => mem c (snd ca)) aliases)) req.

Inductive sc_res := SCok (criteria : list string) (stop_any : bool) | SCerr (branch : nat).

Definition configure_stopping (aliases : list (string * list string)) (req : list string) (n_tol : nat)
                              (check_criteria : string) : sc_res :=
  let cs := resolve_criteria aliases req in
  match cs with
  | [] => SCerr 0                                        (* Unknown stopping criterion *)
  | _ => if negb (Nat.eqb (List.length cs) n_tol) then SCerr 1   (* Number of criteria must match tolerances *)
         else if String.eqb check_criteria "any" then SCok cs true
         else if String.eqb check_criteria "all" then SCok cs false
         else SCerr 2
  end.

(* get_flow_proposal_class *)
Inductive pc_in := PCnone | PCstr (lowered : string) | PCsubclass (name : string) | PCother.
Inductive pc_res := PCclass (name : string) | PCexternal (name : string) | PCvalue_error | PCtype_error.

Fixpoint assoc (k : string) (l : list (string * string)) : option string :=
  match l with
  | [] => None
  | (a, b) :: r => if String.eqb k a then Some b else assoc k r
  end.

Definition get_flow_proposal_class (base : list (string * string)) (external : list string) (i : pc_in) : pc_res :=
  match i with
  | PCnone => PCclass "FlowProposal"
  | PCstr s => if mem s external then PCexternal s
               else match assoc s base with Some c => PCclass c | None => PCvalue_error end
  | PCsubclass c => PCclass c
  | PCother => PCtype_error
  end.

(* check_proposal_kwargs: class_keys = parameters of the class and its MRO, allowed = parameters of the
   other known proposal classes, keys = the user's keyword names *)
Inductive cpk_res := CPKok (kept : list string) | CPKerr (branch : nat).

Definition check_proposal_kwargs (class_keys allowed keys : list string) (strict : bool) : cpk_res :=
  let extra := filter (fun k => negb (mem k class_keys)) keys in
  match extra with
  | [] => CPKok keys
  | _ => if strict then CPKerr 0
         else if existsb (fun k => negb (mem k allowed)) extra then CPKerr 1
         else CPKok (filter (fun k => mem k class_keys) keys)
  end.

(* update_training_config: noise options.  scale kind: 0 = None, 1 = float, 2 = anything else *)
Inductive tc_res := TCok (noise_type_set : bool) | TCerr (branch : nat).
Definition update_training_noise (type_given : bool) (scale_kind : nat) : tc_res :=
  if type_given && Nat.eqb scale_kind 0 then TCerr 0
  else if Nat.eqb scale_kind 1 then TCok true              (* type defaults to "constant" when missing *)
  else if negb (Nat.eqb scale_kind 0) then TCerr 1
  else TCok type_given.

(* the construct-then-run pipeline as an ordered list of events *)
Inductive pev := PValidate (v : string) | PConstruct (c : string) | PSample (s : string).

Definition pev_eqb (a b : pev) : bool :=
  match a, b with
  | PValidate x, PValidate y | PConstruct x, PConstruct y | PSample x, PSample y => String.eqb x y
  | _, _ => false
  end.

(* a occurs, and its first occurrence comes before the first b *)
Fixpoint first_before (a b : pev) (l : list pev) : bool :=
  match l with
  | [] => false
  | e :: r => if pev_eqb e b then false else if pev_eqb e a then true else first_before a b r
  end.

Definition occurs (a : pev) (l : list pev) : bool := existsb (pev_eqb a) l.

(* pairs (a, b): a must have happened before the first b *)
Definition pipeline_ok (req : list (pev * pev)) (l : list pev) : bool :=
  forallb (fun ab => first_before (fst ab) (snd ab) l) req.

(* ------------------------------------------------------------------------------------------- *)
(** * (iii) call table and attribute table *)

Record sig := mkSig { s_pos : list string;        (* positional-or-keyword names, self/cls removed *)
                      s_nposonly : nat;           (* how many of them are positional-only *)
                      s_kwonly : list string;
                      s_req : list string;        (* names without a default *)
                      s_var : bool;               (* *args *)
                      s_kw : bool }.              (* **kwargs *)

Record call := mkCall { c_sigs : list nat;        (* candidate callees (index into the signature table) *)
                        c_npos : nat;             (* explicit positional arguments *)
                        c_star : bool;            (* *x present *)
                        c_kws : list string;      (* explicit keywords *)
                        c_dstar : bool }.         (* **x present *)

Definition kw_names (s : sig) : list string := skipn (s_nposonly s) (s_pos s) ++ s_kwonly s.

Definition bind_ok (s : sig) (c : call) : bool :=
  (* no unexpected keyword *)
  forallb (fun k => mem k (kw_names s) || s_kw s) (c_kws c)
  (* not too many positional arguments *)
  && (s_var s || (c_npos c <=? List.length (s_pos s))%nat)
  (* no keyword that a positional argument already filled *)
  && forallb (fun k => negb (mem k (firstn (c_npos c) (s_pos s)))) (c_kws c)
  (* every required parameter is supplied (unknowable when the call unpacks *x / **x) *)
  && (c_star c || c_dstar c ||
      forallb (fun r => mem r (firstn (c_npos c) (s_pos s)) || mem r (c_kws c)) (s_req s)).

Definition call_ok (sigs : list sig) (c : call) : bool :=
  forallb (fun i => match nth_error sigs i with Some s => bind_ok s c | None => false end) (c_sigs c).

Record cls := mkCls { k_name : string; k_assigned : list string; k_family : list string }.

Fixpoint find_cls (n : string) (l : list cls) : option cls :=
  match l with
  | [] => None
  | k :: r => if String.eqb n (k_name k) then Some k else find_cls n r
  end.

(* a read of attribute a on an instance of class c is bound when some class of c's family (ancestors,
   descendants and their ancestors) binds the name, or it is assigned from outside (obj.a = ...) *)
Definition read_ok (classes : list cls) (ext : list string) (r : string * string) : bool :=
  let (c, a) := r in
  mem a ext ||
  match find_cls c classes with
  | None => false
  | Some k => existsb (fun f => match find_cls f classes with
                                | Some kf => mem a (k_assigned kf)
                                | None => false end) (k_family k)
  end.

Record table := mkTable { t_sigs : list sig; t_calls : list call;
                          t_classes : list cls; t_ext : list string; t_reads : list (string * string) }.

Definition calls_well_formed (t : table) : bool :=
  forallb (call_ok (t_sigs t)) (t_calls t) && forallb (read_ok (t_classes t) (t_ext t)) (t_reads t).

(* explanation output: indices of the entries that fail *)
Fixpoint fail_idx {X} (ok : X -> bool) (k : nat) (l : list X) : list nat :=
  match l with
  | [] => []
  | x :: r => if ok x then fail_idx ok (S k) r else k :: fail_idx ok (S k) r
  end.
Definition failing_calls (t : table) : list nat := fail_idx (call_ok (t_sigs t)) 0%nat (t_calls t).
Definition failing_reads (t : table) : list nat := fail_idx (read_ok (t_classes t) (t_ext t)) 0%nat (t_reads t).

(* ------------------------------------------------------------------------------------------- *)
(** * (iv) batch sizes handed to the torch data loaders (FlowModel.prep_data / check_batch_size) *)

Inductive bs_spec := BSint (b : Z) | BSall | BSother.      (* an int; 'all' or None; anything else *)

Definition resolve_batch_size (s : bs_spec) (n_train : Z) : option Z :=
  match s with BSint b => Some b | BSall => Some n_train | BSother => None end.

(* the `while True` loop of check_batch_size; None = RuntimeError / ZeroDivisionError *)
Fixpoint cbs_loop (fuel : nat) (n bs min_bs : Z) : option Z :=
  match fuel with
  | O => None
  | S f =>
    let bs' := bs - 1 in
    if bs' <? 2 then None
    else let final := n mod bs' in
         if (final =? 0) || (final >=? min_bs) then Some bs'
         else if (bs' <=? min_bs) && (final >? 1) then Some bs'
         else cbs_loop f n bs' min_bs
  end.

(* FlowModel.check_batch_size(x, batch_size) for len(x) = n >= 0, batch_size >= 0; int(0.1 * bs) = bs / 10 *)
Definition check_batch_size (n bs : Z) : option Z :=
  if bs =? 1 then None                                   (* Cannot use a batch size of 1 *)
  else if bs =? 0 then None                              (* n % 0 *)
  else let min_bs := bs / 10 in
       let final := n mod bs in
       if negb (final =? 0) && (final <? min_bs) then cbs_loop (Z.to_nat bs) n bs min_bs else Some bs.

(* val_batch_size = min(len(x_val), batch_size) if len(x_val) else None *)
Definition val_batch_size (n_val bs : Z) : option Z :=
  if n_val =? 0 then None else Some (Z.min n_val bs).

(* what torch.utils.data.DataLoader accepts for batch_size: None or a positive integer *)
Definition loader_ok (o : option Z) : Prop := match o with None => True | Some b => 1 <= b end.
Definition loader_okb (o : option Z) : bool := match o with None => true | Some b => 1 <=? b end.

(* batch sizes of the (train, validation) loaders; None = the configuration is rejected (an exception) *)
Definition data_loaders (vbs : Z -> Z -> option Z) (n_train n_val : Z) (s : bs_spec) : option (Z * option Z) :=
  match resolve_batch_size s n_train with
  | None => None
  | Some bs0 => match check_batch_size n_train bs0 with
                | None => None
                | Some b => let v := vbs n_val b in if loader_okb v then Some (b, v) else None
                end
  end.

(* ------------------------------------------------------------------------------------------- *)
(** * (v) emptiness guards of one pass of a population loop
   LShrink : the batch is replaced by a subset of itself (backward pass, truncation) - may become empty
   LGuard  : `if not len(x): continue`
   LReduce : a reduction that raises on an empty array (max / nanmax / min / argmax ...) *)
Inductive lev := LShrink | LGuard | LReduce.
Inductive rres := RFinished | RSkipped | RError.

Fixpoint exec_pass (p : list lev) (size : nat) (o : nat -> nat) (k : nat) : rres :=
  match p with
  | [] => RFinished
  | LShrink :: r => exec_pass r (Nat.min size (o k)) o (S k)
  | LGuard :: r => if Nat.eqb size 0 then RSkipped else exec_pass r size o k
  | LReduce :: r => if Nat.eqb size 0 then RError else exec_pass r size o k
  end.

Fixpoint guarded (p : list lev) (nonempty : bool) : bool :=
  match p with
  | [] => true
  | LShrink :: r => guarded r false
  | LGuard :: r => guarded r true
  | LReduce :: r => nonempty && guarded r nonempty
  end.

Definition paths_guarded (ps : list (list lev)) : bool := forallb (fun p => guarded p false) ps.
