(* C01 - executable model of the live-set evolution of nessai.samplers.nestedsampler.NestedSampler:
   populate_live_points, yield_sample, insert_live_point, consume_sample, finalise.
   Log-likelihoods appear as integer order keys (harness/common.float_key, strictly monotone;
   key 0 is logL = 0.0, +-kinf are +-inf); NaN is a flag.  Definitions only (runnable with
   vm_compute); proofs are in Proofs/C01_LiveSet_proofs.v.  The second half of the file is the
   interpreter of the effect alphabet of Lib/Effects.v, used by tie A of C01 and by C13.       *)
From Coq Require Import ZArith List Bool.
From NessaiV Require Import Lib.Effects.
Import ListNotations.

(* ---- points ------------------------------------------------------------------------------ *)
Record pt := mkpt {
  pid  : Z;      (* identity of the point (the harness puts it in the first parameter field)   *)
  key  : Z;      (* order key of logL                                                           *)
  pit  : nat;    (* the "it" field                                                              *)
  okP  : bool;   (* logP != -inf   (the only prior test yield_sample makes)                     *)
  finP : bool;   (* isfinite(logP) (tested by populate_live_points only)                        *)
  nanL : bool;   (* logL is NaN (then [key] is meaningless)                                     *)
  inB  : bool    (* the point lies inside the prior bounds (carried, never tested here)         *)
}.
Definition set_key (p : pt) (k : Z) : pt := mkpt (pid p) k (pit p) (okP p) (finP p) false (inB p).
Definition set_it (p : pt) (i : nat) : pt := mkpt (pid p) (key p) i (okP p) (finP p) (nanL p) (inB p).

Definition kinf : Z := 9218868437227405312%Z.          (* float_key(+inf) *)
Definition finL (p : pt) : bool := negb (nanL p) && (- kinf <? key p)%Z && (key p <? kinf)%Z.

Definition cmpb (c : cmp) (a b : Z) : bool :=
  match c with Gt => (b <? a)%Z | Ge => (b <=? a)%Z | Lt => (a <? b)%Z | Le => (a <=? b)%Z
             | CmpOther => false end.
(* float comparison of a point's logL with a threshold: False whenever logL is NaN *)
Definition cmpf (c : cmp) (p : pt) (lmin : Z) : bool := negb (nanL p) && cmpb c (key p) lmin.

(* One element of the proposal stream: the point as the proposal returns it, the value
   model.evaluate_log_likelihood gives for it (used only when the stored logL is 0.0 - the
   `if not newparam["logL"]` branch of yield_sample), and proposal.populated after the draw. *)
Definition draw := (pt * Z * bool)%type.

(* what yield_sample does with one draw: (passes the logP test and the logL test, the point
   with its possibly re-evaluated logL, number of likelihood evaluations so far)              *)
Definition try_draw (opy : cmp) (lmin : Z) (p : pt) (ek : Z) (ev : nat) : bool * pt * nat :=
  if okP p then
    let reev := (key p =? 0)%Z && negb (nanL p) in
    let p' := if reev then set_key p ek else p in
    let ev' := if reev then S ev else ev in
    (cmpf opy p' lmin, p', ev')
  else (false, p, ev).

(* The while-loop of consume_sample around next(self.yield_sample(worst)), fused with the loops
   of yield_sample: scan the stream until consume_sample accepts a point.
   - a draw passing yield_sample's filter is yielded; consume_sample re-tests it with [opc];
   - a draw failing it is skipped while the pool is populated; when the pool is empty
     yield_sample yields the OLD point (worst), which consume_sample tests with [opc]
     (rejected += 1 and loop, for today's strict operators).
   Result: accepted point, evaluation count, rejected count, rest of the stream.              *)
Fixpoint scan (opy opc : cmp) (lmin : Z) (worst : pt) (ds : list draw) (ev rj : nat)
  : option (pt * nat * nat * list draw) :=
  match ds with
  | [] => None
  | (p, ek, pop) :: r =>
      let '(acc, p', ev') := try_draw opy lmin p ek ev in
      if acc then
        if cmpf opc p' lmin then Some (p', ev', rj, r) else scan opy opc lmin worst r ev' (S rj)
      else if pop then scan opy opc lmin worst r ev' rj
      else if cmpf opc worst lmin then Some (worst, ev', rj, r)
      else scan opy opc lmin worst r ev' (S rj)
  end.

(* ---- numpy primitives used by insert_live_point ------------------------------------------- *)
(* np.searchsorted on a sorted array *)
Definition ss (sd : sside) (l : list Z) (k : Z) : nat :=
  match sd with
  | SLeft => length (filter (fun x => (x <? k)%Z) l)
  | SRight => length (filter (fun x => (x <=? k)%Z) l)
  end.
(* l[: i - 1] = l[1:i]   (numpy copies on overlap; i >= 1 is guaranteed by the strict filter) *)
Definition shift {A} (i : nat) (l : list A) : list A := firstn (i - 1) (skipn 1 l) ++ skipn (i - 1) l.
(* l[j] = x *)
Definition write {A} (j : nat) (x : A) (l : list A) : list A := firstn j l ++ x :: skipn (S j) l.
Definition insert_at {A} (j : nat) (x : A) (l : list A) : list A := firstn j l ++ x :: skipn j l.

(* ---- sampler state (the pickled fields the property talks about + two counters) ----------- *)
Record state := mkstate {
  live    : list pt;    (* live_points, position 0 = worst                                      *)
  dead    : list pt;    (* nested_samples                                                       *)
  idxs    : list nat;   (* insertion_indices                                                    *)
  iter    : nat;        (* iteration                                                            *)
  logLmin : Z;
  logLs   : list Z;     (* state.logLs (starts as [-inf])                                       *)
  nls     : list nat;   (* state.nlive                                                          *)
  nlive   : nat;        (* configured number of live points                                     *)
  evals   : nat;        (* likelihood evaluations made by yield_sample (logL == 0.0 branch)     *)
  rej     : nat         (* self.rejected                                                        *)
}.

(* consume_sample, as the code computes it today *)
Definition step (s : state) (ds : list draw) : option (state * list draw) :=
  match live s with
  | [] => None
  | worst :: _ =>
      let lmin := key worst in
      match scan Gt Gt lmin worst ds (evals s) (rej s) with
      | None => None
      | Some (new, ev, rj, rest) =>
          let it' := S (iter s) in
          let new' := set_it new it' in
          let index := ss SLeft (map key (live s)) (key new') in
          Some (mkstate (write (index - 1) new' (shift index (live s)))
                        (dead s ++ [worst]) (idxs s ++ [index - 1]) it' lmin
                        (logLs s ++ [lmin]) (nls s ++ [nlive s]) (nlive s) ev rj, rest)
      end
  end.

Fixpoint run (k : nat) (s : state) (ds : list draw) : option (state * list draw) :=
  match k with
  | O => Some (s, ds)
  | S k' => match step s ds with None => None | Some (s', r) => run k' s' r end
  end.

(* finalise: the remaining live points are recorded in order with nlive, nlive-1, .., 1 *)
Fixpoint countdown (n k : nat) : list nat := match k with O => [] | S k' => n :: countdown (n - 1) k' end.
Definition finalise (s : state) : state :=
  mkstate [] (dead s ++ live s) (idxs s) (iter s) (logLmin s)
          (logLs s ++ map key (live s)) (nls s ++ countdown (nlive s) (length (live s)))
          (nlive s) (evals s) (rej s).

(* ---- populate_live_points ------------------------------------------------------------------ *)
(* candidates go through yield_sample with logLmin = -inf (so logL = -inf or NaN never comes
   back), then must have finite logP and finite logL; the first n survivors are sorted by logL *)
Fixpoint populate (cs : list draw) (need : nat) (acc : list pt) (ev : nat)
  : option (list pt * nat * list draw) :=
  match need with
  | O => Some (acc, ev, cs)
  | S need' =>
      match cs with
      | [] => None
      | (p, ek, _) :: r =>
          let '(a, p', ev') := try_draw Gt (- kinf)%Z p ek ev in
          if a && finP p' && finL p' then populate r need' (acc ++ [p']) ev'
          else populate r need acc ev'
      end
  end.

(* np.sort(live_points, order="logL") breaks ties by the remaining fields in dtype order; the
   harness stores the point id in the first field, so ties are ordered by id (DESIGN 2.6)     *)
Definition pt_leb (a b : pt) : bool :=
  (key a <? key b)%Z || ((key a =? key b)%Z && (pid a <=? pid b)%Z).
Fixpoint insert_sorted (x : pt) (l : list pt) : list pt :=
  match l with
  | [] => [x]
  | y :: r => if pt_leb x y then x :: l else y :: insert_sorted x r
  end.
Definition sort_pts (l : list pt) : list pt := fold_right insert_sorted [] l.

Definition init (n : nat) (cs : list draw) : option (state * list draw) :=
  match populate cs n [] 0 with
  | None => None
  | Some (acc, ev, r) =>
      Some (mkstate (map (fun p => set_it p 0) (sort_pts acc)) [] [] 0 (- kinf)%Z [(- kinf)%Z] [] n ev 1, r)
  end.

(* ============================================================================================ *)
(* The iteration as an effect list (Lib/Effects.v): interpreter over state + locals.           *)
(* ============================================================================================ *)
Record params := mkparams { op_y : cmp; op_c : cmp; side : sside }.
Definition canon : params := mkparams Gt Gt SLeft.

Record mstate := mkm {
  ms  : state;
  l_w : option pt;     (* local `worst`                                  *)
  l_n : option pt;     (* local `proposed` / `live_point`                *)
  l_i : option nat;    (* local `index` (as returned by searchsorted)    *)
  rs  : list draw      (* what the proposal will still return            *)
}.
Definition inject (s : state) (ds : list draw) : mstate := mkm s None None None ds.

Definition upd_live (s : state) (l : list pt) : state :=
  mkstate l (dead s) (idxs s) (iter s) (logLmin s) (logLs s) (nls s) (nlive s) (evals s) (rej s).

Definition exec (P : params) (e : eff) (m : mstate) : option mstate :=
  let s := ms m in
  match e with
  | ReadWorst =>
      match live s with [] => None | x :: _ => Some (mkm s (Some x) (l_n m) (l_i m) (rs m)) end
  | SetLogLmin =>
      match l_w m with None => None | Some wp =>
        Some (mkm (mkstate (live s) (dead s) (idxs s) (iter s) (key wp) (logLs s) (nls s) (nlive s)
                           (evals s) (rej s)) (l_w m) (l_n m) (l_i m) (rs m)) end
  | IncrState =>
      match l_w m with None => None | Some wp =>
        Some (mkm (mkstate (live s) (dead s) (idxs s) (iter s) (logLmin s) (logLs s ++ [key wp])
                           (nls s ++ [nlive s]) (nlive s) (evals s) (rej s))
                  (l_w m) (l_n m) (l_i m) (rs m)) end
  | AppendDead =>
      match l_w m with None => None | Some wp =>
        Some (mkm (mkstate (live s) (dead s ++ [wp]) (idxs s) (iter s) (logLmin s) (logLs s) (nls s)
                           (nlive s) (evals s) (rej s)) (l_w m) (l_n m) (l_i m) (rs m)) end
  | SetCond | Skip => Some m
  | IncrIter =>
      Some (mkm (mkstate (live s) (dead s) (idxs s) (S (iter s)) (logLmin s) (logLs s) (nls s)
                         (nlive s) (evals s) (rej s)) (l_w m) (l_n m) (l_i m) (rs m))
  | Draw =>
      match l_w m with None => None | Some wp =>
        match scan (op_y P) (op_c P) (logLmin s) wp (rs m) (evals s) (rej s) with
        | None => None
        | Some (new, ev, rj, rest) =>
            Some (mkm (mkstate (live s) (dead s) (idxs s) (iter s) (logLmin s) (logLs s) (nls s)
                               (nlive s) ev rj) (l_w m) (Some new) (l_i m) rest)
        end end
  | SetIt =>
      match l_n m with None => None | Some np =>
        Some (mkm s (l_w m) (Some (set_it np (iter s))) (l_i m) (rs m)) end
  | ComputeIdx =>
      match l_n m with None => None | Some np =>
        Some (mkm s (l_w m) (l_n m) (Some (ss (side P) (map key (live s)) (key np))) (rs m)) end
  | ShiftLive =>
      match l_i m with None => None | Some i =>
        Some (mkm (upd_live s (shift i (live s))) (l_w m) (l_n m) (l_i m) (rs m)) end
  | WriteLive =>
      match l_i m, l_n m with
      | Some i, Some np => Some (mkm (upd_live s (write (i - 1) np (live s))) (l_w m) (l_n m) (l_i m) (rs m))
      | _, _ => None
      end
  | AppendIdx =>
      match l_i m with None => None | Some i =>
        Some (mkm (mkstate (live s) (dead s) (idxs s ++ [i - 1]) (iter s) (logLmin s) (logLs s) (nls s)
                           (nlive s) (evals s) (rej s)) (l_w m) (l_n m) (l_i m) (rs m)) end
  | Unknown => None
  end.

Fixpoint run_effs (P : params) (effs : list eff) (m : mstate) : option mstate :=
  match effs with
  | [] => Some m
  | e :: r => match exec P e m with None => None | Some m' => run_effs P r m' end
  end.

(* ---- abstract summary of a prefix: which effects have happened ----------------------------- *)
Record abs := mkabs {
  dW : bool; dLm : bool; dSt : bool; dDe : bool; dIt : bool; dDr : bool;
  dSi : bool; dCi : bool; dSh : bool; dWr : bool; dAi : bool
}.
Definition abs0 : abs := mkabs false false false false false false false false false false false.
Definition abs_all : abs := mkabs true true true true true true true true true true true.

(* dependency-respecting, at-most-once execution of one effect on the summary *)
Definition abs_step (e : eff) (a : abs) : option abs :=
  let 'mkabs w lm st de it dr si ci sh wr ai := a in
  match e with
  | ReadWorst  => if negb w && negb sh && negb wr then Some (mkabs true lm st de it dr si ci sh wr ai) else None
  | SetLogLmin => if w && negb lm && negb dr then Some (mkabs w true st de it dr si ci sh wr ai) else None
  | IncrState  => if w && negb st then Some (mkabs w lm true de it dr si ci sh wr ai) else None
  | AppendDead => if w && negb de then Some (mkabs w lm st true it dr si ci sh wr ai) else None
  | SetCond | Skip => Some a
  | IncrIter   => if negb it && negb si then Some (mkabs w lm st de true dr si ci sh wr ai) else None
  | Draw       => if w && lm && negb dr && negb si then Some (mkabs w lm st de it true si ci sh wr ai) else None
  | SetIt      => if dr && it && negb si && negb wr then Some (mkabs w lm st de it dr true ci sh wr ai) else None
  | ComputeIdx => if dr && negb ci && negb sh && negb wr then Some (mkabs w lm st de it dr si true sh wr ai) else None
  | ShiftLive  => if ci && w && negb sh && negb wr then Some (mkabs w lm st de it dr si ci true wr ai) else None
  | WriteLive  => if sh && si && negb wr then Some (mkabs w lm st de it dr si ci sh true ai) else None
  | AppendIdx  => if ci && negb ai then Some (mkabs w lm st de it dr si ci sh wr true) else None
  | Unknown => None
  end.

Fixpoint abs_run (effs : list eff) (a : abs) : option abs :=
  match effs with
  | [] => Some a
  | e :: r => match abs_step e a with None => None | Some a' => abs_run r a' end
  end.

Definition abs_eqb (a b : abs) : bool :=
  Bool.eqb (dW a) (dW b) && Bool.eqb (dLm a) (dLm b) && Bool.eqb (dSt a) (dSt b) && Bool.eqb (dDe a) (dDe b)
  && Bool.eqb (dIt a) (dIt b) && Bool.eqb (dDr a) (dDr b) && Bool.eqb (dSi a) (dSi b) && Bool.eqb (dCi a) (dCi b)
  && Bool.eqb (dSh a) (dSh b) && Bool.eqb (dWr a) (dWr b) && Bool.eqb (dAi a) (dAi b).

(* The regenerated skeleton of consume_sample + insert_live_point (tie A). *)
Record skeleton := mksk { sk_params : params; sk_effs : list eff }.

(* the checker: strict operators, left searchsorted, and the effect list performs every step of
   one replacement exactly once in an order that respects the data dependencies                *)
Definition one_replace_per_iteration (sk : skeleton) : bool :=
  cmp_eqb (op_y (sk_params sk)) Gt && cmp_eqb (op_c (sk_params sk)) Gt
  && sside_eqb (side (sk_params sk)) SLeft
  && match abs_run (sk_effs sk) abs0 with Some a => abs_eqb a abs_all | None => false end.

(* the hand-written effect list of today's consume_sample (one effect per statement) *)
Definition iteration_today : list eff :=
  [ReadWorst; SetLogLmin; IncrState; AppendDead; SetCond; IncrIter; Skip; Skip; Draw; Skip;
   SetIt; ComputeIdx; ShiftLive; WriteLive; AppendIdx; Skip; Skip; Skip; Skip; Skip].
Definition skeleton_today : skeleton := mksk canon iteration_today.

(* ---- boolean forms of the invariant, for the correspondence / direct checks --------------- *)
Fixpoint sortedb (l : list Z) : bool :=
  match l with
  | [] => true
  | x :: r => forallb (fun y => (x <=? y)%Z) r && sortedb r
  end.
Fixpoint nodupb (l : list Z) : bool :=
  match l with
  | [] => true
  | x :: r => negb (existsb (Z.eqb x) r) && nodupb r
  end.
Definition inv_b (s : state) : bool :=
  (length (live s) =? nlive s)%nat && (1 <=? nlive s)%nat
  && sortedb (map key (live s)) && sortedb (map key (dead s))
  && nodupb (map pid (live s ++ dead s))
  && (length (dead s) =? iter s)%nat && (length (idxs s) =? iter s)%nat
  && (length (logLs s) =? S (iter s))%nat && (length (nls s) =? iter s)%nat
  && forallb (fun i => (i <? nlive s)%nat) (idxs s).
