(* C09 - the radial latent samplers of nessai/utils/sampling.py and the finite rejection-sampling identity.
   Radial samplers (NDimensionalTruncatedGaussian.sample, draw_truncated_gaussian, draw_nsphere,
   draw_surface_nsphere) all return  z = p * g / |g|  for a Gaussian vector g and a radius p computed from a
   uniform draw through scipy functions, which are ORACLES here (monotone, inverse of each other).
   Definitions only. *)
From Coq Require Import List Reals QArith.
Import ListNotations.

Local Open Scope R_scope.
Definition sumsq (v : list R) : R := fold_right (fun x acc => x * x + acc) 0 v.
Definition norm (v : list R) : R := sqrt (sumsq v).                 (* np.sqrt(np.sum(x ** 2)) *)
Definition scale (c : R) (v : list R) : list R := map (Rmult c) v.
Definition radial_point (p : R) (g : list R) : list R := scale (p / norm g) g.     (* p * x / sqrt(sum(x**2)) *)

(* NDimensionalTruncatedGaussian.sample: u = u_max * rand; p = sqrt(2 * gammaincinv(dims / 2, u)) *)
Definition tg_radius (ginv : R -> R) (umax u : R) : R := sqrt (2 * ginv (umax * u)).
(* draw_truncated_gaussian: u = uniform(0, u_max); p = sigma * chi.ppf(u) *)
Definition tg2_radius (ppf : R -> R) (sigma u : R) : R := sigma * ppf u.
(* draw_nsphere: fuzz * r * R ** (1 / dims) * x / |x| *)
Definition ball_radius (root : R -> R) (r fuzz u : R) : R := fuzz * r * root u.

(* FlowProposal.populate sets self.r and then prep_latent_prior() builds the latent sampler for THAT radius, so the k-th
   population of a proposal object whose radii are rs draws inside (nth k rs) * fuzz.  [stale_sampler_radius] is the
   variant in which the sampler of the first population is kept for the lifetime of the object (refuted in Props). *)
Definition sampler_radius (rs : list R) (k : nat) : R := nth k rs 0.
Definition stale_sampler_radius (rs : list R) (k : nat) : R := nth 0 rs 0.

(* ---- finite rejection sampling over Q -------------------------------------------------------------------- *)
Local Open Scope Q_scope.
(* a finite space: each point with its proposal mass q and target mass p *)
Definition qsum (f : Q * Q -> Q) (l : list (Q * Q)) : Q := fold_right (fun x acc => f x + acc) 0 l.
Definition w_of (x : Q * Q) : Q := snd x / fst x.                                  (* weight p / q *)
Definition acc_mass (wmax : Q) (x : Q * Q) : Q := fst x * (w_of x / wmax).         (* drawn from q, kept w.p. w/wmax *)
