(* C12 - model of nessai's custom pickling and resume logic.  Definitions only.

   An object is a finite map  field -> value.  A class's pickling behaviour is a skeleton:
     sk_fields   : attributes the class (and its nessai base classes) ever assigns on self
     sk_excl     : keys dropped by __getstate__   (exclude = {...} / del state[k])
     sk_over     : keys __getstate__ overwrites or adds (state[k] = ...)
     sk_carried  : dropped keys that travel next to the dict (return state, self.proposal, ...)
                   and are put back by __setstate__
     sk_reattach : attributes the resume* methods set from the resuming process (model, flow ...)
     sk_rederive : attributes the resume* methods recompute from the restored state (log_q)
   Fields are classified per class as result-bearing (default), derived or transient. *)
From Coq Require Import List String Bool ZArith.
Import ListNotations.
Open Scope string_scope.

Definition field := string.
Definition fmem (f : field) (l : list field) : bool := existsb (String.eqb f) l.

Record skel := {
  sk_fields : list field;
  sk_excl : list field;
  sk_over : list field;
  sk_carried : list field;
  sk_reattach : list field;
  sk_rederive : list field
}.

Inductive fclass := Result | Derived | Transient.

Section Obj.
Variable V : Type.
Definition obj := field -> option V.

(* __getstate__ : overwritten keys get what the override computes, dropped keys disappear unless
   they are carried next to the dict *)
Definition getstate (sk : skel) (ov : field -> option V) (o : obj) : obj :=
  fun f => if fmem f (sk_over sk) then ov f
           else if fmem f (sk_excl sk) && negb (fmem f (sk_carried sk)) then None
           else o f.
(* __setstate__ / default unpickling: the dict (and the carried objects) become the attributes *)
Definition setstate (s : obj) : obj := s.
(* resume_from_pickled_sampler / Proposal.resume / FlowModel.resume *)
Definition resume (sk : skel) (env : field -> option V) (drv : obj -> field -> option V) (s : obj) : obj :=
  fun f => if fmem f (sk_rederive sk) then drv s f
           else if fmem f (sk_reattach sk) then env f
           else s f.

Definition roundtrip sk ov env drv (o : obj) : obj := resume sk env drv (setstate (getstate sk ov o)).

(* what an observer of the results can see *)
Definition result_view (cls : field -> fclass) (o : obj) : obj :=
  fun f => match cls f with Transient => None | _ => o f end.
End Obj.

Definition kept (sk : skel) (f : field) : bool :=
  negb (fmem f (sk_over sk))
  && (negb (fmem f (sk_excl sk)) || fmem f (sk_carried sk))
  && negb (fmem f (sk_reattach sk))
  && negb (fmem f (sk_rederive sk)).

(* every result-bearing field is kept; every derived field is kept or recomputed on resume *)
Definition field_ok (sk : skel) (cls : field -> fclass) (f : field) : bool :=
  match cls f with
  | Result => kept sk f
  | Derived => kept sk f || fmem f (sk_rederive sk)
  | Transient => true
  end.
Definition fields_ok (sk : skel) (cls : field -> fclass) : bool :=
  forallb (field_ok sk cls) (sk_fields sk).
(* explanation output *)
Definition bad_fields (sk : skel) (cls : field -> fclass) : list field :=
  filter (fun f => negb (field_ok sk cls f)) (sk_fields sk).

Definition classify (transient derived : list field) (f : field) : fclass :=
  if fmem f transient then Transient else if fmem f derived then Derived else Result.

(* ---- the classification tables (hand-written; everything not listed is result-bearing) ----------- *)
(* transient: belongs to the process, not to the run *)
Definition tr_sampler : list field :=
  ["model"; "proposal"; "checkpoint_callback"; "resumed"; "_previous_likelihood_evaluations";
   "_previous_likelihood_evaluation_time"; "sampling_start_time"].
   (* sampling_start_time is a wall-clock instant of the process that wrote the checkpoint: the interval up
      to the checkpoint is already inside sampling_time, so a resumed process must restart the clock *)
   (* proposal: the *current* proposal of the standard sampler is an alias of _flow_proposal /
      _uninformed_proposal and is re-selected by initialise(); for the importance sampler it is
      carried next to the dict *)
Definition tr_proposal : list field :=
  ["model"; "_flow_config"; "flow_config"; "flow"; "_draw_func"; "_populate_dist"; "initialised";
   "weights_file"; "mask"; "resume_populated"].
   (* flow is rebuilt from flow_config + the weights file (C11); weights_file / mask /
      resume_populated are the notes __getstate__ leaves for resume *)
Definition tr_flowmodel : list field :=
  ["_optimiser"; "model"; "models"; "flow_config"; "initialised"; "_resume_n_models"].
Definition tr_model : list field := ["pool"].
Definition dr_samples : list field := ["log_q"].        (* recomputed from samples + flows when not saved *)

Definition cls_sampler := classify tr_sampler [].
Definition cls_ins_sampler := classify ["model"; "checkpoint_callback"; "resumed";
                                        "_previous_likelihood_evaluations";
                                        "_previous_likelihood_evaluation_time"; "sampling_start_time"] [].
(* populated: initialise() clears it, NestedSampler.check_resume sets it again from the
   resume_populated note (= populated and pool not empty) *)
Definition cls_proposal := classify tr_proposal ["populated"].
Definition cls_ins_proposal := classify ["model"; "_flow_config"; "flow_config"] [].   (* flow is carried *)
Definition cls_flowmodel := classify tr_flowmodel [].
Definition cls_model := classify tr_model [].
Definition cls_samples := classify [] dr_samples.
(* with save_log_q=True the table is result-bearing: it must come back as written *)
Definition cls_samples_saved := classify [] [].

(* ---- hand copies of today's skeletons (the translator regenerates them, fields included) ---------- *)
Definition sk_base_sampler_today : skel :=
  {| sk_fields := ["iteration"; "nested_samples"; "live_points"; "state"; "history"; "model"; "proposal";
                   "checkpoint_callback"; "resumed"; "sampling_time"; "insertion_indices"];
     sk_excl := ["model"; "proposal"; "checkpoint_callback"];
     sk_over := ["_previous_likelihood_evaluations"; "_previous_likelihood_evaluation_time"];
     sk_carried := [];
     sk_reattach := ["model"; "resumed"; "checkpoint_callback"];
     sk_rederive := [] |}.
Definition sk_ordered_samples_today : skel :=
  {| sk_fields := ["samples"; "log_q"; "live_points_indices"; "nested_samples_indices"; "state";
                   "log_likelihood_threshold"; "strict_threshold"; "replace_all"; "save_log_q"];
     sk_excl := ["log_q"]; sk_over := ["log_q"]; sk_carried := [];
     sk_reattach := []; sk_rederive := ["log_q"] |}.

(* ---- counters -------------------------------------------------------------------------------------- *)
(* resume_from_pickled_sampler: what happens to model.likelihood_evaluations (and to the time) *)
Inductive ceff := CAddSaved | CSetSaved | CSkip.
Definition resume_count (effs : list ceff) (m0 saved : Z) : Z :=
  fold_left (fun c e => match e with CAddSaved => (c + saved)%Z | CSetSaved => saved | CSkip => c end) effs m0.
(* one process: its model object has made m0 evaluations of its own before the resume (model
   verification), the resume brings in the saved count, the segment makes d more; the value
   saved by the segment's last checkpoint is the model's count *)
Definition segment (effs : list ceff) (saved : Z) (seg : Z * Z) : Z :=
  (resume_count effs (fst seg) saved + snd seg)%Z.
Definition chain (effs : list ceff) (segs : list (Z * Z)) : Z := fold_left (segment effs) segs 0%Z.
Definition total (segs : list (Z * Z)) : Z := fold_left (fun a s => (a + fst s + snd s)%Z) segs 0%Z.
Definition counter_ok (effs : list ceff) : bool :=
  (List.length (filter (fun e => match e with CAddSaved => true | _ => false end) effs) =? 1)%nat
  && forallb (fun e => match e with CSetSaved => false | _ => true end) effs.
Definition counter_today : list ceff := [CAddSaved].

(* the resuming process re-uses a model object that already carries the run's count *)
Definition chain_reused (effs : list ceff) (ds : list Z) : Z :=
  fold_left (fun saved d => (resume_count effs saved saved + d)%Z) ds 0%Z.

(* ---- the loop prologue of a resumed standard sampler ------------------------------------------------ *)
(* FlowProposal.initialise() (called by FlowProposal.resume) clears `populated`; __getstate__ had left the
   note resume_populated = populated and pool not empty; NestedSampler.check_resume restores the flag from
   the note.  update_state() may write a periodic checkpoint, whose note is computed from the flag as it
   is at that moment.  What matters is the order in which nested_sampling_loop issues the two. *)
Inductive peff := PCheckResume | PUpdateState | PSkip.
Record pst := { p_pop : bool; p_note : bool; p_resumed : bool; p_written : list bool }.
   (* p_written: resume_populated notes of the checkpoints written so far, newest first *)
Definition after_resume_pool (orig : bool) : pst :=
  {| p_pop := false; p_note := orig; p_resumed := true; p_written := [] |}.
(* cks: for each update_state in turn, whether its periodic checkpoint condition holds *)
Fixpoint prologue (effs : list peff) (cks : list bool) (s : pst) : pst :=
  match effs with
  | [] => s
  | PCheckResume :: r =>
      prologue r cks {| p_pop := if p_resumed s then (if p_note s then true else p_pop s) else p_pop s;
                        p_note := p_note s; p_resumed := false; p_written := p_written s |}
  | PUpdateState :: r =>
      match cks with
      | true :: cks' => prologue r cks' {| p_pop := p_pop s; p_note := p_note s; p_resumed := p_resumed s;
                                           p_written := p_pop s :: p_written s |}
      | _ :: cks' => prologue r cks' s
      | [] => prologue r [] s
      end
  | PSkip :: r => prologue r cks s
  end.
(* no update_state before the first check_resume *)
Fixpoint prologue_ok (effs : list peff) : bool :=
  match effs with
  | [] => true
  | PCheckResume :: _ => true
  | PUpdateState :: _ => false
  | PSkip :: r => prologue_ok r
  end.
Definition prologue_today : list peff := [PSkip; PCheckResume; PUpdateState].

(* ---- re-deriving the density table in batches ---------------------------------------------------------- *)
(* ImportanceFlowModel.log_prob_all fills a table allocated with torch.empty: rows no batch covers keep
   whatever the allocation held.  A batch plan is a list of (start, length) slices. *)
Definition covered (plan : list (nat * nat)) (i : nat) : bool :=
  existsb (fun sl => Nat.leb (fst sl) i && Nat.ltb i (fst sl + snd sl)) plan.
Definition batch_eval {A B} (d : A) (f : A -> B) (garbage : nat -> B) (plan : list (nat * nat)) (l : list A) : list B :=
  map (fun i => if covered plan i then f (nth i l d) else garbage i) (seq 0 (List.length l)).

Inductive bplan :=
| NoBatch                  (* one call on all rows (today) *)
| FloorBatches (b : nat)   (* max(n // b, 1) batches of b rows *)
| CeilBatches (b : nat).   (* ceil(n / b) batches of b rows *)
Definition plan_of (bp : bplan) (n : nat) : list (nat * nat) :=
  match bp with
  | NoBatch => [(0, n)]
  | FloorBatches b => map (fun j => (j * b, b)) (seq 0 (Nat.max (n / b) 1))
  | CeilBatches b => map (fun j => (j * b, b)) (seq 0 ((n + b - 1) / b))
  end.
Definition bplan_ok (bp : bplan) : bool :=
  match bp with
  | NoBatch => true
  | FloorBatches _ => false
  | CeilBatches b => Nat.ltb 0 b
  end.
Definition bplan_today : bplan := NoBatch.

(* ---- random streams over the legs of a resumed run ------------------------------------------------------ *)
(* A generator state is (stream id, offset).  A fresh process has a stream of its own (OS entropy: the ids of
   different processes differ); the k-th draw of a leg is (stream, k).  What the resume path does to the
   generators: nothing, or seeding them from the pickled seed. *)
Inductive seff := SKeep | SReseed.
Definition is_reseed (e : seff) : bool := match e with SReseed => true | SKeep => false end.
Definition seeding_ok (effs : list seff) : bool := forallb (fun e => negb (is_reseed e)) effs.
Definition leg_draws (effs : list seff) (seed : nat) (leg : nat * nat) : list (nat * nat) :=
  let sid := if existsb is_reseed effs then seed else fst leg in
  map (fun k => (sid, k)) (seq 0 (snd leg)).
(* legs = (entropy of the process, number of draws) *)
Definition run_draws (effs : list seff) (seed : nat) (legs : list (nat * nat)) : list (nat * nat) :=
  flat_map (leg_draws effs seed) legs.
Definition seeding_today : list seff := [].
