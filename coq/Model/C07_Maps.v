(* C07 - model of nessai's reparameterisations (definitions only).

   Part 1: certified maps over R - the explicit real functions nessai implements
           (utils/rescaling.py, reparameterisations/{rescale,angle,null}.py, gw/utils.py).
   Part 2: the same maps as reified expressions ([expr] of Lib/C07_Interval) with the float
           rounding points of the implementation marked by [Rnd]; a configured
           RescaleToBounds / ScaleAndShift / Null / Angle object becomes a [block].
   Part 3: runners over R and over intervals (the interval twin of the model).

   TOLERANCE (explicit, used by Run/C07_run.v):  the interval twin inflates every [Rnd] node by the
   standard floating-point model  fl(v) = v(1+d)+t, |d| <= ulps*2^-53, |t| <= ulps*2^-1074  with
   [ulps] below.  An output of the implementation is accepted iff it lies INSIDE the resulting
   enclosure.  Near a singular bound (logit/log at a bound) the enclosure widens exactly as fast as
   rounding errors are amplified and becomes improper (NaI) when the singularity is within the
   rounding uncertainty of the coded formula: there, and only there, nothing is demanded of the value
   ("float behaviour at the last ulp"); everywhere else - arbitrarily close to the bounds, down to 1 ulp
   when the coded formula is exact there - the output is pinned to the model. *)
From Coq Require Import Reals ZArith List Bool.
From Coquelicot Require Import Coquelicot.
From NessaiV Require Import Lib.C07_Interval.
Import ListNotations.
Local Open Scope R_scope.

Definition ulps : Z := 16.          (* per-operation rounding allowance, in units of 2^-53 relative *)
Definition prec_bits : positive := 90.

(* ======================================================================= *)
(* Part 1: certified maps                                                   *)
(* ======================================================================= *)
Record cmap := { dom : R -> Prop; fwd : R -> R; bwd : R -> R; ljf : R -> R; ljg : R -> R }.

(* on dom: exact inverse, opposite log-Jacobians, and the reported forward log-Jacobian is
   ln |f'| up to one constant c for the whole domain *)
Definition cm_ok (m : cmap) : Prop :=
  exists c : R, forall x, dom m x ->
    bwd m (fwd m x) = x /\
    ljg m (fwd m x) = - ljf m x /\
    exists d, is_derive (fwd m) x d /\ Rabs d = exp (ljf m x + c).

Definition cm_id : cmap :=
  {| dom := fun _ => True; fwd := fun x => x; bwd := fun y => y; ljf := fun _ => 0; ljg := fun _ => 0 |}.

(* m1 first, then m2; log-Jacobians accumulate as the code does (log_j += lj) *)
Definition cm_comp (m1 m2 : cmap) : cmap :=
  {| dom := fun x => dom m1 x /\ dom m2 (fwd m1 x);
     fwd := fun x => fwd m2 (fwd m1 x);
     bwd := fun y => bwd m1 (bwd m2 y);
     ljf := fun x => ljf m1 x + ljf m2 (fwd m1 x);
     ljg := fun y => ljg m2 y + ljg m1 (bwd m2 y) |}.

Fixpoint cm_compose (l : list cmap) : cmap :=
  match l with [] => cm_id | m :: r => cm_comp m (cm_compose r) end.

(* rescale_zero_to_one / inverse_rescale_zero_to_one *)
Definition cm_zero_one (a b : R) : cmap :=
  {| dom := fun _ => True;
     fwd := fun x => (x - a) / (b - a);
     bwd := fun y => (b - a) * y + a;
     ljf := fun _ => - ln (b - a);
     ljg := fun _ => ln (b - a) |}.

(* rescale_minus_one_to_one / inverse *)
Definition cm_minus_one_one (a b : R) : cmap :=
  {| dom := fun _ => True;
     fwd := fun x => 2 * (x - a) / (b - a) - 1;
     bwd := fun y => (b - a) * ((y + 1) / 2) + a;
     ljf := fun _ => ln 2 - ln (b - a);
     ljg := fun _ => ln (b - a) - ln 2 |}.

(* RescaleToBounds._rescale_to_bounds / _inverse_rescale_to_bounds: [a,b] -> [lo, lo + fac] *)
Definition cm_to_bounds (a b lo fac : R) : cmap :=
  {| dom := fun _ => True;
     fwd := fun x => fac * ((x - a) / (b - a)) + lo;
     bwd := fun y => (b - a) * (y - lo) / fac + a;
     ljf := fun _ => - ln (b - a) + ln fac;
     ljg := fun _ => ln (b - a) - ln fac |}.

(* offset subtraction *)
Definition cm_shift (o : R) : cmap :=
  {| dom := fun _ => True; fwd := fun x => x - o; bwd := fun y => y + o;
     ljf := fun _ => 0; ljg := fun _ => 0 |}.

Definition sigmoidR (y : R) : R := 1 / (1 + exp (- y)).

(* logit / sigmoid (eps = None) *)
Definition cm_logit : cmap :=
  {| dom := fun x => 0 < x < 1;
     fwd := fun x => ln x - ln (1 - x);
     bwd := sigmoidR;
     ljf := fun x => - ln x - ln (1 - x);
     ljg := fun y => ln (sigmoidR y) + ln (1 - sigmoidR y) |}.

Definition cm_sigmoid : cmap :=
  {| dom := fun _ => True;
     fwd := sigmoidR;
     bwd := fun x => ln x - ln (1 - x);
     ljf := fun y => ln (sigmoidR y) + ln (1 - sigmoidR y);
     ljg := fun x => - ln x - ln (1 - x) |}.

(* logit(x, eps): np.clip(x, eps, 1 - eps) first *)
Definition clipR (lo hi x : R) : R := Rmin (Rmax x lo) hi.
Definition cm_logit_eps (eps : R) : cmap :=
  {| dom := fun x => eps < x < 1 - eps;        (* open: the clip has a kink at eps and 1 - eps *)
     fwd := fun x => ln (clipR eps (1 - eps) x) - ln (1 - clipR eps (1 - eps) x);
     bwd := sigmoidR;
     ljf := fun x => - ln (clipR eps (1 - eps) x) - ln (1 - clipR eps (1 - eps) x);
     ljg := fun y => ln (sigmoidR y) + ln (1 - sigmoidR y) |}.

(* log_with_log_jacobian / exp_with_log_jacobian *)
Definition cm_log : cmap :=
  {| dom := fun x => 0 < x; fwd := ln; bwd := exp; ljf := fun x => - ln x; ljg := fun y => y |}.
Definition cm_exp : cmap :=
  {| dom := fun _ => True; fwd := exp; bwd := ln; ljf := fun x => x; ljg := fun y => - ln y |}.

(* ScaleAndShift: x' = (x - t) / s *)
Definition cm_scale_shift (s t : R) : cmap :=
  {| dom := fun _ => True;
     fwd := fun x => (x - t) / s;
     bwd := fun y => y * s + t;
     ljf := fun _ => - ln (Rabs s);
     ljg := fun _ => ln (Rabs s) |}.

(* gw PowerLawConverter: u = (d / s)^p ; d = s * u^(1/p) *)
Definition cm_powerlaw (p s : R) : cmap :=
  {| dom := fun x => 0 < x;
     fwd := fun x => Rpower (x / s) p;
     bwd := fun u => s * Rpower u (1 / p);
     ljf := fun x => - p * ln s + ln p + (p - 1) * ln x;
     ljg := fun u => ln s - ln p + (1 / p - 1) * ln u |}.

(* boundary inversion: the sign is chosen by the implementation (random half / duplicate);
   the inverse takes the absolute value *)
Definition cm_fold (sgn : R) : cmap :=
  {| dom := fun x => 0 <= x; fwd := fun x => sgn * x; bwd := Rabs;
     ljf := fun _ => 0; ljg := fun _ => 0 |}.

(* 'upper' edge: x -> 1 - x, both ways *)
Definition cm_flip : cmap :=
  {| dom := fun _ => True; fwd := fun x => 1 - x; bwd := fun y => 1 - y;
     ljf := fun _ => 0; ljg := fun _ => 0 |}.

(* RescaleToBounds as a list of certified maps, for arbitrary real constants
   (prior bounds or the bounds after update(): only the constants differ) *)
Inductive edge := ENone | ELower | EUpper.
Definition rtb_maps (pre post : list cmap) (o b0 b1 lo fac : R) (inversion : bool) (e : edge) (sgn : R)
  : list cmap :=
  pre ++ cm_shift o ::
  (if inversion then
     match e with
     | ENone => [cm_minus_one_one b0 b1]
     | ELower => [cm_zero_one b0 b1; cm_fold sgn]
     | EUpper => [cm_zero_one b0 b1; cm_flip; cm_fold sgn]
     end
   else [cm_to_bounds b0 b1 lo fac])
  ++ post.

(* determine_rescaled_bounds *)
Definition rescaled_bounds (pmin pmax xmin xmax : R) (inversion : bool) (e : option edge)
           (offset lo hi : R) : R * R :=
  let scale := if inversion then 1 else hi - lo in
  let shift := if inversion then 0 else lo in
  let lower := scale * (pmin - offset - xmin) / (xmax - xmin) + shift in
  let upper := scale * (pmax - offset - xmin) / (xmax - xmin) + shift in
  if inversion then
    match e with
    | None | Some ENone => (2 * lower - 1, 2 * upper - 1)
    | Some EUpper => (lower - 1, 1 - lower)
    | Some ELower => (- upper, upper)
    end
  else (lower, upper).

(* ---- 2-d polar map (Angle / ToCartesian) ------------------------------------- *)
Definition polar_x (s th r : R) : R := r * cos (s * th).
Definition polar_y (s th r : R) : R := r * sin (s * th).
(* arctan2 away from its cut, by the half-angle formula *)
Definition atan2R (y x : R) : R := 2 * atan (y / (sqrt (x * x + y * y) + x)).
(* arctan2 % 2pi away from ITS cut (the positive x axis) *)
Definition atan2pR (y x : R) : R := PI + atan2R (- y) (- x).
Definition radiusR (x y : R) : R := sqrt (x * x + y * y).

(* ---- 3-d spherical maps (AnglePair) --------------------------------------------- *)
Definition azzen_x (a z r : R) := r * sin z * cos a.
Definition azzen_y (a z r : R) := r * sin z * sin a.
Definition azzen_z (a z r : R) := r * cos z.
Definition radec_x (a d r : R) := r * cos d * cos a.
Definition radec_y (a d r : R) := r * cos d * sin a.
Definition radec_z (a d r : R) := r * sin d.
Definition det3 (a11 a12 a13 a21 a22 a23 a31 a32 a33 : R) : R :=
  a11 * (a22 * a33 - a23 * a32) - a12 * (a21 * a33 - a23 * a31) + a13 * (a21 * a32 - a22 * a31).

(* ======================================================================= *)
(* Part 2: the maps as expressions with rounding points                     *)
(* ======================================================================= *)
(* environment layout of every expression:  V 0 = current value, V 1 = per-point auxiliary value
   (fold sign, or radius), V (2+j) = parameter j of the block *)
Definition X0 := V 0.
Definition AUX := V 1.
Definition P (j : nat) := V (2 + j).
Definition c0 := K 0 0.
Definition c1 := K 1 0.
Definition c2 := K 2 0.

Record stage := { sf : expr; sljf : expr; sg : expr; sljg : expr }.

Definition st_id : stage := {| sf := X0; sljf := c0; sg := X0; sljg := c0 |}.

Definition st_zero_one (a b : expr) : stage :=
  {| sf := Rnd (Div (Rnd (Sub X0 a)) (Rnd (Sub b a)));
     sljf := Rnd (Neg (Rnd (Ln (Rnd (Sub b a)))));
     sg := Rnd (Add (Rnd (Mul (Rnd (Sub b a)) X0)) a);
     sljg := Rnd (Ln (Rnd (Sub b a))) |}.

Definition st_minus_one_one (a b : expr) : stage :=
  {| sf := Rnd (Sub (Rnd (Div (Rnd (Mul c2 (Rnd (Sub X0 a)))) (Rnd (Sub b a)))) c1);
     sljf := Rnd (Sub (Rnd (Ln c2)) (Rnd (Ln (Rnd (Sub b a)))));
     sg := Rnd (Add (Rnd (Mul (Rnd (Sub b a)) (Rnd (Div (Rnd (Add X0 c1)) c2)))) a);
     sljg := Rnd (Sub (Rnd (Ln (Rnd (Sub b a)))) (Rnd (Ln c2))) |}.

Definition st_to_bounds (a b lo fac : expr) : stage :=
  {| sf := Rnd (Add (Rnd (Mul fac (Rnd (Div (Rnd (Sub X0 a)) (Rnd (Sub b a)))))) lo);
     sljf := Rnd (Add (Rnd (Neg (Rnd (Ln (Rnd (Sub b a)))))) (Rnd (Ln fac)));
     sg := Rnd (Add (Rnd (Div (Rnd (Mul (Rnd (Sub b a)) (Rnd (Sub X0 lo)))) fac)) a);
     sljg := Rnd (Sub (Rnd (Ln (Rnd (Sub b a)))) (Rnd (Ln fac))) |}.

Definition st_shift (o : expr) : stage :=
  {| sf := Rnd (Sub X0 o); sljf := c0; sg := Rnd (Add X0 o); sljg := c0 |}.

(* np.log1p(-x) is accurate relative to its result: the inner 1 - x is not a rounding point *)
Definition e_logit (x : expr) := Rnd (Sub (Rnd (Ln x)) (Rnd (Ln (Sub c1 x)))).
Definition e_logit_lj (x : expr) := Rnd (Sub (Rnd (Neg (Rnd (Ln x)))) (Rnd (Ln (Sub c1 x)))).
Definition e_sigmoid (y : expr) := Rnd (Div c1 (Rnd (Add c1 (Rnd (Exp (Neg y)))))).
Definition e_sigmoid_lj (y : expr) :=
  Rnd (Add (Rnd (Ln (e_sigmoid y))) (Rnd (Ln (Sub c1 (e_sigmoid y))))).

Definition st_logit : stage :=
  {| sf := e_logit X0; sljf := e_logit_lj X0; sg := e_sigmoid X0; sljg := e_sigmoid_lj X0 |}.
Definition st_sigmoid : stage :=
  {| sf := e_sigmoid X0; sljf := e_sigmoid_lj X0; sg := e_logit X0; sljg := e_logit_lj X0 |}.
Definition st_log : stage :=
  {| sf := Rnd (Ln X0); sljf := Neg (Rnd (Ln X0)); sg := Rnd (Exp X0); sljg := X0 |}.
Definition st_exp : stage :=
  {| sf := Rnd (Exp X0); sljf := X0; sg := Rnd (Ln X0); sljg := Neg (Rnd (Ln X0)) |}.

(* np.clip as max/min through |.|: max(a,b) = (a+b+|a-b|)/2 ; exact in floating point, no Rnd *)
Definition e_max (a b : expr) := Div (Add (Add a b) (Abs (Sub a b))) c2.
Definition e_min (a b : expr) := Div (Sub (Add a b) (Abs (Sub a b))) c2.
Definition e_clip (lo hi x : expr) := e_min (e_max x lo) hi.
Definition st_logit_eps (eps : expr) : stage :=
  let xc := e_clip eps (Rnd (Sub c1 eps)) X0 in
  {| sf := e_logit xc; sljf := e_logit_lj xc; sg := e_sigmoid X0; sljg := e_sigmoid_lj X0 |}.

Definition st_scale_shift (s t : expr) (has_shift : bool) : stage :=
  {| sf := if has_shift then Rnd (Div (Rnd (Sub X0 t)) s) else Rnd (Div X0 s);
     sljf := Rnd (Neg (Rnd (Ln (Abs s))));
     sg := if has_shift then Rnd (Add (Rnd (Mul X0 s)) t) else Rnd (Mul X0 s);
     sljg := Rnd (Ln (Abs s)) |}.

(* x ** p through exp/ln; numpy's pow, sqrt and cbrt are accurate relative to the result *)
Definition e_pow (x p : expr) := Rnd (Exp (Mul p (Ln x))).
Definition st_powerlaw (p s : expr) : stage :=
  {| sf := e_pow (Rnd (Div X0 s)) p;
     sljf := Rnd (Add (Rnd (Add (Rnd (Mul (Neg p) (Rnd (Ln s)))) (Rnd (Ln p))))
                      (Rnd (Mul (Rnd (Sub p c1)) (Rnd (Ln X0)))));
     sg := Rnd (Mul s (e_pow X0 (Div c1 p)));
     sljg := Rnd (Add (Rnd (Sub (Rnd (Ln s)) (Rnd (Ln p))))
                      (Rnd (Mul (Rnd (Sub (Rnd (Div c1 p)) c1)) (Rnd (Ln X0))))) |}.

(* sign in AUX (+1 or -1) *)
Definition st_fold : stage := {| sf := Mul AUX X0; sljf := c0; sg := Abs X0; sljg := c0 |}.
Definition st_flip : stage :=
  {| sf := Rnd (Sub c1 X0); sljf := c0; sg := Rnd (Sub c1 X0); sljg := c0 |}.

(* ---- configuration of one RescaleToBounds parameter ------------------------------ *)
Definition dy := (Z * Z)%type.
Definition Kd (d : dy) := K (fst d) (snd d).

Inductive prek := PreNone | PreLog | PreExp | PreLogit | PrePower (p s : dy).
Inductive postk := PostNone | PostLogit | PostLog | PostExp.
Inductive invk := InvOff | InvNoEdge | InvLower | InvUpper.

Record rtb := {
  r_pre : prek; r_post : postk; r_inv : invk; r_offset : bool;
  r_a : dy; r_b : dy;                  (* prior bounds *)
  r_lo : dy; r_hi : dy;                (* rescale_bounds *)
  r_upd : option (dy * dy)             (* min / max of the data given to update(), when bounds are updated *)
}.

Definition pre_stage (k : prek) : list stage :=
  match k with
  | PreNone => []
  | PreLog => [st_log] | PreExp => [st_exp] | PreLogit => [st_logit]
  | PrePower p s => [st_powerlaw (Kd p) (Kd s)]
  end.
Definition post_stage (k : postk) : list stage :=
  match k with
  | PostNone => [] | PostLogit => [st_logit] | PostLog => [st_log] | PostExp => [st_exp]
  end.

(* substitute a closed expression for the current value *)
Fixpoint subst0 (e s : expr) : expr :=
  match e with
  | V 0 => s
  | V n => V n | K m x => K m x | EPi => EPi
  | Add a b => Add (subst0 a s) (subst0 b s) | Sub a b => Sub (subst0 a s) (subst0 b s)
  | Mul a b => Mul (subst0 a s) (subst0 b s) | Div a b => Div (subst0 a s) (subst0 b s)
  | Neg a => Neg (subst0 a s) | Abs a => Abs (subst0 a s) | Ln a => Ln (subst0 a s)
  | Exp a => Exp (subst0 a s) | Sqrt a => Sqrt (subst0 a s) | Cos a => Cos (subst0 a s)
  | Sin a => Sin (subst0 a s) | Atan a => Atan (subst0 a s) | Rnd a => Rnd (subst0 a s)
  end.
Definition pre_of (k : prek) (e : expr) : expr :=
  match pre_stage k with [] => e | s :: _ => subst0 (sf s) e end.

(* parameters:  0 pre(a)  1 pre(b)  2 offset  3 bounds[0]  4 bounds[1]  5 lo  6 hi  7 factor = ptp(rescale_bounds) *)
Definition rtb_params (c : rtb) : list expr :=
  [ pre_of (r_pre c) (Kd (r_a c));
    pre_of (r_pre c) (Kd (r_b c));
    (if r_offset c then Rnd (Add (P 0) (Rnd (Div (Rnd (Sub (P 1) (P 0))) c2))) else c0);
    (match r_upd c with
     | None => Rnd (Sub (P 0) (P 2))
     | Some (mn, _) => Rnd (Sub (pre_of (r_pre c) (Kd mn)) (P 2)) end);
    (match r_upd c with
     | None => Rnd (Sub (P 1) (P 2))
     | Some (_, mx) => Rnd (Sub (pre_of (r_pre c) (Kd mx)) (P 2)) end);
    Kd (r_lo c); Kd (r_hi c);
    Rnd (Sub (P 6) (P 5)) ].

Definition rtb_stages (c : rtb) : list stage :=
  pre_stage (r_pre c) ++
  match r_inv c with
  | InvOff => [st_shift (P 2); st_to_bounds (P 3) (P 4) (P 5) (P 7)]
  | InvNoEdge => [st_shift (P 2); st_minus_one_one (P 3) (P 4)]
  | InvLower => [st_shift (P 2); st_zero_one (P 3) (P 4); st_fold]
  | InvUpper => [st_shift (P 2); st_zero_one (P 3) (P 4); st_flip; st_fold]
  end ++ post_stage (r_post c).

(* the certified maps a configuration denotes *)
Definition dyR (d : dy) : R := IZR (fst d) * powerRZ 2 (snd d).
Definition pre_maps (k : prek) : list cmap :=
  match k with
  | PreNone => [] | PreLog => [cm_log] | PreExp => [cm_exp] | PreLogit => [cm_logit]
  | PrePower p s => [cm_powerlaw (dyR p) (dyR s)]
  end.
Definition post_maps (k : postk) : list cmap :=
  match k with PostNone => [] | PostLogit => [cm_logit] | PostLog => [cm_log] | PostExp => [cm_exp] end.
Definition inv_on (i : invk) : bool := match i with InvOff => false | _ => true end.
Definition inv_edge (i : invk) : edge :=
  match i with InvLower => ELower | InvUpper => EUpper | _ => ENone end.
Definition rtb_cmaps (c : rtb) (o b0 b1 lo fac sgn : R) : list cmap :=
  rtb_maps (pre_maps (r_pre c)) (post_maps (r_post c)) o b0 b1 lo fac (inv_on (r_inv c)) (inv_edge (r_inv c)) sgn.

(* a stage (expressions) denotes a certified map under a parameter environment *)
Definition stage_den (tl : list R) (s : stage) (m : cmap) : Prop :=
  forall x, evalR (x :: tl) (sf s) = fwd m x /\ evalR (x :: tl) (sljf s) = ljf m x /\
            evalR (x :: tl) (sg s) = bwd m x /\ evalR (x :: tl) (sljg s) = ljg m x.

(* prime-prior bounds as update_prime_prior_bounds computes them (no post-rescaling when a prime prior exists) *)
Definition rtb_prime_bounds (c : rtb) : expr * expr :=
  let pmin := P 0 in let pmax := P 1 in let xmin := P 3 in let xmax := P 4 in let off := P 2 in
  let inversion := match r_inv c with InvOff => false | _ => true end in
  let scale := if inversion then c1 else P 7 in
  let shift := if inversion then c0 else P 5 in
  let lw := Rnd (Add (Rnd (Div (Rnd (Mul scale (Rnd (Sub (Rnd (Sub pmin off)) xmin)))) (Rnd (Sub xmax xmin)))) shift) in
  let up := Rnd (Add (Rnd (Div (Rnd (Mul scale (Rnd (Sub (Rnd (Sub pmax off)) xmin)))) (Rnd (Sub xmax xmin)))) shift) in
  match r_inv c with
  | InvOff => (lw, up)
  | InvNoEdge => (Rnd (Sub (Rnd (Mul c2 lw)) c1), Rnd (Sub (Rnd (Mul c2 up)) c1))
  | InvUpper => (Rnd (Sub lw c1), Rnd (Sub c1 lw))
  | InvLower => (Neg up, up)
  end.

(* ---- blocks: what one reparameterisation object does to its parameters ----------------- *)
(* B1: one parameter through a pipeline of stages.
   BN: n inputs -> n outputs by explicit expressions; env = inputs ++ [aux] ++ params for the forward
       expressions and primes ++ [aux] ++ params for the inverse ones. *)
Inductive block :=
| B1 (stages : list stage) (params : list expr)
| BN (n : nat) (fw : list expr) (fwlj : expr) (bw : list expr) (bwlj : expr) (params : list expr).

Definition blk_rtb (c : rtb) : block := B1 (rtb_stages c) (rtb_params c).
Definition blk_null : block := B1 [] [].
Definition blk_scale_shift (s t : dy) (has_shift : bool) : block :=
  B1 [st_scale_shift (P 0) (P 1) has_shift] [Kd s; Kd t].

(* Angle: inputs (angle, radius); params: 0 scale ; zero_bound decides the inverse branch.
   inverse inputs (x, y). *)
Definition Vn (n : nat) := V n.
Definition e_atan2 (y x : expr) :=
  Rnd (Mul c2 (Atan (Div y (Add (Sqrt (Add (Mul x x) (Mul y y))) x)))).
Definition e_atan2p (y x : expr) := Rnd (Add EPi (e_atan2 (Neg y) (Neg x))).
Definition e_radius (x y : expr) := Rnd (Sqrt (Rnd (Add (Rnd (Mul x x)) (Rnd (Mul y y))))).

(* env forward: [angle; radius; aux; scale] ; env inverse: [x; y; aux; scale] *)
Definition blk_angle (scale : expr) (zero_bound : bool) : block :=
  let sc := V 3 in
  let ang := Rnd (Mul (V 0) sc) in
  BN 2
     [Rnd (Mul (V 1) (Rnd (Cos ang))); Rnd (Mul (V 1) (Rnd (Sin ang)))]
     (Rnd (Ln (V 1)))
     [Rnd (Div ((if zero_bound then e_atan2p else e_atan2) (V 1) (V 0)) sc); e_radius (V 0) (V 1)]
     (Neg (Rnd (Ln (e_radius (V 0) (V 1)))))
     [scale].

(* ToCartesian: angle = sign * scale * (x - a)/(b - a) ; env forward [x; radius; sign; a; b; scale],
   inverse [X; Y; sign; a; b; scale] *)
Definition blk_to_cartesian (a b scale : expr) : block :=
  let pa := V 3 in let pb := V 4 in let sc := V 5 in
  let u := Rnd (Div (Rnd (Sub (V 0) pa)) (Rnd (Sub pb pa))) in
  let ang := Rnd (Mul (Mul (V 2) u) sc) in
  let th := Rnd (Div (e_atan2 (V 1) (V 0)) sc) in
  BN 2
     [Rnd (Mul (V 1) (Rnd (Cos ang))); Rnd (Mul (V 1) (Rnd (Sin ang)))]
     (Rnd (Add (Rnd (Neg (Rnd (Ln (Rnd (Sub pb pa)))))) (Rnd (Ln (V 1)))))
     [Rnd (Add (Rnd (Mul (Rnd (Sub pb pa)) (Abs th))) pa); e_radius (V 0) (V 1)]
     (Rnd (Add (Neg (Rnd (Ln (e_radius (V 0) (V 1))))) (Rnd (Ln (Rnd (Sub pb pa))))))
     [a; b; scale].

(* AnglePair: inputs (horizontal angle, vertical angle, radius); env [a; v; r; aux] / [x; y; z; aux] *)
Definition e_radius3 (x y z : expr) :=
  Rnd (Sqrt (Rnd (Add (Rnd (Add (Rnd (Mul x x)) (Rnd (Mul y y)))) (Rnd (Mul z z))))).
Definition blk_angle_pair (azzen modulo : bool) : block :=
  let a := V 0 in let v := V 1 in let r := V 2 in
  let sv := Rnd (Sin v) in let cv := Rnd (Cos v) in
  let hz := if azzen then sv else cv in      (* factor of the horizontal components *)
  let vt := if azzen then cv else sv in
  let x := V 0 in let y := V 1 in let z := V 2 in
  let rho := e_radius x y in
  let vert := if azzen then e_atan2 rho z else e_atan2 z rho in
  let trig := if azzen then Rnd (Sin vert) else Rnd (Cos vert) in
  BN 3
     [Rnd (Mul (Rnd (Mul r hz)) (Rnd (Cos a))); Rnd (Mul (Rnd (Mul r hz)) (Rnd (Sin a))); Rnd (Mul r vt)]
     (Rnd (Add (Rnd (Mul c2 (Rnd (Ln r)))) (Rnd (Ln hz))))
     [(if modulo then e_atan2p else e_atan2) y x; vert; e_radius3 x y z]
     (Rnd (Sub (Rnd (Mul (Neg c2) (Rnd (Ln (e_radius3 x y z))))) (Rnd (Ln trig))))
     [].

(* ======================================================================= *)
(* Part 3: runners (R and interval twins)                                   *)
(* ======================================================================= *)
Section Runners.
Variable prec : F.precision.
Variable k : Z.

(* parameters are evaluated once, in order; parameter j may use parameters < j *)
Fixpoint paramsR (ps : list expr) (acc : list R) : list R :=
  match ps with [] => acc | p :: r => paramsR r (acc ++ [evalR (0 :: 0 :: acc) p]) end.
Fixpoint paramsI (ps : list expr) (acc : list I.type) : list I.type :=
  match ps with [] => acc | p :: r => paramsI r (acc ++ [evalI prec k (I.zero :: I.zero :: acc) p]) end.

Fixpoint fwdR (ss : list stage) (tl : list R) (x lj : R) : R * R :=
  match ss with
  | [] => (x, lj)
  | s :: r => fwdR r tl (evalR (x :: tl) (sf s)) (lj + evalR (x :: tl) (sljf s))
  end.
Fixpoint fwdI (ss : list stage) (tl : list I.type) (x lj : I.type) : I.type * I.type :=
  match ss with
  | [] => (x, lj)
  | s :: r => fwdI r tl (evalI prec k (x :: tl) (sf s))
                   (inflate prec k (I.add prec lj (evalI prec k (x :: tl) (sljf s))))
  end.

(* the inverse runs the stages in reverse order with sg / sljg; [ss] is given already reversed *)
Fixpoint bwdR (ss : list stage) (tl : list R) (y lj : R) : R * R :=
  match ss with
  | [] => (y, lj)
  | s :: r => bwdR r tl (evalR (y :: tl) (sg s)) (lj + evalR (y :: tl) (sljg s))
  end.
Fixpoint bwdI (ss : list stage) (tl : list I.type) (y lj : I.type) : I.type * I.type :=
  match ss with
  | [] => (y, lj)
  | s :: r => bwdI r tl (evalI prec k (y :: tl) (sg s))
                   (inflate prec k (I.add prec lj (evalI prec k (y :: tl) (sljg s))))
  end.

(* one block, forward: inputs, aux -> outputs, lj *)
Definition blockR_fwd (b : block) (xs : list R) (aux lj : R) : list R * R :=
  match b with
  | B1 ss ps =>
      let (y, l) := fwdR ss (aux :: paramsR ps []) (nth 0 xs 0) lj in ([y], l)
  | BN n fw fwlj _ _ ps =>
      let env := xs ++ aux :: paramsR ps [] in
      (map (evalR env) fw, lj + evalR env fwlj)
  end.
Definition blockI_fwd (b : block) (xs : list I.type) (aux lj : I.type) : list I.type * I.type :=
  match b with
  | B1 ss ps =>
      let (y, l) := fwdI ss (aux :: paramsI ps []) (nth 0 xs I.nai) lj in ([y], l)
  | BN n fw fwlj _ _ ps =>
      let env := xs ++ aux :: paramsI ps [] in
      (map (evalI prec k env) fw, inflate prec k (I.add prec lj (evalI prec k env fwlj)))
  end.
Definition blockR_bwd (b : block) (ys : list R) (aux lj : R) : list R * R :=
  match b with
  | B1 ss ps =>
      let (x, l) := bwdR (rev ss) (aux :: paramsR ps []) (nth 0 ys 0) lj in ([x], l)
  | BN n _ _ bw bwlj ps =>
      let env := ys ++ aux :: paramsR ps [] in
      (map (evalR env) bw, lj + evalR env bwlj)
  end.
Definition blockI_bwd (b : block) (ys : list I.type) (aux lj : I.type) : list I.type * I.type :=
  match b with
  | B1 ss ps =>
      let (x, l) := bwdI (rev ss) (aux :: paramsI ps []) (nth 0 ys I.nai) lj in ([x], l)
  | BN n _ _ bw bwlj ps =>
      let env := ys ++ aux :: paramsI ps [] in
      (map (evalI prec k env) bw, inflate prec k (I.add prec lj (evalI prec k env bwlj)))
  end.

(* CombinedReparameterisation: blocks in to_prime order, log_j threaded through *)
Fixpoint combR_fwd (bs : list (block * list R * R)) (lj : R) : list (list R) * R :=
  match bs with
  | [] => ([], lj)
  | (b, xs, aux) :: r =>
      let (ys, l) := blockR_fwd b xs aux lj in
      let (rest, l') := combR_fwd r l in (ys :: rest, l')
  end.
Fixpoint combI_fwd (bs : list (block * list I.type * I.type)) (lj : I.type) : list (list I.type) * I.type :=
  match bs with
  | [] => ([], lj)
  | (b, xs, aux) :: r =>
      let (ys, l) := blockI_fwd b xs aux lj in
      let (rest, l') := combI_fwd r l in (ys :: rest, l')
  end.
(* inverse: the caller passes the blocks in from_prime order *)
Fixpoint combR_bwd (bs : list (block * list R * R)) (lj : R) : list (list R) * R :=
  match bs with
  | [] => ([], lj)
  | (b, ys, aux) :: r =>
      let (xs, l) := blockR_bwd b ys aux lj in
      let (rest, l') := combR_bwd r l in (xs :: rest, l')
  end.
Fixpoint combI_bwd (bs : list (block * list I.type * I.type)) (lj : I.type) : list (list I.type) * I.type :=
  match bs with
  | [] => ([], lj)
  | (b, ys, aux) :: r =>
      let (xs, l) := blockI_bwd b ys aux lj in
      let (rest, l') := combI_bwd r l in (xs :: rest, l')
  end.
End Runners.

(* ======================================================================= *)
(* Part 4: the registry (tie A skeleton): name -> class, kwargs, as regenerated from the source *)
(* ======================================================================= *)
From Coq Require Import String.
Local Open Scope string_scope.

Inductive kwv := KVtrue | KVfalse | KVnone | KVstr (s : string) | KVnum | KVlist | KVdict | KVother.
Record rentry := { re_name : string; re_class : string; re_kw : list (string * kwv) }.

(* what a registered entry is modelled by *)
Inductive mkind :=
| MKrtb (pre : prek) (post : postk) (inversion offset : bool)
| MKscale | MKnull | MKangle | MKcart | MKpair
| MKdist (inversion offset : bool)
| MKdelta.

Fixpoint kw_get (k : string) (l : list (string * kwv)) : option kwv :=
  match l with [] => None | (k', v) :: r => if String.eqb k k' then Some v else kw_get k r end.

Definition is_bool (v : kwv) := match v with KVtrue | KVfalse => true | _ => false end.
Definition truthy (o : option kwv) := match o with Some KVtrue | Some KVlist | Some KVdict => true | _ => false end.

Definition rtb_key_ok (kv : string * kwv) : bool :=
  let (k, v) := kv in
  if String.eqb k "prior" then match v with KVnone => true | KVstr s => String.eqb s "uniform" | _ => false end
  else if String.eqb k "rescale_bounds" then match v with KVnone | KVlist | KVdict => true | _ => false end
  else if String.eqb k "boundary_inversion" then match v with KVnone | KVtrue | KVfalse | KVlist | KVdict => true | _ => false end
  else if String.eqb k "detect_edges" then is_bool v
  else if String.eqb k "inversion_type" then match v with KVstr s => String.eqb s "split" || String.eqb s "duplicate" | _ => false end
  else if String.eqb k "detect_edges_kwargs" then match v with KVnone | KVdict => true | _ => false end
  else if String.eqb k "offset" then is_bool v
  else if String.eqb k "update_bounds" then is_bool v
  else if String.eqb k "pre_rescaling" then true
  else if String.eqb k "post_rescaling" then true
  else false.

Definition pre_of_kw (o : option kwv) : option prek :=
  match o with
  | None | Some KVnone => Some PreNone
  | Some (KVstr s) => if String.eqb s "log" then Some PreLog else if String.eqb s "exp" then Some PreExp
                      else if String.eqb s "logit" then Some PreLogit else None
  | _ => None
  end.
Definition post_of_kw (o : option kwv) : option postk :=
  match o with
  | None | Some KVnone => Some PostNone
  | Some (KVstr s) => if String.eqb s "log" then Some PostLog else if String.eqb s "exp" then Some PostExp
                      else if String.eqb s "logit" then Some PostLogit else None
  | _ => None
  end.

Definition keys_in (allowed : list string) (l : list (string * kwv)) : bool :=
  forallb (fun kv => existsb (String.eqb (fst kv)) allowed) l.

Definition classify (e : rentry) : option mkind :=
  let kw := re_kw e in
  let c := re_class e in
  if String.eqb c "RescaleToBounds" then
    if forallb rtb_key_ok kw then
      match pre_of_kw (kw_get "pre_rescaling" kw), post_of_kw (kw_get "post_rescaling" kw) with
      | Some pre, Some post =>
          Some (MKrtb pre post (truthy (kw_get "boundary_inversion" kw)) (truthy (kw_get "offset" kw)))
      | _, _ => None
      end
    else None
  else if String.eqb c "DistanceReparameterisation" then
    if forallb (fun kv => rtb_key_ok kv || existsb (String.eqb (fst kv)) ["allowed_bounds"; "allow_both"; "converter_kwargs"]) kw
    then Some (MKdist (truthy (kw_get "boundary_inversion" kw)) (truthy (kw_get "offset" kw))) else None
  else if String.eqb c "ScaleAndShift" || String.eqb c "Rescale" then
    if keys_in ["scale"; "shift"; "estimate_scale"; "estimate_shift"] kw then Some MKscale else None
  else if String.eqb c "NullReparameterisation" then
    match kw with [] => Some MKnull | _ => None end
  else if String.eqb c "Angle" then
    if keys_in ["scale"; "prior"] kw then Some MKangle else None
  else if String.eqb c "ToCartesian" then
    if keys_in ["scale"; "prior"; "mode"] kw then Some MKcart else None
  else if String.eqb c "AnglePair" then
    if keys_in ["prior"; "convention"] kw then Some MKpair else None
  else if String.eqb c "DeltaPhaseReparameterisation" then
    match kw with [] => Some MKdelta | _ => None end
  else None.

Definition classified (e : rentry) : bool := match classify e with Some _ => true | None => false end.
Definition unclassified_names (l : list rentry) : list string :=
  map re_name (filter (fun e => negb (classified e)) l).

(* ======================================================================= *)
(* Part 5: prime priors: densities of the original space and the formulas of nessai/priors.py *)
(* ======================================================================= *)
Local Open Scope R_scope.
(* chi distribution with 2 / 3 degrees of freedom (the auxiliary radius), sine law on [0, pi], isotropic angles *)
Definition chi2_logpdf (r : R) : R := ln r - r * r / 2.
Definition chi3_logpdf (r : R) : R := / 2 * ln (2 / PI) + 2 * ln r - r * r / 2.
Definition sine_logpdf (a : R) : R := ln (sin a / 2).
Definition iso_logpdf (t : R) : R := ln (t / 2) - ln (2 * PI).   (* t = sin zenith or cos declination; azimuth uniform on 2 pi *)
(* nessai/priors.py as coded *)
Definition prior2d (x y k : R) : R := - ln k - (x * x + y * y) / 2.
Definition prior2d_sine (x y : R) : R := ln (y / 2) - / 2 * ln (x * x + y * y) - (x * x + y * y) / 2.
Definition prior3d (x y z : R) : R := - (3 / 2) * ln (2 * PI) - (x * x + y * y + z * z) / 2.

(* "log p(x) - log_J" of the offering blocks, as expressions with the rounding points of a float evaluation;
   env = inputs of the block.  Angle / ToCartesian: [angle; radius] ; AnglePair: [horizontal; vertical; radius]. *)
Definition e_chi2 (r : expr) := Rnd (Sub (Rnd (Ln r)) (Rnd (Div (Rnd (Mul r r)) c2))).
Definition pp_polar_uniform (r : expr) : expr := Rnd (Sub (e_chi2 r) (Rnd (Ln r))).
Definition pp_polar_sine (ang r sc : expr) : expr :=
  Rnd (Sub (Rnd (Add (Rnd (Ln (Rnd (Div (Rnd (Sin (Rnd (Mul ang sc)))) c2)))) (e_chi2 r))) (Rnd (Ln r))).
Definition pp_sphere (azzen : bool) (v r : expr) : expr :=
  let hz := if azzen then Rnd (Sin v) else Rnd (Cos v) in
  let chi3 := Rnd (Sub (Rnd (Add (Rnd (Div (Rnd (Ln (Rnd (Div c2 (Rnd EPi))))) c2)) (Rnd (Mul c2 (Rnd (Ln r))))))
                       (Rnd (Div (Rnd (Mul r r)) c2))) in
  let iso := Rnd (Sub (Rnd (Ln (Rnd (Div hz c2)))) (Rnd (Ln (Rnd (Mul c2 (Rnd EPi)))))) in
  Rnd (Sub (Rnd (Add iso chi3)) (Rnd (Add (Rnd (Mul c2 (Rnd (Ln r)))) (Rnd (Ln hz))))).
