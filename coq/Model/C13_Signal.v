(* C13 - a termination signal before any statement of the iteration, then resume.
   The iteration is the effect list of Lib/Effects.v interpreted by Model/C01_LiveSet.v (shared with
   C01).  A signal before effect k pickles the state after [firstn k effs] (locals are lost, the
   proposal's pool - the rest of the stream - is pickled with it); resume restarts the loop from its
   top on that state.  Definitions only.                                                        *)
From Coq Require Import String ZArith List Bool.
From NessaiV Require Import Lib.Effects Model.C01_LiveSet.
Import ListNotations.

(* the checkpoint written by a signal delivered before effect k *)
Definition interrupt (P : params) (effs : list eff) (k : nat) (s : state) (ds : list draw)
  : option (state * list draw) :=
  match run_effs P (firstn k effs) (inject s ds) with
  | Some m => Some (ms m, rs m)
  | None => None
  end.

(* resume: j further complete iterations from the checkpointed state, then finalise *)
Definition resume_run (P : params) (effs : list eff) (k j : nat) (s : state) (ds : list draw)
  : option state :=
  match interrupt P effs k s ds with
  | Some (s', r) => match run j s' r with Some (s'', _) => Some (finalise s'') | None => None end
  | None => None
  end.

(* abstract effect of a prefix on the tracked fields: which of the six mutations of one replacement
   have happened (state.increment, nested_samples.append, iteration += 1, the shift, the write,
   insertion_indices.append)                                                                     *)
Definition none_done (a : abs) : bool :=
  negb (dSt a) && negb (dDe a) && negb (dIt a) && negb (dSh a) && negb (dWr a) && negb (dAi a).
Definition all_done (a : abs) : bool :=
  dSt a && dDe a && dIt a && dSh a && dWr a && dAi a.
(* balanced = all untouched, or all advanced by exactly one replacement *)
Definition balanced (a : abs) : bool := none_done a || all_done a.

Definition delta (effs : list eff) (k : nat) : option abs := abs_run (firstn k effs) abs0.
Definition classify (effs : list eff) (k : nat) : option bool :=
  match delta effs k with Some a => Some (balanced a) | None => None end.

(* boundaries 0 .. length effs of a list, with their verdicts *)
Definition unsafe_boundaries (effs : list eff) : list nat :=
  filter (fun k => match classify effs k with Some false => true | _ => false end)
         (seq 0 (S (length effs))).
Definition unclassified (effs : list eff) : list nat :=
  filter (fun k => match classify effs k with None => true | _ => false end) (seq 0 (S (length effs))).

(* the unsafe window recorded as known finding D2: state.increment or nested_samples.append has
   happened (or started), insertion_indices.append has not - and, once the new point has been
   WRITTEN, recording its index is the very next effect.  Any further statement executed in the
   state "new point written, index not recorded" is a boundary the recorded finding does not cover
   (it is consistent on the unchanged tree).                                                       *)
Definition is_append_idx (e : eff) : bool := match e with AppendIdx => true | _ => false end.
Definition in_known_window (effs : list eff) (k : nat) (a : abs) : bool :=
  (dSt a || dDe a) && negb (dAi a) && (negb (dWr a) || is_append_idx (nth k effs Skip)).
Definition outside_known_window (effs : list eff) : list nat :=
  filter (fun k => match delta effs k with
                   | Some a => negb (balanced a) && negb (in_known_window effs k a)
                   | None => false end)
         (seq 0 (S (length effs))).

(* observable summary of a checkpoint relative to the state at the start of the iteration:
   (evidence-state entries, recorded dead points, iteration, insertion indices) advanced?,
   live set shifted?, new point written?                                                      *)
Definition obs_delta := (bool * bool * bool * bool * bool * bool)%type.
Definition abs_obs (a : abs) : obs_delta := (dSt a, dDe a, dIt a, dAi a, dSh a, dWr a).
Definition obs_balanced (o : obs_delta) : bool :=
  let '(st, de, it, ai, sh, wr) := o in
  (negb st && negb de && negb it && negb ai && negb sh && negb wr) || (st && de && it && ai && sh && wr).

Fixpoint zlist_eqb (x y : list Z) : bool :=
  match x, y with
  | [], [] => true
  | u :: x', v :: y' => (u =? v)%Z && zlist_eqb x' y'
  | _, _ => false
  end.

(* consistency of a final state: what the property demands of the result of the resumed run *)
Definition final_ok_b (n : nat) (s : state) : bool :=
  nodupb (map pid (dead s))                                  (* no point recorded twice           *)
  && (length (dead s) =? iter s + n)%nat                     (* none lost: iterations + live set  *)
  && (length (logLs s) =? S (length (dead s)))%nat           (* integrated exactly once each      *)
  && (length (idxs s) =? iter s)%nat                         (* counts agree                      *)
  && sortedb (map key (dead s))
  && zlist_eqb (logLs s) ((- kinf)%Z :: map key (dead s)).

(* ---- a signal inside finalise ------------------------------------------------------------------ *)
(* finalise interrupted after j of the remaining live points have been recorded (live_points is
   still set, finalised is still False)                                                            *)
Definition finalise_prefix (j : nat) (s : state) : state :=
  mkstate (live s) (dead s ++ firstn j (live s)) (idxs s) (iter s) (logLmin s)
          (logLs s ++ map key (firstn j (live s))) (nls s ++ countdown (nlive s) j) (nlive s)
          (evals s) (rej s).
(* resume: the loop condition is already met and `finalised` is False, so finalise runs again *)
Definition resume_finalise (j : nat) (s : state) : state := finalise (finalise_prefix j s).

(* ---- the handler: FlowSampler.safe_exit / terminate_run ------------------------------------ *)
Inductive heff :=
| HClosePool                 (* self.ns.close_pool(code=...)                     *)
| HCheckpoint (periodic : bool)   (* self.ns.checkpoint()  -> periodic = False   *)
| HExit (configured : bool)  (* sys.exit(self.exit_code)  / some other code      *)
| HSkip                      (* logging                                          *)
| HOther.                    (* anything else that touches the sampler or files  *)

Record hworld (S : Type) := mkhw {
  pool_open : bool;
  written : list S;            (* checkpoints written, oldest first *)
  exit_code : option Z;        (* Some c once the process has exited *)
  dirty : bool                 (* something unmodelled happened      *)
}.
Arguments mkhw {S}. Arguments pool_open {S}. Arguments written {S}. Arguments exit_code {S}. Arguments dirty {S}.

(* BaseNestedSampler.checkpoint: the non-periodic branch always reaches the dump;
   [ckpt_writes periodic] is regenerated from the source as a boolean (tie A)       *)
Definition hexec {S} (cur : S) (configured other : Z) (nonperiodic_writes : bool) (w : hworld S) (e : heff)
  : hworld S :=
  match exit_code w with
  | Some _ => w                                                   (* nothing runs after sys.exit *)
  | None =>
      match e with
      | HClosePool => mkhw false (written w) None (dirty w)
      | HCheckpoint p => if negb p && nonperiodic_writes then mkhw (pool_open w) (written w ++ [cur]) None (dirty w)
                         else w
      | HExit c => mkhw (pool_open w) (written w) (Some (if c then configured else other)) (dirty w)
      | HSkip => w
      | HOther => mkhw (pool_open w) (written w) None true
      end
  end.
Definition hrun {S} (cur : S) (configured other : Z) (npw : bool) (effs : list heff) (w : hworld S) : hworld S :=
  fold_left (hexec cur configured other npw) effs w.

Definition heff_eqb (a b : heff) : bool :=
  match a, b with
  | HClosePool, HClosePool | HSkip, HSkip | HOther, HOther => true
  | HCheckpoint p, HCheckpoint q => Bool.eqb p q
  | HExit p, HExit q => Bool.eqb p q
  | _, _ => false
  end.
Fixpoint hlist_eqb (a b : list heff) : bool :=
  match a, b with
  | [], [] => true
  | x :: a', y :: b' => heff_eqb x y && hlist_eqb a' b'
  | _, _ => false
  end.
Definition is_hskip (e : heff) : bool := match e with HSkip => true | _ => false end.
(* the checker: exactly one forced (non-periodic) checkpoint that reaches the dump, then exit with the
   configured code; closing the pool may come before or after the checkpoint (it is not part of the
   property), logging anywhere, nothing else                                                        *)
Definition handler_ok (npw : bool) (effs : list heff) : bool :=
  let l := filter (fun e => negb (is_hskip e)) effs in
  npw && (hlist_eqb l [HClosePool; HCheckpoint false; HExit true]
          || hlist_eqb l [HCheckpoint false; HClosePool; HExit true]
          || hlist_eqb l [HCheckpoint false; HExit true]).
Definition handler_today : list heff := [HSkip; HClosePool; HCheckpoint false; HSkip; HExit true].

(* ---- the exit must reach the top: constructs that can intercept SystemExit ---------------------- *)
(* safe_exit ends the process by RAISING SystemExit in the interrupted frame; every enclosing
   try/except, try/finally and contextlib.suppress on the way up gets a chance to stop it.
   One entry per such construct of the package (regenerated from the AST, tie A).                 *)
Inductive catch :=
| CBare            (* except:                                   *)
| CBase            (* except BaseException / suppress(BaseException) *)
| CSysExit         (* except (.., SystemExit, ..)               *)
| COther           (* except Exception / a specific class: SystemExit passes *)
| CFinallyReturn.  (* finally: return / break / continue - discards the exception *)
Record xentry := mkx { x_catch : catch; x_reraise : bool }.
Definition intercepts (e : xentry) : bool :=
  match x_catch e with
  | COther => false
  | CFinallyReturn => true
  | CBare | CBase | CSysExit => negb (x_reraise e)
  end.
(* SystemExit raised inside nested guarded blocks, innermost first *)
Inductive outcome := Exits | SwallowedAt (depth : nat).
Fixpoint propagate (path : list xentry) (d : nat) : outcome :=
  match path with
  | [] => Exits
  | e :: r => if intercepts e then SwallowedAt d else propagate r (S d)
  end.
Definition no_swallow (table : list xentry) : bool := forallb (fun e => negb (intercepts e)) table.
(* what the process does once the handler has run inside the guarded blocks [path]:
   it terminates with the handler's exit code only if the exit reaches the top *)
Definition process_exit {S} (w : hworld S) (path : list xentry) : option Z :=
  match propagate path 0 with Exits => exit_code w | SwallowedAt _ => None end.

(* ---- which sampler's handler is installed --------------------------------------------------- *)
(* FlowSampler.__init__ registers self.safe_exit for the three signals.  Several FlowSamplers may be
   created one after the other in one process; the handler that runs is whatever the table holds.
   One [reg] per signal.signal(sig, self.safe_exit) call; [r_cond] = the call sits under a condition
   other than `if signal_handling` (e.g. "only when the current handler is a default one").       *)
Inductive sig := STERM | SINT | SALRM.
Definition sig_eqb (a b : sig) : bool :=
  match a, b with STERM, STERM | SINT, SINT | SALRM, SALRM => true | _, _ => false end.
Record reg := mkreg { r_sig : sig; r_cond : bool }.
(* None = Python's default handler, Some i = safe_exit of the i-th sampler created *)
Definition htable := sig -> option nat.
(* a conditional registration is modelled by its worst case: it only fires on a default handler *)
Definition install (i : nat) (t : htable) (r : reg) : htable :=
  fun s => if sig_eqb s (r_sig r)
           then (if r_cond r then (match t s with None => Some i | Some j => Some j end) else Some i)
           else t s.
Definition construct (regs : list reg) (t : htable) (i : nat) : htable := fold_left (install i) regs t.
(* n samplers created one after the other (0 .. n-1), starting from the default handlers *)
Definition after_samplers (regs : list reg) (n : nat) : htable :=
  fold_left (construct regs) (seq 0 n) (fun _ => None).
Definition regs_for (regs : list reg) (s : sig) : list reg := filter (fun r => sig_eqb (r_sig r) s) regs.
(* the checker: every signal has at least one registration and none of them is conditional *)
Definition regs_ok (regs : list reg) : bool :=
  forallb (fun s => negb (length (regs_for regs s) =? 0)%nat && forallb (fun r => negb (r_cond r)) (regs_for regs s))
          [STERM; SINT; SALRM].
Definition regs_today : list reg := [mkreg STERM false; mkreg SINT false; mkreg SALRM false].

(* ---- resume must not re-seed the random generators ------------------------------------------ *)
(* The generator state is not pickled.  One run = several processes (process 0, then one per
   resume); in each process the uninformed proposal refills its pool from the process's generator.
   A pool is identified by (process, number of the refill in that process): the fresh process of a
   resume has a generator of its own (oracle: pools with different identities are disjoint, C01's
   "fresh draws" hypothesis).  If the resume path SEEDS the generators, every resumed process
   replays the same stream: pool (j, i) of any resumed process j >= 1 is pool (1, i).              *)
Inductive hev := HRefill | HResume.
Inductive seedcall := SeedConfigure | SeedNumpy | SeedTorch | SeedOther.
Definition reseeds (calls : list seedcall) : bool := negb (length calls =? 0)%nat.
Definition pool_key (reseed : bool) (j i : nat) : nat * nat :=
  if reseed && (1 <=? j)%nat then (1%nat, i) else (j, i).
Fixpoint pools_from (reseed : bool) (j i : nat) (h : list hev) : list (nat * nat) :=
  match h with
  | [] => []
  | HRefill :: r => pool_key reseed j i :: pools_from reseed j (S i) r
  | HResume :: r => pools_from reseed (S j) 0 r
  end.
(* everything the proposal offers over the whole history *)
Definition offered {A} (pool : nat * nat -> list A) (reseed : bool) (h : list hev) : list A :=
  flat_map pool (pools_from reseed 0 0 h).
Definition resume_seed_ok (calls : list seedcall) : bool := negb (reseeds calls).

(* ---- what the checkpoint keeps of the proposal --------------------------------------------------- *)
(* A signal inside the proposal's draw / populate path is pickled with populating = True and the
   resumed run goes straight back into populate WITHOUT retraining.  So every attribute that path
   reads must survive pickle + resume: [dropped] = set to None / deleted by __getstate__,
   [restored] = assigned again on the resume path or re-derived inside populate itself.            *)
Definition smem (f : string) (l : list string) : bool := existsb (String.eqb f) l.
Definition fstore := string -> bool.            (* is the attribute available (not None)? *)
Definition pickle_resume (dropped restored : list string) (st : fstore) : fstore :=
  fun f => if smem f restored then true else if smem f dropped then false else st f.
Definition fields_ok (dropped read restored : list string) : bool :=
  forallb (fun f => negb (smem f dropped) || smem f restored) read.

(* ---- ImportanceNestedSampler.checkpoint ------------------------------------------------------ *)
Inductive ieff :=
| IGuardReturn     (* if periodic is False: (log); return                *)
| ISuper           (* super().checkpoint(periodic=periodic, ...): writes *)
| ISkip            (* logging                                            *)
| IOther.          (* anything else                                      *)
(* the file system is abstract: [write fs] is what a checkpoint does to it *)
Fixpoint irun {FS} (write touch : FS -> FS) (effs : list ieff) (periodic : bool) (fs : FS) : FS :=
  match effs with
  | [] => fs
  | IGuardReturn :: r => if negb periodic then fs else irun write touch r periodic fs
  | ISuper :: r => irun write touch r periodic (write fs)
  | ISkip :: r => irun write touch r periodic fs
  | IOther :: r => irun write touch r periodic (touch fs)
  end.
Fixpoint ins_ckpt_ok (effs : list ieff) : bool :=
  match effs with
  | ISkip :: r => ins_ckpt_ok r
  | IGuardReturn :: _ => true
  | _ => false
  end.
Definition ins_ckpt_today : list ieff := [IGuardReturn; ISuper].

(* ---- the witness used to refute the unbalanced boundaries (ties among the live points) ------ *)
Definition wpt (i k : Z) : pt := mkpt i k 0 true true false true.
Definition wstate : state :=
  mkstate [wpt 1 5; wpt 2 5; wpt 3 7; wpt 4 9] [] [] 0 (- kinf)%Z [(- kinf)%Z] [] 4 0 1.
Definition wstream : list draw :=
  [(wpt 10 5, 0%Z, true); (wpt 11 7, 0%Z, true); (wpt 12 8, 0%Z, true); (wpt 13 8, 0%Z, true);
   (wpt 14 9, 0%Z, true); (wpt 15 10, 0%Z, true); (wpt 16 11, 0%Z, true); (wpt 17 12, 0%Z, true)].
(* interrupted before effect k, resumed for 2 further iterations, finalised: is the result consistent? *)
Definition witness_ok (effs : list eff) (k : nat) : bool :=
  match resume_run canon effs k 2 wstate wstream with
  | Some f => final_ok_b 4 f
  | None => false
  end.

(* witness for the refuted variant: signal, resume, refill, signal, resume, refill - the second
   refill offers point 21 again while the copy accepted after the first resume is still alive   *)
Definition rs_history : list hev := [HRefill; HResume; HRefill; HResume; HRefill].
Definition rs_pool (k : nat * nat) : list Z :=
  match k with (0, _) => [10; 11]%Z | (1, 0) => [20; 21]%Z | (2, 0) => [30; 31]%Z | _ => [] end.
Definition rs_stream (reseed : bool) : list draw :=
  map (fun i => (wpt i (i + 100)%Z, 0%Z, true)) (offered rs_pool reseed rs_history).
Definition rs_live_after (reseed : bool) : list Z :=
  match run 6 wstate (rs_stream reseed) with Some (s, _) => map pid (live s) | None => [] end.

