(* C17 - model of ImportanceNestedSampler.determine_log_likelihood_threshold (the integer clamp),
   the argmax-of-mask selection used by determine_threshold_quantile / _entropy,
   the training-set floor of add_new_proposal, and the weighted (Harrell-Davis) quantile as a
   convex combination with a monotone regularised-incomplete-beta oracle.
   Definitions only. *)
From Coq Require Import List ZArith Bool QArith.
Import ListNotations.
Local Open Scope Z_scope.

Inductive cres := RetZero | RetIndex (n : Z).
   (* RetZero: the code returns the number 0 instead of a likelihood (only when min_remove < 1) *)

(* n: the method's own choice; size: number of live samples; max_s = 0 encodes None *)
Definition clamp (n size min_s min_r max_s nlive : Z) (dc : bool) : cres :=
  if (n =? 0) && (min_r <? 1) then RetZero else
  let n1 := if n =? 0 then 1 else n in
  let n2 := if (size - n1) <? min_s then Z.max 0 (size - min_s)
            else if n1 <? min_r then min_r else n1 in
  let n3 := if dc && negb (max_s =? 0) && ((size - n2 + nlive) >? max_s)
            then size - max_s + nlive else n2 in
  RetIndex n3.

(* the value after the min_samples / min_remove clamps, before the max_samples cap *)
Definition clamp_mid (n size min_s min_r : Z) : Z :=
  let n1 := if n =? 0 then 1 else n in
  if (size - n1) <? min_s then Z.max 0 (size - min_s)
  else if n1 <? min_r then min_r else n1.

(* np.argmax(mask): first True, 0 when there is none *)
Fixpoint argmax_mask (m : list bool) : nat :=
  match m with
  | [] => 0%nat
  | true :: _ => 0%nat
  | false :: r => if existsb (fun b => b) r then S (argmax_mask r) else 0%nat
  end.
(* np.argmax(a >= cutoff) over order keys *)
Definition argmax_ge_key (keys : list Z) (cut : Z) : nat := argmax_mask (map (fun k => cut <=? k) keys).

(* the threshold handed back: samples[n]["logL"]; None = IndexError *)
Definition threshold_key (keys : list Z) (r : cres) : option (option Z) :=
  match r with
  | RetZero => Some None                       (* the literal 0 *)
  | RetIndex n => if (0 <=? n) && (n <? Z.of_nat (length keys))
                  then Some (Some (nth (Z.to_nat n) keys 0)) else None
  end.

(* add_new_proposal: n_train = min(argmax(logL >= thr), size - min_samples); trains on samples[n_train:] *)
Definition n_train (keys : list Z) (thr min_s : Z) : Z :=
  Z.min (Z.of_nat (argmax_ge_key keys thr)) (Z.of_nat (length keys) - min_s).

(* ---- weighted quantile: q_p = sum_i (B(e_i) - B(e_{i-1})) v_i ------------------------------ *)
Local Open Scope Q_scope.
Fixpoint wq_sum (B : Q -> Q) (prev : Q) (ev : list (Q * Q)) : Q :=   (* ev = (end point e_i, value v_i) *)
  match ev with
  | [] => 0
  | (e, v) :: r => (B e - B prev) * v + wq_sum B e r
  end.
