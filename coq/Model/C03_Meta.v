(* C03 - model of the importance nested sampler's density bookkeeping:
     ImportanceNestedSampler.add_new_proposal_weight   weights_j = counts_j / total
     ImportanceFlowProposal.compute_log_Q / compute_meta_proposal_from_log_q
                                                       logQ = ln (sum_j w_j exp(log_q_j))
     ImportanceFlowProposal.update_log_q               append the new proposal's column
     ImportanceNestedSampler.add_and_update_points     order: weights, draw, append column,
                                                       recompute logQ, logW, insert
   over Coq's reals; the per-proposal log-densities q_j and the unit-hypercube log-prior are
   ORACLES (Section variables).  Definitions only. *)
From Coq Require Import Reals List Bool Arith.
From NessaiV Require Import Lib.Enclose.
Import ListNotations.
Local Open Scope R_scope.

(* weights = counts / total  (sample_counts.values() / n_total) *)
Definition total (counts : list nat) : nat := fold_right Nat.add 0%nat counts.
Definition weights (counts : list nat) : list R := map (fun c => INR c / INR (total counts)) counts.

(* logsumexp(log_q, b = weights): a log-density may be -inf (xlog = option R, None = -inf) *)
Definition mix_R (w : list R) (lq : list xlog) : R := ln (sum_R (map2 (fun wj qj => wj * xexp qj) w lq)).

Section Oracles.
Variable pt : Type.
Variable q : nat -> pt -> xlog.     (* log-density of proposal j at a point of the unit hypercube,
                                       Jacobian of the logit map included; j = 0 is the initial
                                       (prior) proposal *)
Variable logU : pt -> R.            (* unit-hypercube log-prior *)

Record row := { rp : pt; rlq : list xlog; rlogQ : R; rlogW : R }.
Record state := { counts : list nat; train : list row; iid : list row }.

Definition fresh_row (cs : list nat) (x : pt) : row :=
  let lq := map (fun j => q j x) (seq 0 (length cs)) in
  let lQ := mix_R (weights cs) lq in
  {| rp := x; rlq := lq; rlogQ := lQ; rlogW := logU x - lQ |}.

(* update_log_q: append the column of the newest proposal (index = current width) *)
Definition append_col (r : row) : row :=
  {| rp := rp r; rlq := rlq r ++ [q (length (rlq r)) (rp r)]; rlogQ := rlogQ r; rlogW := rlogW r |}.
Definition recompute_Q (cs : list nat) (r : row) : row :=
  {| rp := rp r; rlq := rlq r; rlogQ := mix_R (weights cs) (rlq r); rlogW := rlogW r |}.
Definition recompute_W (r : row) : row :=
  {| rp := rp r; rlq := rlq r; rlogQ := rlogQ r; rlogW := logU (rp r) - rlogQ r |}.

(* one iteration: n_new points from the new proposal for the training store, and (when the
   independent store is used) as many for it.  The order inside the stores is C04's business. *)
Definition iteration (s : state) (new_train new_iid : list pt) : state :=
  let cs := counts s ++ [length new_train] in
  let upd := fun r => recompute_W (recompute_Q cs (append_col r)) in
  {| counts := cs;
     train := map upd (train s) ++ map (fresh_row cs) new_train;
     iid := map upd (iid s) ++ map (fresh_row cs) new_iid |}.

Definition initial (pts_train pts_iid : list pt) : state :=
  let cs := [length pts_train] in
  {| counts := cs; train := map (fresh_row cs) pts_train; iid := map (fresh_row cs) pts_iid |}.

Definition run (pts_train pts_iid : list pt) (batches : list (list pt * list pt)) : state :=
  fold_left (fun s b => iteration s (fst b) (snd b)) batches (initial pts_train pts_iid).

(* the property of one stored sample, given the current counts *)
Definition row_ok (cs : list nat) (r : row) : Prop :=
  rlq r = map (fun j => q j (rp r)) (seq 0 (length cs))
  /\ rlogQ r = mix_R (weights cs) (rlq r)
  /\ rlogW r = logU (rp r) - rlogQ r.
Definition Inv (s : state) : Prop :=
  Forall (row_ok (counts s)) (train s) /\ Forall (row_ok (counts s)) (iid s).

(* the variant that recomputes logQ BEFORE the weights are updated (stale counts) *)
Definition iteration_stale (s : state) (new_train new_iid : list pt) : state :=
  let cs := counts s ++ [length new_train] in
  let upd := fun r => recompute_W (recompute_Q (counts s) (append_col r)) in
  {| counts := cs;
     train := map upd (train s) ++ map (fresh_row cs) new_train;
     iid := map upd (iid s) ++ map (fresh_row cs) new_iid |}.
End Oracles.

(* ---- tie A: the order of effects in add_new_proposal_weight + add_and_update_points ---------- *)
Inductive store_id := Train | Iid.
Inductive eff :=
| EUpdateWeights          (* add_new_proposal_weight: counts / total incl. the new draw *)
| EDraw (s : store_id)    (* draw_n_samples: new rows computed with the CURRENT weights *)
| EAppendCol (s : store_id)
| ERecomputeQ (s : store_id)
| ERecomputeW (s : store_id)
| EInsert (s : store_id)
| ESkip.

(* abstract status of one store during the iteration, all relative to the FINAL counts
   cs1 = counts ++ [n_new]:  cols_old = every row still has exactly the old columns;
   cols_ok = every row has all columns incl. the new proposal's; q_ok / w_ok = logQ / logW
   are the mixture / the difference for cs1; fresh_ok = the pending drawn rows are ok for cs1 *)
Record flags := { cols_old : bool; cols_ok : bool; q_ok : bool; w_ok : bool;
                  fresh_ok : bool; drawn : bool; inserted : bool }.
Definition fl0 := {| cols_old := true; cols_ok := false; q_ok := false; w_ok := false;
                     fresh_ok := false; drawn := false; inserted := false |}.
Record astate := { weights_new : bool; broken : bool; a_train : flags; a_iid : flags }.
Definition a0 := {| weights_new := false; broken := false; a_train := fl0; a_iid := fl0 |}.

Definition a_get (a : astate) (s : store_id) : flags := match s with Train => a_train a | Iid => a_iid a end.
Definition a_set (a : astate) (s : store_id) (f : flags) : astate :=
  match s with
  | Train => {| weights_new := weights_new a; broken := broken a; a_train := f; a_iid := a_iid a |}
  | Iid => {| weights_new := weights_new a; broken := broken a; a_train := a_train a; a_iid := f |}
  end.
Definition unfresh (f : flags) : flags :=
  {| cols_old := cols_old f; cols_ok := cols_ok f; q_ok := false; w_ok := false;
     fresh_ok := false; drawn := drawn f; inserted := inserted f |}.

Definition aeff (a : astate) (e : eff) : astate :=
  match e with
  | EUpdateWeights =>
      {| weights_new := true; broken := broken a || weights_new a;
         a_train := unfresh (a_train a); a_iid := unfresh (a_iid a) |}
  | EDraw s => let f := a_get a s in
      a_set a s {| cols_old := cols_old f; cols_ok := cols_ok f; q_ok := q_ok f; w_ok := w_ok f;
                   fresh_ok := weights_new a; drawn := true; inserted := inserted f |}
  | EAppendCol s => let f := a_get a s in
      a_set a s {| cols_old := false; cols_ok := cols_old f; q_ok := false; w_ok := false;
                   fresh_ok := fresh_ok f; drawn := drawn f; inserted := inserted f |}
  | ERecomputeQ s => let f := a_get a s in
      a_set a s {| cols_old := cols_old f; cols_ok := cols_ok f; q_ok := cols_ok f && weights_new a; w_ok := false;
                   fresh_ok := fresh_ok f; drawn := drawn f; inserted := inserted f |}
  | ERecomputeW s => let f := a_get a s in
      a_set a s {| cols_old := cols_old f; cols_ok := cols_ok f; q_ok := q_ok f; w_ok := q_ok f;
                   fresh_ok := fresh_ok f; drawn := drawn f; inserted := inserted f |}
  | EInsert s => let f := a_get a s in
      a_set a s {| cols_old := false; cols_ok := cols_ok f && fresh_ok f;
                   q_ok := q_ok f && fresh_ok f; w_ok := w_ok f && fresh_ok f;
                   fresh_ok := fresh_ok f; drawn := drawn f; inserted := true |}
  | ESkip => a
  end.
Definition flags_final (f : flags) : bool := cols_ok f && q_ok f && w_ok f && drawn f && inserted f.
(* with_iid = the independent store is in use (draw_iid_live) *)
Definition order_ok (with_iid : bool) (effs : list eff) : bool :=
  let a := fold_left aeff effs a0 in
  weights_new a && negb (broken a) && flags_final (a_train a) && (negb with_iid || flags_final (a_iid a)).

Definition order_today : list eff :=
  [EUpdateWeights; EDraw Train; EAppendCol Train; ERecomputeQ Train; ERecomputeW Train; EInsert Train;
   EDraw Iid; EAppendCol Iid; ERecomputeQ Iid; ERecomputeW Iid; EInsert Iid].

(* concrete execution of an effect list on real stores *)
Section Concrete.
Variable pt : Type.
Variable q : nat -> pt -> xlog.
Variable logU : pt -> R.
Variable n_new : nat.
Variable pts_train pts_iid : list pt.      (* the points the two draws return *)

Record cstore := { c_rows : list (row pt); c_pending : list (row pt) }.
Record cstate := { c_counts : list nat; c_train : cstore; c_iid : cstore }.
Definition c_get (c : cstate) (s : store_id) := match s with Train => c_train c | Iid => c_iid c end.
Definition c_set (c : cstate) (s : store_id) (x : cstore) : cstate :=
  match s with
  | Train => {| c_counts := c_counts c; c_train := x; c_iid := c_iid c |}
  | Iid => {| c_counts := c_counts c; c_train := c_train c; c_iid := x |}
  end.
Definition pts_of (s : store_id) := match s with Train => pts_train | Iid => pts_iid end.

Definition ceff (c : cstate) (e : eff) : cstate :=
  match e with
  | EUpdateWeights => {| c_counts := c_counts c ++ [n_new]; c_train := c_train c; c_iid := c_iid c |}
  | EDraw s => c_set c s {| c_rows := c_rows (c_get c s);
                            c_pending := map (fresh_row pt q logU (c_counts c)) (pts_of s) |}
  | EAppendCol s => c_set c s {| c_rows := map (append_col pt q) (c_rows (c_get c s)); c_pending := c_pending (c_get c s) |}
  | ERecomputeQ s => c_set c s {| c_rows := map (recompute_Q pt (c_counts c)) (c_rows (c_get c s));
                                  c_pending := c_pending (c_get c s) |}
  | ERecomputeW s => c_set c s {| c_rows := map (recompute_W pt logU) (c_rows (c_get c s)); c_pending := c_pending (c_get c s) |}
  | EInsert s => c_set c s {| c_rows := c_rows (c_get c s) ++ c_pending (c_get c s); c_pending := c_pending (c_get c s) |}
  | ESkip => c
  end.
Definition cexec (c : cstate) (effs : list eff) : cstate := fold_left ceff effs c.
End Concrete.

(* ---- interval twin of the mixture (Lib/Enclose) ------------------------------------------- *)
Definition weights_I (p : prec) (counts : list nat) : list I.type :=
  map (fun c => I.div p (iZ p (Z.of_nat c)) (iZ p (Z.of_nat (total counts)))) counts.
Definition mix_I (p : prec) (w : list I.type) (lq : list (option I.type)) : I.type :=
  I.ln p (sum_I p (map2 (fun wj qj => I.mul p wj (xexp_I p qj)) w lq)).
