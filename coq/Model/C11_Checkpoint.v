(* C11 - model of what nessai writes at a checkpoint / weights save and of what
   FlowSampler(resume=True) reads back.  Definitions only (vm_compute-runnable).

   Writers (op lists over Lib/FSModel.v):
     nessai.utils.io.safe_file_dump(data, filename, module, save_existing)
     nessai.flowmodel.base.FlowModel.save_weights(weights_file)          (torch.save in place)
     nessai.flowmodel.importance.ImportanceFlowModel.save_weights        (same, one file per level)
   Reader:
     FlowSampler.check_resume + _resume_from_file  (try resume_file, on FileNotFoundError /
       RuntimeError try resume_file + ".old", anything else propagates)
     BaseNestedSampler.resume (open + pickle.load)
     FlowProposal.resume  (weights: model.pt, fall back to model.pt.old)
     ImportanceFlowModel.update_weights_path / load_all_weights (first n level files). *)
From Coq Require Import List Arith Bool.
Import ListNotations.
From NessaiV Require Import Lib.FSModel.

(* ---- payloads --------------------------------------------------------------------------- *)
(* which weights the pickled sampler will ask for when it is resumed *)
Inductive wspec :=
| NoW                 (* proposal.weights_file is None (no training yet)                    *)
| StdW (f : fname)    (* FlowProposal: the pickled flow.weights_file                        *)
| InsW (n : nat).     (* ImportanceFlowModel: _resume_n_models = n, files level_0..level_n-1 *)
Inductive payload :=
| PkP (ver : nat) (w : wspec)     (* a complete pickled sampler, version ver *)
| WtP (ver : nat).                (* a complete torch weights file           *)

Definition wspec_eqb (a b : wspec) : bool :=
  match a, b with
  | NoW, NoW => true
  | StdW f, StdW g => fname_eqb f g
  | InsW n, InsW m => Nat.eqb n m
  | _, _ => false
  end.
Definition payload_eqb (a b : payload) : bool :=
  match a, b with
  | PkP v w, PkP v' w' => Nat.eqb v v' && wspec_eqb w w'
  | WtP v, WtP v' => Nat.eqb v v'
  | _, _ => false
  end.
Fixpoint plist_eqb (a b : list payload) : bool :=
  match a, b with
  | [], [] => true
  | x :: a', y :: b' => payload_eqb x y && plist_eqb a' b'
  | _, _ => false
  end.

Definition fview := view payload.
Definition fstate := astate payload.
Definition op := fsop payload.

(* ---- exceptions and the reader's handler structure ----------------------------------------- *)
Inductive exn := FNF | RTE | EOFE | OSE | UNPE.
   (* FileNotFoundError, RuntimeError, EOFError, OSError (other than FNF), pickle.UnpicklingError *)
Definition exn_eqb (a b : exn) : bool :=
  match a, b with
  | FNF, FNF | RTE, RTE | EOFE, EOFE | OSE, OSE | UNPE, UNPE => true
  | _, _ => false
  end.
Definition emem (e : exn) (l : list exn) : bool := existsb (exn_eqb e) l.

(* classes a damaged file may raise (oracle; validated by tie B on every torn file it produces) *)
Definition pcls : list exn := [EOFE; UNPE].        (* pickle.load on an empty / truncated pickle *)
(* torch.load: EOFError on an empty file, RuntimeError / OSError on a truncated zip archive of at
   least 4 bytes; a file of 1-3 bytes (shorter than the zip magic) goes to the legacy unpickler
   and raises UnpicklingError *)
Definition wcls_long : list exn := [EOFE; OSE; RTE].
Definition wcls_all : list exn := [EOFE; OSE; RTE; UNPE].

Record rcfg := {
  rc_wcls : list exn;      (* oracle: what torch.load may raise on a torn weights file                *)
  rc_catch1 : list exn;    (* except (...) of the first try of FlowSampler._resume_from_file          *)
  rc_try_old : bool;       (* its handler retries with resume_file + ".old"                           *)
  rc_wcatch : list exn;    (* except (...) around reload_weights(weights_file) in FlowProposal.resume *)
  rc_wfallback : bool;     (* that handler loads weights_file + ".old"                                *)
  rc_welif_old : bool;     (* elif os.path.exists(weights_file + ".old"): load it                     *)
  rc_wremove : bool        (* the handler removes the damaged weights_file once the fallback has loaded *)
}.
(* FlowProposal.resume today (after commit "removes a damaged weights file after falling back and
   catches UnpicklingError"), with the full oracle for torn weights files *)
Definition rc_today : rcfg :=
  {| rc_wcls := wcls_all; rc_catch1 := [FNF; RTE]; rc_try_old := true;
     rc_wcatch := [EOFE; OSE; FNF; RTE; UNPE]; rc_wfallback := true; rc_welif_old := true;
     rc_wremove := true |}.
(* FlowProposal.resume between "falls back to the previous weights file" and the commit above:
   fallback, but UnpicklingError is not caught and the damaged file stays *)
Definition rc_fallback_only : rcfg :=
  {| rc_wcls := wcls_long; rc_catch1 := [FNF; RTE]; rc_try_old := true;
     rc_wcatch := [EOFE; OSE; FNF; RTE]; rc_wfallback := true; rc_welif_old := true;
     rc_wremove := false |}.
(* the same reader when the kill may also leave 1-3 bytes of model.pt *)
Definition rc_fallback_only_short : rcfg :=
  {| rc_wcls := wcls_all; rc_catch1 := [FNF; RTE]; rc_try_old := true;
     rc_wcatch := [EOFE; OSE; FNF; RTE]; rc_wfallback := true; rc_welif_old := true;
     rc_wremove := false |}.
(* FlowProposal.resume before commit "falls back to the previous weights file" *)
Definition rc_before_fix : rcfg :=
  {| rc_wcls := wcls_long; rc_catch1 := [FNF; RTE]; rc_try_old := true;
     rc_wcatch := []; rc_wfallback := false; rc_welif_old := false; rc_wremove := false |}.

(* ---- the reader, as a function into the list of possible results --------------------------- *)
Definition bind {X Y} (m : list X) (k : X -> list Y) : list Y := flat_map k m.

Inductive outcome := Fresh | Fail | Loaded (pk : payload) (ws : list payload).
Definition outcome_eqb (a b : outcome) : bool :=
  match a, b with
  | Fresh, Fresh => true
  | Fail, Fail => true
  | Loaded p w, Loaded p' w' => payload_eqb p p' && plist_eqb w w'
  | _, _ => false
  end.
Definition omem (o : outcome) (l : list outcome) : bool := existsb (outcome_eqb o) l.
Definition is_fail (o : outcome) : bool := match o with Fail => true | _ => false end.

(* torch.load(f) *)
Definition wload (rc : rcfg) (v : fview) (f : fname) : list (exn + payload) :=
  match v f with
  | Absent => [inl FNF]
  | Bad => map inl (rc_wcls rc)
  | Whole (WtP q) => [inr (WtP q)]
  | Whole (PkP _ _) => map inl (rc_wcls rc)
  end.
(* open(f, "rb") + pickle.load *)
Definition pload (v : fview) (f : fname) : list (exn + (nat * wspec)) :=
  match v f with
  | Absent => [inl FNF]
  | Bad => map inl pcls
  | Whole (PkP ver w) => [inr (ver, w)]
  | Whole (WtP _) => map inl pcls
  end.

Definition wload1 (rc : rcfg) (v : fview) (f : fname) : list (exn + list payload) :=
  bind (wload rc v f) (fun r => match r with inl e => [inl e] | inr p => [inr [p]] end).

(* FlowProposal.resume, the weights part (weights_file is not None) *)
Definition std_weights (rc : rcfg) (v : fview) (f : fname) : list (exn + list payload) :=
  if aexists v f then
    bind (wload rc v f) (fun r =>
      match r with
      | inr p => [inr [p]]
      | inl e => if emem e (rc_wcatch rc)
                 then (if rc_wfallback rc then wload1 rc v (Old f) else [inr []])
                 else [inl e]
      end)
  else if rc_welif_old rc && aexists v (Old f) then wload1 rc v (Old f)
  else [inr []].

(* ImportanceFlowModel.load_all_weights over level_i .. level_(i+k-1) *)
Fixpoint ins_load (rc : rcfg) (v : fview) (i k : nat) : list (exn + list payload) :=
  match k with
  | 0 => [inr []]
  | S k' =>
      bind (wload rc v (Base (Lvl i))) (fun r =>
        match r with
        | inl e => [inl e]
        | inr p => bind (ins_load rc v (S i) k') (fun r' =>
                     match r' with inl e => [inl e] | inr l => [inr (p :: l)] end)
        end)
  end.
(* update_weights_path: fewer than n level files -> RuntimeError.  If one of the first n is
   missing there are either fewer than n files (RuntimeError) or enough stray later ones
   (then load_all_weights meets the missing file): both results are listed. *)
Definition ins_weights (rc : rcfg) (v : fview) (n : nat) : list (exn + list payload) :=
  if forallb (fun i => aexists v (Base (Lvl i))) (seq 0 n) then ins_load rc v 0 n
  else inl RTE :: ins_load rc v 0 n.

(* SamplerClass.resume(file): unpickle, then re-attach the weights *)
Definition try_load (rc : rcfg) (v : fview) (f : fname) : list (exn + (payload * list payload)) :=
  bind (pload v f) (fun r =>
    match r with
    | inl e => [inl e]
    | inr (ver, w) =>
        bind (match w with
              | NoW => [inr []]
              | StdW wf => std_weights rc v wf
              | InsW n => ins_weights rc v n
              end)
             (fun r' => match r' with inl e => [inl e] | inr ws => [inr (PkP ver w, ws)] end)
    end).

(* FlowSampler.__init__(resume=True): check_resume, then _resume_from_file, else a new sampler.
   Every outcome comes with the file the sampler was unpickled from (Base Pkl when none was). *)
Definition resume_src (rc : rcfg) (v : fview) : list (outcome * fname) :=
  if aexists v (Base Pkl) || aexists v (Old (Base Pkl)) then
    bind (try_load rc v (Base Pkl)) (fun r =>
      match r with
      | inr (pk, ws) => [(Loaded pk ws, Base Pkl)]
      | inl e =>
          if emem e (rc_catch1 rc) && rc_try_old rc then
            bind (try_load rc v (Old (Base Pkl))) (fun r2 =>
              match r2 with
              | inr (pk, ws) => [(Loaded pk ws, Old (Base Pkl))]
              | inl _ => [(Fail, Base Pkl)]      (* RuntimeError re-raised, anything else propagates *)
              end)
          else [(Fail, Base Pkl)]
      end)
  else [(Fresh, Base Pkl)].
Definition resume (rc : rcfg) (v : fview) : list outcome := map fst (resume_src rc v).

(* which file the RESUMED sampler will checkpoint to: sampler.resume_file *)
Inductive rholder :=
| KeepPickled     (* the pickled attribute is kept: <output>/<resume_file>, whichever file was loaded *)
| FollowLoaded.   (* resume assigns the name of the file that was loaded (possibly the .old one)      *)
Definition holder (rh : rholder) (src : fname) : fname :=
  match rh with KeepPickled => Base Pkl | FollowLoaded => src end.

(* the directory after the resume: the only thing the reader ever changes is removing a damaged
   weights file whose fallback copy it has just loaded *)
Definition after_resume (rc : rcfg) (v : fview) : fview :=
  if rc_wremove rc && rc_wfallback rc then
    fold_left (fun acc os =>
                 match fst os with
                 | Loaded (PkP _ (StdW f)) (_ :: _) => match v f with Bad => upd acc f Absent | _ => acc end
                 | _ => acc
                 end) (resume_src rc v) v
  else v.

(* ---- the writers as they are today (hand copies; the translator regenerates them) ---------- *)
Definition safe_file_dump_ops (save_existing : bool) (F : fname) (NEW : payload) : list op :=
  (if save_existing then [MoveIfExists F (Old F)] else [])
  ++ [Open (Temp F); Write NEW; Close; Move (Temp F) F].
Definition save_weights_ops (W : fname) (NEW : payload) : list op :=
  [MoveIfExists W (Old W); Open W; Write NEW; Close].

(* ---- what is accepted: crash-atomicity with respect to the reader ----------------------------- *)
(* every possible result of resuming after the kill is a possible result of resuming before the
   writer started or after it finished, and is never a failure *)
Definition acc_atomic (before after : list outcome) (o : outcome) : bool :=
  negb (is_fail o) && (omem o before || omem o after).

Definition atomic_safe (rc : rcfg) (a0 : fstate) (ops : list op) : bool :=
  let before := resume rc (afs a0) in
  let after := resume rc (afs (aexec ops a0)) in
  negb (existsb is_fail before) && negb (existsb is_fail after)
  && crash_safe (resume rc) (acc_atomic before after) a0 ops.

Definition loads_pk (new : payload) (o : outcome) : bool :=
  match o with Loaded pk _ => payload_eqb pk new | _ => false end.
(* once the writer has finished, resuming loads the new pickle *)
Definition completes (rc : rcfg) (a0 : fstate) (ops : list op) (new : payload) : bool :=
  let after := resume rc (afs (aexec ops a0)) in
  negb (match after with [] => true | _ => false end) && forallb (loads_pk new) after.

(* ---- families of initial states ------------------------------------------------------------------ *)
Definition closed (v : fview) : fstate := {| afs := v; ahnd := None |}.
Definition empty_fs : fview := fun _ => Absent.
Fixpoint set_all (v : fview) (l : list (fname * acontent payload)) : fview :=
  match l with [] => v | (f, c) :: r => set_all (upd v f c) r end.

Definition PKL := Base Pkl.
Definition WT := Base Wt.

(* weights environments of the standard sampler:
   (files, weights reference the running process would pickle now, references older pickles may hold) *)
Record wenv := { we_files : list (fname * acontent payload); we_now : wspec; we_refs : list wspec }.
Definition std_envs_clean : list wenv :=
  [ {| we_files := []; we_now := NoW; we_refs := [NoW] |};                               (* no training yet *)
    {| we_files := [(WT, Whole (WtP 5))]; we_now := StdW WT; we_refs := [NoW; StdW WT] |};
    {| we_files := [(WT, Whole (WtP 5)); (Old WT, Whole (WtP 4))]; we_now := StdW WT; we_refs := [StdW WT] |};
    (* killed between the move and the open of an earlier save, then resumed (weights from .old) *)
    {| we_files := [(Old WT, Whole (WtP 4))]; we_now := StdW (Old WT); we_refs := [StdW WT; StdW (Old WT)] |};
    (* killed inside the very first torch.save, then resumed from a pickle without weights *)
    {| we_files := [(WT, Bad)]; we_now := NoW; we_refs := [NoW] |} ].
(* killed inside a later torch.save, then resumed through the fallback: model.pt is torn,
   model.pt.old is the only good copy and flow.weights_file now names it *)
Definition std_env_after_torn : wenv :=
  {| we_files := [(WT, Bad); (Old WT, Whole (WtP 4))]; we_now := StdW (Old WT);
     we_refs := [StdW WT; StdW (Old WT)] |}.

Definition opt_pk (ver : nat) (refs : list wspec) : list (acontent payload) :=
  Absent :: map (fun r => Whole (PkP ver r)) refs.

Record scen := { s_init : fstate; s_new : payload }.

(* pickle writer: resume file absent / present, .old absent / present, a stale .temp left by an
   earlier kill absent / torn / complete *)
Definition pickle_scens_env (e : wenv) : list scen :=
  flat_map (fun c1 =>
  flat_map (fun c0 =>
  map (fun ct =>
    {| s_init := closed (set_all empty_fs (we_files e ++ [(PKL, c1); (Old PKL, c0); (Temp PKL, ct)]));
       s_new := PkP 2 (we_now e) |})
    [Absent; Bad; Whole (PkP 9 (we_now e))])
    (opt_pk 0 (we_refs e)))
    (opt_pk 1 (we_refs e)).
Definition std_pickle_scens : list scen :=
  flat_map pickle_scens_env (std_envs_clean ++ [std_env_after_torn]).

(* importance sampler: levels 0..n-1 complete, level n absent / stale torn / stale complete *)
Definition ins_levels (n : nat) (stale : acontent payload) : list (fname * acontent payload) :=
  map (fun i => (Base (Lvl i), Whole (WtP (10 + i)))) (seq 0 n) ++ [(Base (Lvl n), stale)].
Definition ins_envs : list wenv :=
  flat_map (fun n =>
    map (fun stale =>
      {| we_files := ins_levels n stale; we_now := InsW n;
         we_refs := InsW n :: match n with 0 => [] | S m => [InsW m] end |})
      [Absent; Bad; Whole (WtP 50)])
    [0; 1; 2; 3].
Definition ins_pickle_scens : list scen := flat_map pickle_scens_env ins_envs.

(* weights writer of the standard sampler: model.pt rewritten while the pickles stay *)
Definition weights_scens_env (W : fname) (e : wenv) : list scen :=
  flat_map (fun c1 =>
  map (fun c0 =>
    {| s_init := closed (set_all empty_fs (we_files e ++ [(PKL, c1); (Old PKL, c0)]));
       s_new := WtP 6 |})
    (opt_pk 0 (we_refs e)))
    (opt_pk 1 (we_refs e)).
Definition std_weights_scens : list scen := flat_map (weights_scens_env WT) std_envs_clean.
Definition std_weights_scens_after_torn : list scen := weights_scens_env WT std_env_after_torn.

(* weights writer of the importance sampler: level n is (re)written, the pickles know n levels *)
Definition ins_weights_scens : list (fname * scen) :=
  flat_map (fun n =>
  flat_map (fun stale =>
    map (fun s => (Base (Lvl n), s))
        (weights_scens_env (Base (Lvl n))
           {| we_files := ins_levels n stale; we_now := InsW n;
              we_refs := InsW n :: match n with 0 => [] | S m => [InsW m] end |}))
    [Absent; Bad; Whole (WtP 50)])
    [0; 1; 2; 3].

(* ---- the checkers evaluated on a regenerated writer -------------------------------------------- *)
Definition writer := fname -> payload -> list op.

Definition pickle_writer_ok (rc : rcfg) (mk : writer) (scens : list scen) : bool :=
  forallb (fun s => atomic_safe rc (s_init s) (mk PKL (s_new s))
                    && completes rc (s_init s) (mk PKL (s_new s)) (s_new s)) scens.
Definition weights_writer_ok (rc : rcfg) (mk : writer) (W : fname) (scens : list scen) : bool :=
  forallb (fun s => atomic_safe rc (s_init s) (mk W (s_new s))) scens.
Definition ins_weights_writer_ok (rc : rcfg) (mk : writer) (scens : list (fname * scen)) : bool :=
  forallb (fun ws => atomic_safe rc (s_init (snd ws)) (mk (fst ws) (s_new (snd ws)))) scens.

(* explanation output for a failing scenario list: (scenario index, unsafe crash-state indices) *)
Definition explain (rc : rcfg) (mk : writer) (W : fname) (scens : list scen) : list (nat * list nat) :=
  filter (fun p => negb (match snd p with [] => true | _ => false end))
    (combine (seq 0 (length scens))
       (map (fun s =>
          let ops := mk W (s_new s) in
          unsafe_states (resume rc)
            (acc_atomic (resume rc (afs (s_init s))) (resume rc (afs (aexec ops (s_init s)))))
            (s_init s) ops) scens)).

(* ---- the property-shaped checker for the pickle writer ------------------------------------------ *)
(* the newest complete checkpoint a resume would have found before the writer started *)
Definition prev_pk (v : fview) : option payload :=
  match v PKL with
  | Whole p => Some p
  | _ => match v (Old PKL) with Whole p => Some p | _ => None end
  end.

Definition popt_eqb (a b : option payload) : bool :=
  match a, b with
  | None, None => true
  | Some x, Some y => payload_eqb x y
  | _, _ => false
  end.

(* before the writer starts, resuming gives Fresh exactly when no checkpoint exists, else the newest *)
Definition before_shape (rc : rcfg) (s : scen) : bool :=
  forallb (fun o => match o with
                    | Fresh => popt_eqb (prev_pk (afs (s_init s))) None
                    | Loaded pk _ => popt_eqb (prev_pk (afs (s_init s))) (Some pk)
                    | Fail => false
                    end) (resume rc (afs (s_init s))).

Definition pickle_checker (rc : rcfg) (mk : writer) (scens : list scen) : bool :=
  pickle_writer_ok rc mk scens && forallb (before_shape rc) scens.

(* what the property text asks of an outcome *)
Definition property_outcome (s : scen) (o : outcome) : Prop :=
  match o with
  | Fresh => prev_pk (afs (s_init s)) = None                     (* no checkpoint had completed *)
  | Loaded pk _ => prev_pk (afs (s_init s)) = Some pk \/ pk = s_new s   (* the previous or the new one *)
  | Fail => False
  end.


(* everything C11 asks of today's code, as one boolean *)
Definition c11_ok (rc : rcfg) (dump_keep dump_nokeep save_w save_w_ins : writer) : bool :=
  pickle_checker rc dump_keep std_pickle_scens
  && pickle_checker rc dump_nokeep std_pickle_scens
  && pickle_checker rc dump_keep ins_pickle_scens
  && pickle_checker rc dump_nokeep ins_pickle_scens
  && weights_writer_ok rc save_w WT std_weights_scens
  && ins_weights_writer_ok rc save_w_ins ins_weights_scens.


(* ---- two kills: kill during a checkpoint, resume, kill during the resumed sampler's next checkpoint --- *)
(* what must be found after the second kill, given what the first resume found *)
Definition second_ok (o1 : outcome) (new2 : payload) (o2 : outcome) : bool :=
  match o1, o2 with
  | Loaded pk1 _, Loaded pk _ => payload_eqb pk pk1 || payload_eqb pk new2
  | Fresh, Fresh => true
  | Fresh, Loaded pk _ => payload_eqb pk new2
  | _, _ => false
  end.
Definition next_payload (p : payload) : payload :=
  match p with PkP v w => PkP (S v) w | WtP v => WtP (S v) end.

Definition two_crash_ok (rc : rcfg) (rh : rholder) (mk : writer) (s : scen) (new2 : payload) : bool :=
  forallb (fun v1 =>
    forallb (fun os =>
      let ops2 := mk (holder rh (snd os)) new2 in
      legal (closed v1) ops2
      && forallb (fun v2 => forallb (second_ok (fst os) new2) (resume rc v2))
                 (crash_states (closed v1) ops2))
      (resume_src rc v1))
    (crash_states (s_init s) (mk PKL (s_new s))).

Definition two_crash_checker (rc : rcfg) (rh : rholder) (mk : writer) (scens : list scen) : bool :=
  forallb (fun s => two_crash_ok rc rh mk s (next_payload (s_new s))) scens.

(* everything C11 asks about two-kill histories, as one boolean *)
Definition c11_two_ok (rc : rcfg) (rh : rholder) (dump_keep dump_nokeep : writer) : bool :=
  two_crash_checker rc rh dump_keep std_pickle_scens
  && two_crash_checker rc rh dump_nokeep std_pickle_scens
  && two_crash_checker rc rh dump_keep ins_pickle_scens
  && two_crash_checker rc rh dump_nokeep ins_pickle_scens.

(* ---- a training: directory creation + weights save, and whether it can be RE-RUN after a kill ------ *)
(* "sampling can continue": the resumed sampler retrains the level / block whose training was killed, in
   the directory the kill left behind.  Directories only matter through the precondition of mkdir. *)
Inductive dname := DLvl (n : nat) | DBlk (n : nat).
   (* <output>/levels/level_n/   and   <output>/proposal/training/block_n/ *)
Definition dname_eqb (a b : dname) : bool :=
  match a, b with
  | DLvl n, DLvl m => Nat.eqb n m
  | DBlk n, DBlk m => Nat.eqb n m
  | _, _ => false
  end.
Definition dset := dname -> bool.
Definition dupd (ds : dset) (d : dname) : dset := fun e => if dname_eqb e d then true else ds e.

Inductive top :=
| TMkdir (d : dname) (exist_ok : bool)   (* os.makedirs(d, exist_ok=...): raises FileExistsError when d exists and not exist_ok *)
| TMkdirIfAbsent (d : dname)             (* if not os.path.exists(d): os.makedirs(d[, exist_ok=True]) *)
| TFile (o : op).                        (* a file operation of the weights save *)

Definition tstep_a (a : fstate) (t : top) : fstate := match t with TFile o => astep a o | _ => a end.
Definition tstep_d (ds : dset) (t : top) : dset :=
  match t with TMkdir d _ => dupd ds d | TMkdirIfAbsent d => dupd ds d | TFile _ => ds end.
Definition tenabled (a : fstate) (ds : dset) (t : top) : bool :=
  match t with
  | TMkdir d ok => ok || negb (ds d)
  | TMkdirIfAbsent _ => true
  | TFile o => alegal a o
  end.
(* every op of the list is enabled when the list is run from (a, ds) *)
Fixpoint run_ok (a : fstate) (ds : dset) (tops : list top) : bool :=
  match tops with
  | [] => true
  | t :: r => tenabled a ds t && run_ok (tstep_a a t) (tstep_d ds t) r
  end.
Fixpoint tfiles (tops : list top) : list op :=
  match tops with [] => [] | TFile o :: r => o :: tfiles r | _ :: r => tfiles r end.
Fixpoint dexec (tops : list top) (ds : dset) : dset :=
  match tops with [] => ds | t :: r => dexec r (tstep_d ds t) end.
(* everything a kill during the training may leave: (files, directories) *)
Fixpoint tcrash (a : fstate) (ds : dset) (tops : list top) : list (fview * dset) :=
  map (fun v => (v, ds)) (aviews a)
  ++ match tops with [] => [] | t :: r => tcrash (tstep_a a t) (tstep_d ds t) r end.

(* the training runs from the clean state, and can be run again from whatever a kill leaves *)
Definition train_reusable (a0 : fstate) (d0 : dset) (tops : list top) : bool :=
  run_ok a0 d0 tops
  && forallb (fun vd => run_ok (closed (fst vd)) (snd vd) tops) (tcrash a0 d0 tops).
Definition stuck_states (a0 : fstate) (d0 : dset) (tops : list top) : list nat :=
  bad_from (fun vd => run_ok (closed (fst vd)) (snd vd) tops) 0 (tcrash a0 d0 tops).

Definition trainer := dname -> fname -> payload -> list top.
(* today: ImportanceFlowProposal.train / FlowProposal.train guard the makedirs, FlowModel.train uses exist_ok *)
Definition train_ops_today : trainer :=
  fun D F NEW => TMkdirIfAbsent D :: TMkdir D true :: map TFile (save_weights_ops F NEW).
Definition train_ops_bare_mkdir : trainer :=
  fun D F NEW => TMkdir D false :: TMkdir D true :: map TFile (save_weights_ops F NEW).

Definition no_dirs : dset := fun _ => false.
(* importance sampler: level n is trained with levels 0..n-1 complete, level n absent / stale; standard
   sampler in block mode: block n is trained, earlier weights wherever the pickles say *)
Definition train_reusable_ins (tr : trainer) : bool :=
  forallb (fun ws => forallb (fun d0 => train_reusable (s_init (snd ws)) d0
                                          (tr (match fst ws with Base (Lvl n) => DLvl n | _ => DLvl 0 end)
                                              (fst ws) (s_new (snd ws))))
                             [no_dirs; dupd no_dirs (match fst ws with Base (Lvl n) => DLvl n | _ => DLvl 0 end)])
          ins_weights_scens.
Definition train_reusable_std (tr : trainer) : bool :=
  forallb (fun n => forallb (fun d0 =>
        train_reusable (closed (set_all empty_fs [(PKL, Whole (PkP 1 (match n with 0 => NoW | S m => StdW (Base (Blk m)) end)));
                                                  (Base (Blk (pred n)), match n with 0 => Absent | _ => Whole (WtP 5) end)]))
                       d0 (tr (DBlk n) (Base (Blk n)) (WtP 6)))
        [no_dirs; dupd no_dirs (DBlk n)]) [0; 1; 2].
Definition train_reusable_all (tr : trainer) : bool := train_reusable_ins tr && train_reusable_std tr.

(* ---- concrete states used by the refuted variants ---------------------------------------------- *)
Definition view_at (a0 : fstate) (ops : list op) (i : nat) : fview :=
  nth i (crash_states a0 ops) empty_fs.

(* a clean directory of the standard sampler after two trainings and two checkpoints *)
Definition clean2 : fstate :=
  closed (set_all empty_fs [(WT, Whole (WtP 5)); (Old WT, Whole (WtP 4));
                            (PKL, Whole (PkP 1 (StdW WT))); (Old PKL, Whole (PkP 0 (StdW WT)))]).

