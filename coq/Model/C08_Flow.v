(* C08 - model of nessai's density glue around glasflow transforms:
     NFlow.forward / inverse / log_prob / forward_and_log_prob / sample_and_log_prob,
     FlowModel.sample_and_log_prob (supplied z, alt_dist), FlowProposal.forward_pass / backward_pass,
     ImportanceFlowProposal.compute_log_Q / update_log_q / draw (the rows of log q).
   glasflow transforms, base distributions and the reparameterisations are ORACLES: a layer is a pair of functions
   returning the image and a log-determinant; [layer_ok] states that they are mutual inverses with opposite
   log-determinants.  The glue is written ONCE, over an arbitrary carrier T with add / sub / zero, and instantiated
   (a) at Coq's reals for the theorems (Proofs/C08_Flow_proofs.v) and (b) at exact dyadics for the recomputation of the
   recorded component values inside Coq (Run/C08_run.v).
   Definitions only. *)
From Coq Require Import List ZArith.
Import ListNotations.

Section Glue.
Variable T : Type.
Variables (add sub : T -> T -> T) (zero : T).

(* ---- value level: what nessai computes from the component values -------------------------------------------- *)
(* NFlow.log_prob / forward_and_log_prob:  log_prob + logabsdet *)
Definition g_log_prob (base_z ld : T) : T := add base_z ld.
(* NFlow.sample_and_log_prob / FlowModel.sample_and_log_prob(z=...):  log_prob - logabsdet(inverse) *)
Definition g_sample_log_prob (latent_z ld_inv : T) : T := sub latent_z ld_inv.
(* CompositeTransform: total_logabsdet += logabsdet, layer after layer *)
Definition g_total (lds : list T) : T := fold_left add lds zero.
(* FlowProposal.forward_pass:  log_prob + log_J ;  backward_pass:  log_prob -= log_J *)
Definition g_forward_pass (lp lj : T) : T := add lp lj.
Definition g_backward_pass (lp lj_inv : T) : T := sub lp lj_inv.
(* ImportanceFlowProposal: log_q[:, i] = flow_i.log_prob(x') + log_j *)
Definition g_ins_row (lps : list T) (lj : T) : list T := map (fun lp => add lp lj) lps.

(* ---- function level ------------------------------------------------------------------------------------------------ *)
Section Maps.
Variables X Y : Type.
Record layer := { fwd : X -> Y * T; inv : Y -> X * T }.
End Maps.
Arguments fwd {X Y} l x.
Arguments inv {X Y} l y.

Section Flow.
Variable X : Type.                       (* points of the flow's data space and latent space *)

(* CompositeTransform._cascade: forward applies the layers in order, inverse applies the inverses in reverse order *)
Fixpoint comp_fwd (ls : list (layer X X)) (x : X) : X * T :=
  match ls with
  | [] => (x, zero)
  | l :: r => let '(y, d) := fwd l x in let '(z, d') := comp_fwd r y in (z, add d d')
  end.
Fixpoint comp_inv (ls : list (layer X X)) (z : X) : X * T :=
  match ls with
  | [] => (z, zero)
  | l :: r => let '(y, d) := comp_inv r z in let '(x, d') := inv l y in (x, add d d')
  end.
Definition composite (ls : list (layer X X)) : layer X X := {| fwd := comp_fwd ls; inv := comp_inv ls |}.

Record flow := { transform : layer X X; base : X -> T }.     (* base: distribution.log_prob *)

Definition log_prob (f : flow) (x : X) : T :=
  let '(z, ld) := fwd (transform f) x in g_log_prob (base f z) ld.
Definition forward_and_log_prob (f : flow) (x : X) : X * T :=
  let '(z, ld) := fwd (transform f) x in (z, g_log_prob (base f z) ld).
(* sampling direction, z given: latent is the density the z were drawn from (base, or alt_dist when supplied) *)
Definition sample_and_log_prob (f : flow) (latent : X -> T) (z : X) : X * T :=
  let '(x, ld) := inv (transform f) z in (x, g_sample_log_prob (latent z) ld).

(* ---- proposal level: the reparameterisation is a certified map between physical points P and flow points X ---------- *)
Variable P : Type.
Definition forward_pass (rp : layer P X) (f : flow) (x : P) : X * T :=
  let '(xp, lj) := fwd rp x in
  let '(z, lp) := forward_and_log_prob f xp in (z, g_forward_pass lp lj).
Definition backward_pass (rp : layer P X) (f : flow) (latent : X -> T) (z : X) : P * T :=
  let '(xp, lp) := sample_and_log_prob f latent z in
  let '(x, lji) := inv rp xp in (x, g_backward_pass lp lji).

(* ---- importance proposal: one column per flow ------------------------------------------------------------------------ *)
(* draw: x' = flow.sample_ith; x = inverse_rescale(x'); _, log_j = rescale(x); compute_log_Q(x', log_j) *)
Definition ins_row_at_draw (rp : layer P X) (flows : list flow) (xp : X) : list T :=
  let x := fst (inv rp xp) in
  g_ins_row (map (fun f => log_prob f xp) flows) (snd (fwd rp x)).
(* update_log_q / compute_meta_proposal_samples: x', log_j = rescale(x); log_prob(x') + log_j *)
Definition ins_row_recomputed (rp : layer P X) (flows : list flow) (x : P) : list T :=
  let '(xp, lj) := fwd rp x in g_ins_row (map (fun f => log_prob f xp) flows) lj.
End Flow.
End Glue.

Arguments fwd {T X Y} l x.
Arguments inv {T X Y} l y.

(* ---- array level: a batch may be evaluated in chunks (ImportanceFlowModel.log_prob_ith / log_prob_all, FlowModel.log_prob
   on arrays of any size): each chunk through the pointwise density, results written back in order ---------------------- *)
Definition batched_eval {X T : Type} (f : X -> T) (chunks : list (list X)) : list T := concat (map (map f) chunks).

(* ---- ImportanceFlowProposal.draw: samples and their rows of per-proposal densities travel as two parallel arrays ----------
   every batch is filtered by the second-stage acceptance mask (finite log-prior, logW not +inf, row not all NaN / +inf) with
   get_subset_arrays(accept, x, log_q_all) - the SAME mask on both arrays -, the kept parts are concatenated and both arrays
   are cut to the first n entries. *)
Fixpoint keep_by {A : Type} (mask : list bool) (l : list A) : list A :=
  match mask, l with
  | true :: m, x :: r => x :: keep_by m r
  | false :: m, _ :: r => keep_by m r
  | _, _ => []
  end.
Definition draw_batch (A B : Type) := (list bool * list A * list B)%type.       (* accept mask, points, density rows *)
Definition draw_aligned {A B : Type} (n : nat) (bs : list (draw_batch A B)) : list (A * B) :=
  combine (firstn n (concat (map (fun b => keep_by (fst (fst b)) (snd (fst b))) bs)))
          (firstn n (concat (map (fun b => keep_by (fst (fst b)) (snd b)) bs))).
(* refuted variant: the points are filtered, the rows are appended unfiltered and only trimmed at the end *)
Definition draw_rows_unfiltered {A B : Type} (n : nat) (bs : list (draw_batch A B)) : list (A * B) :=
  combine (firstn n (concat (map (fun b => keep_by (fst (fst b)) (snd (fst b))) bs)))
          (firstn n (concat (map (fun b => snd b) bs))).

(* ---- the oracle hypothesis, over the reals ---------------------------------------------------------------------------- *)
From Coq Require Import Reals.
Local Open Scope R_scope.
(* mutual inverses with opposite log-determinants *)
Definition layer_ok {X Y : Type} (l : layer R X Y) : Prop :=
  (forall x, fst (inv l (fst (fwd l x))) = x /\ snd (inv l (fst (fwd l x))) = - snd (fwd l x)) /\
  (forall y, fst (fwd l (fst (inv l y))) = y /\ snd (fwd l (fst (inv l y))) = - snd (inv l y)).
