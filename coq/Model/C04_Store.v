(* C04 - model of nessai.samplers.importancesampler.OrderedSamples
   (add_initial_samples, add_samples, add_to_nested_samples, remove_samples,
    update_log_likelihood_threshold, finalise) and nessai.utils.structures.get_inverse_indices,
   written with the numpy primitives of Lib/ListOps.v exactly as the code uses them.
   Likelihoods are integer order keys (harness: common.float_key, strictly monotone).
   Definitions only; proofs in Proofs/C04_Store_proofs.v. *)
From Coq Require Import List ZArith Bool Arith.
Import ListNotations.
From NessaiV Require Import Lib.ListOps.
Local Open Scope Z_scope.

Record srow := { key : Z; sid : nat }.     (* one sample: order key of logL, identity *)
Definition qrow := nat.                    (* its row of the log_q table (an opaque tag) *)

Record store := {
  init : bool;                 (* samples is not None *)
  rows : list srow;            (* self.samples *)
  lq : list qrow;              (* self.log_q, same length, transformed with the same index vectors *)
  live : option (list nat);    (* self.live_points_indices (None allowed) *)
  dead : list nat;             (* self.nested_samples_indices *)
  thr : option Z;              (* self.log_likelihood_threshold *)
  strict : bool;               (* strict_threshold *)
  repl : bool                  (* replace_all *)
}.

Definition empty_store (st rp : bool) : store :=
  {| init := false; rows := []; lq := []; live := None; dead := []; thr := None; strict := st; repl := rp |}.

Definition natkey (i : nat) : Z := Z.of_nat i.

(* np.argsort(samples, order="logL"): ties are broken by the remaining fields in dtype order; the
   harness puts the sample identity in the first parameter field, so the order is (key, sid). *)
Definition row_leb (a b : srow * qrow) : bool :=
  (key (fst a) <? key (fst b)) || ((key (fst a) =? key (fst b)) && (sid (fst a) <=? sid (fst b))%nat).
Definition sort_samples (b : list (srow * qrow)) : list (srow * qrow) := isort row_leb b.

Definition add_initial (s : store) (b : list (srow * qrow)) : store :=
  let sb := sort_samples b in
  {| init := true; rows := map fst sb; lq := map snd sb; live := Some (seq 0 (length sb));
     dead := dead s; thr := thr s; strict := strict s; repl := repl s |}.

(* add_to_nested_samples *)
Definition merge_idx (d : list nat) (idx : list nat) : list nat :=
  np_insert d (map (fun i => first_ge natkey d (natkey i)) idx) idx.

Definition add_samples (s : store) (b : list (srow * qrow)) : option store :=
  if negb (init s) then None else            (* TypeError: 'NoneType' is not subscriptable *)
  let sb := sort_samples b in
  let bs := map fst sb in
  let bq := map snd sb in
  let idx := map (fun r => first_ge key (rows s) (key r)) bs in
  let rows' := np_insert (rows s) idx bs in
  let lq' := np_insert (lq s) idx bq in
  if strict s then
    match thr s with
    | None => None                              (* TypeError in searchsorted(.., None) *)
    | Some t =>
        let n := first_ge key rows' t in
        Some {| init := true; rows := rows'; lq := lq';
                live := Some (seq n (length rows' - n)); dead := seq 0 n;
                thr := thr s; strict := strict s; repl := repl s |}
    end
  else
    match bs with
    | [] => None                                (* ValueError: max of an empty index array *)
    | _ =>
        let new := add_arange 0 idx in
        let old := inverse_indices (length rows') new in
        if negb (length old =? length rows' - length bs)%nat then None   (* RuntimeError *)
        else
          let dead' := take 0%nat old (dead s) in
          let live' := match live s with
                       | None => new
                       | Some lv => merge_idx (take 0%nat old lv) new
                       end in
          Some {| init := true; rows := rows'; lq := lq'; live := Some live'; dead := dead';
                  thr := thr s; strict := strict s; repl := repl s |}
    end.

Definition dflt_row : srow := {| key := 0; sid := 0 |}.

Definition remove_samples (s : store) : option (store * nat) :=
  match live s with
  | None => None                                (* TypeError *)
  | Some lv =>
      if repl s then
        Some ({| init := init s; rows := rows s; lq := lq s; live := None; dead := merge_idx (dead s) lv;
                 thr := thr s; strict := strict s; repl := repl s |}, length lv)
      else
        match thr s with
        | None => None
        | Some t =>
            let n := first_ge key (take dflt_row (rows s) lv) t in
            Some ({| init := init s; rows := rows s; lq := lq s; live := Some (skipn n lv);
                     dead := merge_idx (dead s) (firstn n lv);
                     thr := thr s; strict := strict s; repl := repl s |}, n)
        end
  end.

Definition finalise (s : store) : option store :=
  match live s with
  | None => None
  | Some lv => Some {| init := init s; rows := rows s; lq := lq s; live := None; dead := merge_idx (dead s) lv;
                       thr := thr s; strict := strict s; repl := repl s |}
  end.

Definition set_thr (s : store) (t : Z) : store :=
  {| init := init s; rows := rows s; lq := lq s; live := live s; dead := dead s; thr := Some t;
     strict := strict s; repl := repl s |}.

Inductive op :=
| OInit (b : list (srow * qrow))
| OAdd (b : list (srow * qrow))
| OThr (t : Z)
| ORemove
| OFinalise.

(* one API call; the nat is the value returned by remove_samples (0 for the others); None = the call raises *)
Definition step (s : store) (o : op) : option (store * nat) :=
  match o with
  | OInit b => Some (add_initial s b, 0%nat)
  | OAdd b => option_map (fun s' => (s', 0%nat)) (add_samples s b)
  | OThr t => Some (set_thr s t, 0%nat)
  | ORemove => remove_samples s
  | OFinalise => option_map (fun s' => (s', 0%nat)) (finalise s)
  end.

(* run a history; stops at the first raising call (like the harness does) and reports how many calls succeeded *)
Fixpoint run (s : store) (ops : list op) (rets : list nat) : store * list nat * nat :=
  match ops with
  | [] => (s, rev rets, 0%nat)
  | o :: r => match step s o with
              | None => (s, rev rets, S (length r))      (* number of calls not executed, >= 1 *)
              | Some (s', n) => run s' r (n :: rets)
              end
  end.

(* The code as it was before the repair of defect D6 located the threshold with
   np.argmax(mask) - first True, and 0 when the mask is all False.  Kept as a refuted variant. *)
Fixpoint argmax_ge (l : list srow) (t : Z) : nat :=
  match l with
  | [] => 0%nat
  | x :: r => if t <=? key x then 0%nat
              else if existsb (fun y => t <=? key y) r then S (argmax_ge r t) else 0%nat
  end.
