(* C14 - seeded runs are reproducible and independent of the parallelisation settings.

   A sampler run is modelled as a PROGRAM over three effects - draw the next value of the numpy global
   generator, draw the next value of the torch global generator, evaluate a batch through
   Model.batch_evaluate_* - i.e. every nessai sampler, proposal and flow model, as long as all its
   randomness comes from those two generators (tie A: the regenerated randomness table, checked by
   [rng_confined]) and the parallelisation settings reach it only through the batch evaluation (C10's
   [eval_tree batch_tree], tie A: the regenerated pool-usage table).
   Definitions only. *)
From Coq Require Import String.
From Coq Require Import List Arith Bool.
Import ListNotations.

Section Prog.
Variables (A B Rn Rt Out : Type).

Inductive prog :=
| Ret (o : Out)
| DrawNp (k : Rn -> prog)                       (* np.random.*  (global RandomState, seeded by np.random.seed)  *)
| DrawTorch (k : Rt -> prog)                    (* torch.rand*/randn*/randperm/normal/distribution.sample (global generator) *)
| Eval (batch : list A) (k : list B -> prog).   (* Model.batch_evaluate_log_likelihood / _log_prior            *)

(* result: output, numpy draws consumed, torch draws consumed, points evaluated; None = a stream ran out *)
Fixpoint run (ev : list A -> list B) (p : prog) (sn : list Rn) (st : list Rt) : option (Out * nat * nat * nat) :=
  match p with
  | Ret o => Some (o, 0, 0, 0)
  | DrawNp k =>
      match sn with
      | [] => None
      | r :: sn' => match run ev (k r) sn' st with
                    | Some (o, a, b, e) => Some (o, S a, b, e)
                    | None => None
                    end
      end
  | DrawTorch k =>
      match st with
      | [] => None
      | r :: st' => match run ev (k r) sn st' with
                    | Some (o, a, b, e) => Some (o, a, S b, e)
                    | None => None
                    end
      end
  | Eval batch k =>
      match run ev (k (ev batch)) sn st with
      | Some (o, a, b, e) => Some (o, a, b, e + length batch)
      | None => None
      end
  end.
End Prog.
Arguments Ret {A B Rn Rt Out}.
Arguments DrawNp {A B Rn Rt Out}.
Arguments DrawTorch {A B Rn Rt Out}.
Arguments Eval {A B Rn Rt Out}.
Arguments run {A B Rn Rt Out}.

(* ---- the regenerated usage table of the whole package ----------------------------------------- *)
Inductive rsrc :=
| NumpyGlobal            (* np.random.<legacy function>: the global RandomState                              *)
| TorchGlobal            (* torch.rand/randn/randint/randperm/normal/multinomial/bernoulli/*_like, no generator= *)
| ScipyGlobal            (* <frozen distribution>.rvs(...) without random_state: numpy's global RandomState   *)
| TorchDistSample        (* <torch distribution / flow>.sample(...): the torch global generator               *)
| SeedNumpy              (* np.random.seed(self.seed)                                                          *)
| SeedTorch              (* torch.manual_seed(self.seed)                                                       *)
| SeedFromNumpy          (* a seed drawn from np.random when the user gave none (recorded in self.seed)       *)
| DefaultRng (seeded : bool)       (* np.random.default_rng(arg?) / Generator / SeedSequence                  *)
| RandomStateCtor (seeded : bool)  (* np.random.RandomState(arg?)                                             *)
| TorchGenerator         (* torch.Generator() / generator= keyword / torch.seed() / initial_seed-free reseed  *)
| StdlibRandom           (* random.* of the standard library (not seeded by configure_random_seed)            *)
| OsEntropy              (* os.urandom, secrets.*, uuid.uuid1/uuid4                                            *)
| TimeSeed.              (* a seed derived from time.* / datetime.now                                          *)

Inductive setsink :=
| SDictBuild             (* {k: d[k] for k in <set>}: builds a dict (pickled state), values unchanged         *)
| SSetUpdate             (* body only adds to / updates a set                                                  *)
| SDictPop               (* body only removes keys from a dict                                                 *)
| SSorted                (* wrapped in sorted(...)                                                             *)
| SPlot                  (* inside a plotting function                                                          *)
| SMessage               (* only formatted into a message                                                      *)
| SIntSet                (* a subset of a literal set of integers: int hashes are not randomised               *)
| SOtherSink.            (* anything else: the iteration order can reach results                               *)

(* the test that guards `seed = <generated>` in configure_random_seed *)
Inductive sguard :=
| GIsNone                (* `seed is None` (or `seed == None`): only a missing seed is replaced                 *)
| GTruthiness            (* `not seed` / `if seed: .. else`: the legitimate seed 0 is replaced too              *)
| GUnconditional         (* the generated seed always replaces the requested one                                *)
| GOtherGuard.           (* any other test                                                                      *)

Inductive entry :=
| ESeedGuard (site : string) (g : sguard)
| ERand (site : string) (src : rsrc)
| ESetIter (site : string) (sink : setsink)
| EPoolRead (site : string) (attr : string)      (* a read of .pool / .n_pool / .likelihood_chunksize    *)
| EPoolWrite (site : string) (attr : string)     (* an attribute assigned inside Model.configure_pool / close_pool:
                                                    anything but the pool state itself is a side channel through which
                                                    the parallelisation settings can reach the run *)
| ESeedCall (site : string)                      (* a call of self.configure_random_seed(...)            *)
| EEnvGuardedDraw (site : string) (what : string).
     (* a randomness consumer inside (or after an early exit of) a branch whose test reads the file system
        (os.path.exists / isfile / isdir / listdir / glob / stat ...): whether the draw happens - hence the position
        of the stream - would depend on something that is neither the seed nor the configuration *)

Definition src_ok (s : rsrc) : bool :=
  match s with
  | NumpyGlobal | TorchGlobal | ScipyGlobal | TorchDistSample | SeedNumpy | SeedTorch | SeedFromNumpy => true
  | DefaultRng b | RandomStateCtor b => b               (* a private generator is reproducible only when it is given a seed *)
  | TorchGenerator | StdlibRandom | OsEntropy | TimeSeed => false
  end.
Definition sink_ok (s : setsink) : bool :=
  match s with SOtherSink => false | _ => true end.
Definition mem (x : string) (l : list string) : bool := existsb (String.eqb x) l.

Definition pool_state : list string := ["pool"; "n_pool"; "_pool_configured"]%string.
Definition entry_ok (allowed : list string) (e : entry) : bool :=
  match e with
  | ESeedGuard _ g => match g with GIsNone => true | _ => false end
  | ERand _ s => src_ok s
  | ESetIter _ k => sink_ok k
  | EPoolRead site _ => mem site allowed
  | EPoolWrite _ a => mem a pool_state
  | ESeedCall _ => true
  | EEnvGuardedDraw _ _ => false
  end.

Definition is_seed_np (seed_site : string) (e : entry) : bool :=
  match e with ERand s SeedNumpy => String.eqb s seed_site | _ => false end.
Definition is_seed_torch (seed_site : string) (e : entry) : bool :=
  match e with ERand s SeedTorch => String.eqb s seed_site | _ => false end.
Definition is_seed_call (init_site : string) (e : entry) : bool :=
  match e with ESeedCall s => String.eqb s init_site | _ => false end.
(* seeding happens in configure_random_seed only, for both generators, and the samplers' constructor calls it *)
Definition seeds_only_in (seed_site : string) (e : entry) : bool :=
  match e with
  | ERand s SeedNumpy | ERand s SeedTorch | ERand s SeedFromNumpy => String.eqb s seed_site
  | _ => true
  end.

Definition is_seed_gen (e : entry) : bool := match e with ERand _ SeedFromNumpy => true | _ => false end.
Definition is_guard (seed_site : string) (e : entry) : bool :=
  match e with ESeedGuard s GIsNone => String.eqb s seed_site | _ => false end.
Definition rng_confined (allowed : list string) (seed_site init_site : string) (t : list entry) : bool :=
  forallb (entry_ok allowed) t
  && (negb (existsb is_seed_gen t) || existsb (is_guard seed_site) t)
  && existsb (is_seed_np seed_site) t && existsb (is_seed_torch seed_site) t
  && existsb (is_seed_call init_site) t
  && forallb (seeds_only_in seed_site) t.

(* the modelled call sites: where a parallelisation attribute may be READ *)
Definition pool_sites : list string :=
  [ "model.py::Model.configure_pool"; "model.py::Model.close_pool";
    "model.py::Model.batch_evaluate_log_likelihood"; "model.py::Model.batch_evaluate_log_prior";
    "model.py::Model.batch_evaluate_log_prior_unit_hypercube";
    "utils/multiprocessing.py::get_n_pool"; "utils/multiprocessing.py::batch_evaluate_function";
    "utils/multiprocessing.py::log_likelihood_wrapper"; "utils/multiprocessing.py::log_prior_wrapper" ]%string.
Definition seed_site : string := "samplers/base.py::BaseNestedSampler.configure_random_seed".
Definition init_site : string := "samplers/base.py::BaseNestedSampler.__init__".
