(* C16 - model of posterior resampling:
     nessai/posterior.py     draw_posterior_samples (rejection_sampling / multinomial_resampling)
     nessai/utils/stats.py   effective_sample_size
     nessai/evidence.py      _BaseNSIntegralState.effective_n_posterior_samples  (same formula)
   Log-weights are extended log numbers (None = -inf).  The uniform stream of np.random.rand and
   np.random.choice are oracles (inputs / Section variable).  Definitions only; proofs are in
   Proofs/C16_Resample_proofs.v. *)
From Coq Require Import Reals ZArith List Bool.
From NessaiV Require Import Lib.Enclose.
Import ListNotations.
Local Open Scope R_scope.

(* ---- Kish effective sample size, as the code computes it ----------------------------- *)
(* log_w -= logsumexp(log_w);  n = exp(-logsumexp(2 * log_w)) *)
Definition normalise (lw : list xlog) : list xlog := map (fun l => xsub l (lse_R lw)) lw.
Definition ess (lw : list xlog) : R := exp (- lse_R (map (xscale 2) (normalise lw))).
(* the textbook form  (sum w)^2 / sum w^2  on linear weights *)
Definition kish (ws : list R) : R := (sum_R ws) ^ 2 / sum_R (map (fun w => w ^ 2) ws).

(* ---- rejection sampling ------------------------------------------------------------------ *)
(* np.max over extended logs *)
Definition xmaxo (lw : list xlog) : xlog :=
  fold_right (fun l a => match l, a with
                         | None, _ => a
                         | Some x, None => Some x
                         | Some x, Some y => Some (Rmax x y)
                         end) None lw.
Definition Rltb (a b : R) : bool := if Rlt_dec a b then true else false.
(* np.log(u) for u in [0, 1):  log(0) = -inf *)
Definition lnu (u : R) : xlog := if Req_EM_T u 0 then None else Some (ln u).
(* a > b on extended logs (no +inf, no NaN) *)
Definition xgt (a b : xlog) : bool :=
  match a, b with
  | None, _ => false
  | Some _, None => true
  | Some x, Some y => Rltb y x
  end.
(* log_w - max(log_w) > log(u) ;  all weights -inf: -inf - -inf = NaN and every comparison is False *)
Definition rej_keeps (lw : list xlog) (us : list R) : list bool :=
  match xmaxo lw with
  | None => map (fun _ => false) lw
  | Some M => map2 (fun l u => xgt (xsub l M) (lnu u)) lw us
  end.
(* np.where(mask)[0] *)
Fixpoint positions_from (k : nat) (bs : list bool) : list nat :=
  match bs with
  | [] => []
  | b :: r => if b then k :: positions_from (S k) r else positions_from (S k) r
  end.
Definition positions (bs : list bool) : list nat := positions_from 0 bs.
Definition rejection (lw : list xlog) (us : list R) : list nat := positions (rej_keeps lw us).
(* nested_samples[indices] *)
Definition take {A} (d : A) (samples : list A) (idx : list nat) : list A := map (fun i => nth i samples d) idx.

Fixpoint strictly_increasing (l : list nat) : Prop :=
  match l with
  | a :: r => match r with b :: _ => (a < b)%nat /\ strictly_increasing r | [] => True end
  | [] => True
  end.

(* ---- multinomial resampling -------------------------------------------------------------- *)
(* p = exp(log_w - logsumexp(log_w)) *)
Definition probs (lw : list xlog) : list R := map xexp (normalise lw).
(* n = int(ess) *)
Definition default_n (lw : list xlog) : nat := Z.to_nat (Int_part (ess lw)).
Section Multinomial.
Variable choice : nat -> nat -> list R -> list nat.       (* np.random.choice(a, size=n, p=p, replace=True) *)
Definition multinomial (lw : list xlog) (n : option nat) : list nat :=
  choice (length lw) (match n with Some k => k | None => default_n lw end) (probs lw).
End Multinomial.

(* ================= interval twins (run with vm_compute) ==================================== *)
Section Twins.
Variable p : prec.
Definition normalise_I (li : list (option I.type)) : list (option I.type) :=
  let s := lse_I p li in map (fun l => xsub_I p l s) li.
Definition ess_I (li : list (option I.type)) : I.type :=
  I.exp p (I.neg (lse_I p (map (xscale_I p (iZ p 2)) (normalise_I li)))).
Definition probs_I (li : list (option I.type)) : list I.type := map (xexp_I p) (normalise_I li).
Definition xmaxo_I (li : list (option I.type)) : option I.type :=
  fold_right (fun l a => match l, a with
                         | None, _ => a
                         | Some x, None => Some x
                         | Some x, Some y => Some (max_I p x y)
                         end) None li.
(* margin of the acceptance test:  (log_w_i - M) - log(u_i)   for finite log_w_i and u_i > 0 *)
Definition margin_I (M l u : I.type) : I.type := I.sub p (I.sub p l M) (I.ln p u).
End Twins.

(* ---- tolerances (explicit; calibrated on the unchanged tree, see design.d/C16.md) ----------- *)
Definition u53 : R := dyR 1 (-53).
Definition absmax (ls : list xlog) : R :=
  fold_right (fun l a => match l with None => a | Some x => Rmax (Rabs x) a end) 0 ls.
Definition K_ess : Z := 256.
(* relative tolerance of ESS and of the probabilities handed to choice:  K u (len + max|log_w| + 1) *)
Definition tol_rel (lw : list xlog) : R := IZR K_ess * u53 * (INR (length lw) + absmax lw + 1).
(* a probability p_i: relative tolerance plus the smallest positive float64 (underflow of exp) *)
Definition tol_p (lw : list xlog) (pr : R) : R := tol_rel lw * pr + dyR 1 (-1074).
(* slack on the acceptance margin (float64 subtraction and log):  K_m u (|log_w_i - M| + |log u_i| + 1) *)
Definition K_m : Z := 64.
Definition tol_margin (d lu : R) : R := IZR K_m * u53 * (Rabs d + Rabs lu + 1).
Section TolTwins.
Variable p : prec.
Definition absmax_I (ls : list (option I.type)) : I.type :=
  fold_right (fun l a => match l with None => a | Some x => max_I p (I.abs x) a end) (iZ p 0) ls.
Definition tol_rel_I (li : list (option I.type)) : I.type :=
  I.mul p (I.mul p (iZ p K_ess) (dy p 1 (-53)))
          (I.add p (I.add p (iZ p (Z.of_nat (length li))) (absmax_I li)) (iZ p 1)).
Definition tol_p_I (t pr : I.type) : I.type := I.add p (I.mul p t pr) (dy p 1 (-1074)).
Definition tol_margin_I (d lu : I.type) : I.type :=
  I.mul p (I.mul p (iZ p K_m) (dy p 1 (-53))) (I.add p (I.add p (I.abs d) (I.abs lu)) (iZ p 1)).
End TolTwins.
