(* C10 - model of nessai.utils.structures.array_split_chunksize,
   numpy.array_split (by count), nessai.utils.multiprocessing.batch_evaluate_function
   and the evaluation counter of nessai.model.Model.batch_evaluate_log_likelihood.
   Definitions only (runnable with vm_compute); proofs are in Proofs/C10_Batch_proofs.v. *)
From Coq Require Import List Arith Bool.
Import ListNotations.

Section Chunks.
Context {A : Type}.

(* np.array_split(x, range(k, len(x), k)) : sections [0:k], [k:2k], ..., [mk:len].
   For len(x) <= k (including 0) numpy returns the single section [x]. *)
Fixpoint chunks_fuel (fuel k : nat) (l : list A) : list (list A) :=
  match fuel with
  | O => [l]
  | S f => if length l <=? k then [l]
           else firstn k l :: chunks_fuel f k (skipn k l)
  end.
Definition chunks (k : nat) (l : list A) : list (list A) := chunks_fuel (length l) k l.

(* np.array_split(x, p) : p sections, the first (len mod p) of size len/p + 1,
   the rest of size len/p (possibly empty). *)
Fixpoint take_sizes (sizes : list nat) (l : list A) : list (list A) :=
  match sizes with
  | [] => []
  | s :: r => firstn s l :: take_sizes r (skipn s l)
  end.
Definition split_sizes (p len : nat) : list nat :=
  repeat (S (len / p)) (len mod p) ++ repeat (len / p) (p - len mod p).
Definition split_n (p : nat) (l : list A) : list (list A) :=
  take_sizes (split_sizes p (length l)) l.
End Chunks.

(* ---- the decision skeleton of batch_evaluate_function -------------------- *)
(* How the input is cut before the function is applied. *)
Inductive splitter := SChunks | SSplitN.
(* Leaf expressions: what is computed once the branch is chosen. *)
Inductive lexp :=
| LDirect                               (* func(x)                                            *)
| LConcatMap (s : splitter) (pooled : bool)
      (* np.concatenate(list(map(func, split))) / np.concatenate(pool.map(wrapper, split))      *)
| LPointwise (pooled : bool).
      (* np.array([func(xx) for xx in x]).flatten() / np.array(pool.map(wrapper, x)).flatten()   *)
Inductive dtree :=
| Leaf (e : lexp)
| IfPoolNone (t e : dtree)              (* if pool is None: t else: e *)
| IfVect (t e : dtree)                  (* if vectorised:   t else: e *)
| IfChunk (t e : dtree).                (* if chunksize:    t else: e   (None and 0 are falsy) *)

Section Eval.
Context {A B : Type}.
Variable f : A -> B.                         (* the user's function on one point              *)
Variable fv : list A -> list B.              (* the same function called on a batch           *)
Variable pmap : forall X Y, (X -> Y) -> list X -> list Y.   (* pool.map (oracle)             *)

Record binputs := { has_pool : bool; vectorised : bool; chunksize : nat; n_pool : nat }.

Definition do_split (s : splitter) (i : binputs) (l : list A) : list (list A) :=
  match s with SChunks => chunks (chunksize i) l | SSplitN => split_n (n_pool i) l end.

Definition eval_leaf (e : lexp) (i : binputs) (l : list A) : list B :=
  match e with
  | LDirect => fv l
  | LConcatMap s false => concat (map fv (do_split s i l))
  | LConcatMap s true => concat (pmap _ _ fv (do_split s i l))
  | LPointwise false => map f l
  | LPointwise true => pmap _ _ f l
  end.

Fixpoint eval_tree (t : dtree) (i : binputs) (l : list A) : list B :=
  match t with
  | Leaf e => eval_leaf e i l
  | IfPoolNone a b => if negb (has_pool i) then eval_tree a i l else eval_tree b i l
  | IfVect a b => if vectorised i then eval_tree a i l else eval_tree b i l
  | IfChunk a b => if negb (chunksize i =? 0) then eval_tree a i l else eval_tree b i l
  end.
End Eval.

(* The hand-written model of today's batch_evaluate_function (six branches). *)
Definition batch_tree : dtree :=
  IfPoolNone
    (IfVect (IfChunk (Leaf (LConcatMap SChunks false)) (Leaf LDirect))
            (Leaf (LPointwise false)))
    (IfVect (IfChunk (Leaf (LConcatMap SChunks true)) (Leaf (LConcatMap SSplitN true)))
            (Leaf (LPointwise true))).

(* ---- a proven-sound checker over *any* such tree (tie A) ----------------- *)
(* Facts known on the path to a leaf: Some true / Some false / None = unknown. *)
Record facts := { k_pool : option bool; k_vect : option bool; k_chunk : option bool }.
Definition no_facts := {| k_pool := None; k_vect := None; k_chunk := None |}.
Definition is_true (o : option bool) := match o with Some true => true | _ => false end.

Definition leaf_ok (e : lexp) (k : facts) : bool :=
  match e with
  | LDirect => is_true (k_vect k)
  | LConcatMap SChunks pooled =>
      is_true (k_vect k) && is_true (k_chunk k) && (negb pooled || is_true (k_pool k))
  | LConcatMap SSplitN pooled =>     (* n_pool >= 1 is only known when a pool exists *)
      is_true (k_vect k) && is_true (k_pool k)
  | LPointwise pooled => negb pooled || is_true (k_pool k)
  end.

Definition consistent (known : option bool) (v : bool) : bool :=
  match known with None => true | Some b => Bool.eqb b v end.

Fixpoint tree_ok (t : dtree) (k : facts) : bool :=
  match t with
  | Leaf e => leaf_ok e k
  | IfPoolNone a b =>
      (negb (consistent (k_pool k) false) || tree_ok a {| k_pool := Some false; k_vect := k_vect k; k_chunk := k_chunk k |})
      && (negb (consistent (k_pool k) true) || tree_ok b {| k_pool := Some true; k_vect := k_vect k; k_chunk := k_chunk k |})
  | IfVect a b =>
      (negb (consistent (k_vect k) true) || tree_ok a {| k_pool := k_pool k; k_vect := Some true; k_chunk := k_chunk k |})
      && (negb (consistent (k_vect k) false) || tree_ok b {| k_pool := k_pool k; k_vect := Some false; k_chunk := k_chunk k |})
  | IfChunk a b =>
      (negb (consistent (k_chunk k) true) || tree_ok a {| k_pool := k_pool k; k_vect := k_vect k; k_chunk := Some true |})
      && (negb (consistent (k_chunk k) false) || tree_ok b {| k_pool := k_pool k; k_vect := k_vect k; k_chunk := Some false |})
  end.

(* ---- the evaluation counter --------------------------------------------- *)
(* Model.batch_evaluate_log_likelihood:  self.likelihood_evaluations += x.size  (once) *)
Inductive ceff := CAddSize | CAddOne | CAddChunks | CSkip.
Definition counter_step (nchunks len : nat) (c : nat) (e : ceff) : nat :=
  match e with CAddSize => c + len | CAddOne => c + 1 | CAddChunks => c + nchunks | CSkip => c end.
Definition counter_run (nchunks len : nat) (effs : list ceff) (c : nat) : nat :=
  fold_left (counter_step nchunks len) effs c.
Definition counter_ok (effs : list ceff) : bool :=
  (length (filter (fun e => match e with CAddSize => true | _ => false end) effs) =? 1)
  && forallb (fun e => match e with CAddSize | CSkip => true | _ => false end) effs.
Definition counter_today : list ceff := [CAddSize].

(* ---- Model.batch_evaluate_log_likelihood / _log_prior / _log_prior_unit_hypercube ---------- *)
(* Each method hands batch_evaluate_function a user function, the flag that says whether THAT
   function is vectorised, and the pool wrapper that calls it in the workers.  The regenerated
   call table gives the three as identifiers; the property needs them to agree. *)
Inductive fid := FLik | FPrior | FPriorUH.
Record mcall := { m_func : fid; m_flag : fid; m_wrapper : fid; m_unit_map : bool; m_counts : bool }.
Definition fid_eqb (a b : fid) : bool :=
  match a, b with FLik, FLik | FPrior, FPrior | FPriorUH, FPriorUH => true | _, _ => false end.
Definition mcall_ok (want : fid) (c : mcall) : bool :=
  fid_eqb (m_func c) want && fid_eqb (m_flag c) want && fid_eqb (m_wrapper c) want
  && Bool.eqb (m_counts c) (fid_eqb want FLik).       (* only likelihood evaluations are counted *)
Definition calls_ok (cs : list (fid * mcall)) : bool :=
  forallb (fun p => mcall_ok (fst p) (snd p)) cs
  && forallb (fun w => existsb (fun p => fid_eqb (fst p) w) cs) [FLik; FPrior; FPriorUH].
Definition calls_today : list (fid * mcall) :=
  [(FLik, {| m_func := FLik; m_flag := FLik; m_wrapper := FLik; m_unit_map := true; m_counts := true |});
   (FPrior, {| m_func := FPrior; m_flag := FPrior; m_wrapper := FPrior; m_unit_map := true; m_counts := false |});
   (FPriorUH, {| m_func := FPriorUH; m_flag := FPriorUH; m_wrapper := FPriorUH; m_unit_map := false; m_counts := false |})].

(* ---- executable instance used by the correspondence check ---------------- *)
(* The harness gives the function as a table: value of f on point ids 0..n-1. *)
Definition run_case (t : dtree) (i : binputs) (fvals : list nat) : list nat :=
  let ids := seq 0 (length fvals) in
  let f := fun x => nth x fvals 0 in
  eval_tree f (map f) (fun X Y g l => map g l) t i ids.
(* shapes of the pieces handed to the function (what the fake pool observed) *)
Definition pieces_case (s : splitter) (i : binputs) (n : nat) : list nat :=
  map (@length nat) (do_split s i (seq 0 n)).
