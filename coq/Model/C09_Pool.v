(* C09 - model of the population pipelines of nessai's proposals:
     FlowProposal.populate (plain and accumulate_weights), backward_pass' filters, compute_weights, draw;
     RejectionProposal.populate; AnalyticProposal.populate; Model._multiple_new_points;
     ImportanceNestedSampler.populate_live_points; ImportanceFlowProposal.draw;
     NestedSampler.yield_sample's likelihood guard; the call-site skeleton of tie A.
   Log-densities are IEEE values: NaN, -inf, +inf or a finite float given as an exact dyadic m * 2^e
   (harness: common.float_dyadic).  Comparisons are exact.  Float subtraction of two finite numbers is a
   parameter [sub_fin] of every definition (the theorems hold for EVERY such function - no rounding model is
   needed for them); the behaviour on non-finite operands is IEEE's and is written out.  The executable
   instance used by the correspondence check ([ieee_sub], round-to-nearest-even to 53 bits) is a library
   model validated against numpy on every run.
   Definitions only; proofs in Proofs/C09_Pool_proofs.v. *)
From Coq Require Import List ZArith Bool Arith.
Import ListNotations.

Inductive ext := NaN | NInf | PInf | Fin (m e : Z).          (* Fin m e = m * 2^e *)

Definition is_fin (x : ext) : bool := match x with Fin _ _ => true | _ => false end.

Local Open Scope Z_scope.
Definition dy_cmp (m1 e1 m2 e2 : Z) : comparison :=
  let e := Z.min e1 e2 in Z.compare (m1 * 2 ^ (e1 - e)) (m2 * 2 ^ (e2 - e)).

(* IEEE a > b and a >= b: false as soon as one side is NaN *)
Definition gt (a b : ext) : bool :=
  match a, b with
  | NaN, _ => false | _, NaN => false
  | PInf, PInf => false | PInf, _ => true
  | _, PInf => false
  | NInf, _ => false
  | Fin _ _, NInf => true
  | Fin m1 e1, Fin m2 e2 => match dy_cmp m1 e1 m2 e2 with Gt => true | _ => false end
  end.
Definition ge (a b : ext) : bool :=
  match a, b with
  | NaN, _ => false | _, NaN => false
  | PInf, _ => true
  | _, PInf => false
  | NInf, NInf => true
  | NInf, _ => false
  | Fin _ _, NInf => true
  | Fin m1 e1, Fin m2 e2 => match dy_cmp m1 e1 m2 e2 with Lt => false | _ => true end
  end.
Definition zero : ext := Fin 0 0.

Record cand := {                (* one candidate of a batch, as the oracles produced it *)
  cid : nat;                    (* identity of the point *)
  lq : ext;                     (* log-density reported by the flow (before the rescaling Jacobian) *)
  lj : ext;                     (* log-Jacobian of the inverse rescaling *)
  inb : bool;                   (* model.in_bounds of the physical point *)
  lp : ext                      (* log-prior the model returns at that point *)
}.

(* outcome of a population loop *)
Inductive outcome (A : Type) :=
| Done (a : A)        (* the loop ended *)
| Raised              (* the real code raises (see all_finite_lq) *)
| Starved.            (* the supplied stream of batches ran out first (fuel) *)
Arguments Done {A} a.
Arguments Raised {A}.
Arguments Starved {A}.

Section WithSub.
Variable sub_fin : Z -> Z -> Z -> Z -> ext.      (* float subtraction of finite numbers (oracle) *)

Definition fsub (a b : ext) : ext :=
  match a, b with
  | NaN, _ => NaN | _, NaN => NaN
  | PInf, PInf => NaN | NInf, NInf => NaN
  | PInf, _ => PInf | NInf, _ => NInf
  | Fin _ _, PInf => NInf | Fin _ _, NInf => PInf
  | Fin m1 e1, Fin m2 e2 => sub_fin m1 e1 m2 e2
  end.

(* ndarray.max(): NaN as soon as one entry is NaN.  None = empty array (the code guards against it). *)
Definition max2 (a b : ext) : ext :=
  match a, b with NaN, _ => NaN | _, NaN => NaN | _, _ => if gt b a then b else a end.
Definition np_max (l : list ext) : option ext :=
  match l with [] => None | x :: r => Some (fold_left max2 r x) end.
(* np.nanmax: NaNs are ignored; all-NaN gives NaN (with a warning) *)
Definition nanmax2 (a b : ext) : ext :=
  match a, b with NaN, _ => b | _, NaN => a | _, _ => if gt b a then b else a end.
Definition np_nanmax (l : list ext) : option ext :=
  match l with [] => None | x :: r => Some (fold_left nanmax2 r x) end.
(* Python's max(a, b) on floats: b if b > a else a *)
Definition py_max (a b : ext) : ext := if gt b a then b else a.

(* ---- FlowProposal.backward_pass + truncate_log_q: the candidates that reach compute_weights ------------- *)
(* discard_nans: isfinite(log_prob); log_prob -= log_J; check_prior_bounds; optionally log_q > min_log_q.
   A survivor is the candidate with its final log_q. *)
Definition survivors (minlq : option ext) (b : list cand) : list (cand * ext) :=
  let s1 := filter (fun c => is_fin (lq c)) b in
  let s2 := map (fun c => (c, fsub (lq c) (lj c))) s1 in
  let s3 := filter (fun p => inb (fst p)) s2 in
  match minlq with
  | None => s3
  | Some t => filter (fun p => gt (snd p) t) s3
  end.
(* compute_weights: log_w = log_p - log_q *)
Definition weights (sv : list (cand * ext)) : list ext := map (fun p => fsub (lp (fst p)) (snd p)) sv.

(* zip with the uniform draws: log_u = np.log(np.random.rand(len(log_w))), one per survivor, in order *)
Fixpoint accept_gt (m : ext) (sv : list (cand * ext)) (lw us : list ext) : list cand :=
  match sv, lw, us with
  | p :: sv', w :: lw', u :: us' =>
      if gt (fsub w m) u then fst p :: accept_gt m sv' lw' us' else accept_gt m sv' lw' us'
  | _, _, _ => []
  end.

Record batch := { cands : list cand; us : list ext; attempt : bool }.
   (* attempt: accumulate mode only - the oracle (logsumexp) said log_n_expected >= log_n *)

(* FlowProposal.backward_pass masks x, log_prob AND z with isfinite(log_prob) (since the fix: commit 51c1651), as
   AugmentedFlowProposal.backward_pass always did for x and log_prob: candidates with a non-finite flow log-density are
   dropped - this is strict = false, the code as it is now, and what the harness feeds to the model.
   strict = true is the code BEFORE that fix, kept as a refuted variant (Props: C09_backward_pass_z_unmasked_refuted):
   z was not masked, so indexing x, z, log_prob with the in-bounds flags raised IndexError as soon as some - but not all,
   see raises_index - log_prob of the batch were not finite. *)
Definition all_finite_lq (b : batch) : bool := forallb (fun c => is_fin (lq c)) (cands b).
Definition some_finite_lq (b : batch) : bool := existsb (fun c => is_fin (lq c)) (cands b).
(* numpy accepts a boolean index of length 0 whatever the array's length: no error when NO log_prob is finite *)
Definition raises_index (strict : bool) (b : batch) : bool :=
  strict && negb (all_finite_lq b) && some_finite_lq b.

(* one pass of the plain loop body; None = `continue` (no survivor) *)
Definition plain_batch (minlq : option ext) (b : batch) : option (list cand) :=
  let sv := survivors minlq (cands b) in
  match np_max (weights sv) with
  | None => None
  | Some m => Some (accept_gt m sv (weights sv) (us b))
  end.

(* while n_accepted < N: ... samples[n_accepted : n_accepted + m] = x[accept][:m]; n_accepted += n_accept_batch
   Result: (filled prefix of `samples`, n_accepted, batches not consumed) *)
Fixpoint plain_loop (strict : bool) (minlq : option ext) (N : nat) (filled : list cand) (nacc : nat) (bs : list batch)
  : outcome (list cand * nat * nat) :=
  if (N <=? nacc)%nat then Done (filled, nacc, length bs) else
  match bs with
  | [] => Starved
  | b :: r =>
      if raises_index strict b then Raised else
      match plain_batch minlq b with
      | None => plain_loop strict minlq N filled nacc r
      | Some acc => plain_loop strict minlq N (filled ++ firstn (N - nacc) acc) (nacc + length acc)%nat r
      end
  end.
(* self.x = samples[:N] *)
Definition flow_populate (strict : bool) (minlq : option ext) (N : nat) (bs : list batch) : outcome (list cand * nat) :=
  match plain_loop strict minlq N [] 0%nat bs with
  | Done (filled, _, unused) => Done (firstn N filled, unused)
  | Raised => Raised
  | Starved => Starved
  end.

(* ---- accumulate_weights ------------------------------------------------------------------------------ *)
Fixpoint mask_gt (c : ext) (lw us : list ext) : list bool :=
  match lw, us with
  | w :: lw', u :: us' => gt (fsub w c) u :: mask_gt c lw' us'
  | _, _ => []
  end.
Fixpoint select {A} (mask : list bool) (l : list A) : list A :=
  match mask, l with
  | true :: m', x :: l' => x :: select m' l'
  | false :: m', _ :: l' => select m' l'
  | _, _ => []
  end.
Definition count_true (m : list bool) : nat := length (filter (fun b => b) m).

Record astate := {
  a_samples : list cand; a_lw : list ext; a_const : ext; a_accept : option (list bool);
  a_nacc : nat; a_nprop : nat }.
Definition astate0 := {| a_samples := []; a_lw := []; a_const := NInf; a_accept := None; a_nacc := 0; a_nprop := 0 |}.

(* Result: (state, ended normally (n_accepted >= N, no break), batches not consumed) *)
Fixpoint acc_loop (strict : bool) (minlq : option ext) (N maxs : nat) (s : astate) (bs : list batch)
  : outcome (astate * bool * nat) :=
  if (N <=? a_nacc s)%nat then Done (s, true, length bs) else
  match bs with
  | [] => Starved
  | b :: r =>
      if raises_index strict b then Raised else
      let nprop := (a_nprop s + length (cands b))%nat in
      let sv := survivors minlq (cands b) in
      match np_nanmax (weights sv) with
      | None => acc_loop strict minlq N maxs {| a_samples := a_samples s; a_lw := a_lw s; a_const := a_const s;
                                                a_accept := a_accept s; a_nacc := a_nacc s; a_nprop := nprop |} r
      | Some m =>
          let samples := a_samples s ++ map fst sv in
          let lw := a_lw s ++ weights sv in
          let c := py_max m (a_const s) in
          if attempt b && negb (length (us b) =? length lw)%nat then Raised else     (* rand(len(log_weights)) *)
          let '(acc, nacc) := if attempt b
                              then let mk := mask_gt c lw (us b) in (Some mk, count_true mk)
                              else (a_accept s, a_nacc s) in
          let s' := {| a_samples := samples; a_lw := lw; a_const := c; a_accept := acc; a_nacc := nacc;
                       a_nprop := nprop |} in
          if (maxs <? nprop)%nat then Done (s', false, length r) else acc_loop strict minlq N maxs s' r
      end
  end.
(* after the loop: redraw the mask when there is none or it is stale; self.x = samples[accept][:N] *)
Definition needs_redraw (s : astate) : bool :=
  match a_accept s with
  | Some mk => negb (length mk =? length (a_samples s))%nat
  | None => true
  end.
Definition final_mask (s : astate) (final_us : list ext) : list bool :=
  match a_accept s with
  | Some mk => if (length mk =? length (a_samples s))%nat then mk else mask_gt (a_const s) (a_lw s) final_us
  | None => mask_gt (a_const s) (a_lw s) final_us
  end.
Definition acc_populate (strict : bool) (minlq : option ext) (N maxs : nat) (bs : list batch) (final_us : list ext)
  : outcome (list cand * bool * nat) :=
  match acc_loop strict minlq N maxs astate0 bs with
  | Done (s, normal, unused) =>
      if needs_redraw s && negb (length final_us =? length (a_lw s))%nat then Raised else
      Done (firstn N (select (final_mask s final_us) (a_samples s)), normal, unused)
  | Raised => Raised
  | Starved => Starved
  end.

(* what is handed to the likelihood: convert_to_samples keeps the list (it only fills logP), then
   self.samples["logL"] = self.model.batch_evaluate_log_likelihood(self.samples) *)
Definition lik_batch (pool : list cand) : list cand := pool.

(* ---- RejectionProposal.populate: one batch of N draws from Model.new_point ----------------------------
   log_w = log_p - log_q; log_w -= nanmax(log_w); accept (log_w - log_u) >= 0 *)
Fixpoint accept_ge (m : ext) (cs : list cand) (lw us : list ext) : list cand :=
  match cs, lw, us with
  | c :: cs', w :: lw', u :: us' =>
      if ge (fsub (fsub w m) u) zero then c :: accept_ge m cs' lw' us' else accept_ge m cs' lw' us'
  | _, _, _ => []
  end.
Definition rej_weights (cs : list cand) : list ext := map (fun c => fsub (lp c) (lq c)) cs.
Definition rej_populate (cs : list cand) (us : list ext) : option (list cand) :=
  match np_nanmax (rej_weights cs) with
  | None => None                       (* N = 0: np.nanmax of an empty array raises *)
  | Some m => Some (accept_ge m cs (rej_weights cs) us)
  end.

End WithSub.

(* ---- "draw batches, keep some, copy the first N - n" loops ---------------------------------------------
   Model._multiple_new_points / ImportanceNestedSampler.populate_live_points:
      while n < N: p = keep(batch); m = min(len p, N - n); out[n : n + m] = p[:m]; n += m          *)
Section Fill.
Context {A : Type}.
Variable keep : A -> bool.
Fixpoint fill_loop (N : nat) (out : list A) (bs : list (list A)) : option (list A * nat) :=
  if (N <=? length out)%nat then Some (out, length bs) else
  match bs with
  | [] => None
  | b :: r => fill_loop N (out ++ firstn (N - length out) (filter keep b)) r
  end.
(* ImportanceFlowProposal.draw:
      while n_accepted < n [and n_draw > 0]: ...; samples = concatenate([samples, kept]); n_accepted += kept.size
      samples = samples[:n]                                                                        *)
Fixpoint cat_loop (N : nat) (out : list A) (bs : list (list A)) : option (list A * nat) :=
  if (N <=? length out)%nat then Some (firstn N out, length bs) else
  match bs with
  | [] => None
  | b :: r => cat_loop N (out ++ filter keep b) r
  end.
End Fill.

(* ---- AugmentedFlowProposal._marginalise_augment: per-point reduction over n_marg augment draws ------------------------
   x = np.repeat(x, n_marg, axis=0)          every point n_marg times, consecutively
   terms = log_prob(x, fresh augment draws) - log N(draws)            one term per repeated row
   out = -log(n_marg) + logsumexp(terms.reshape(-1, n_marg), axis=1)  one value per consecutive block of n_marg terms *)
Section Marg.
Context {A B : Type}.
Fixpoint blocks_fuel (fuel n : nat) (l : list A) : list (list A) :=
  match fuel with
  | O => []
  | S f => match l with [] => [] | _ => firstn n l :: blocks_fuel f n (skipn n l) end
  end.
Definition blocks (n : nat) (l : list A) : list (list A) := blocks_fuel (length l) n l.     (* reshape(-1, n): its rows *)
(* g x = the n_marg terms of point x (one per augment draw), in draw order; reduce = logsumexp - log n_marg (oracle) *)
Definition marginalise (reduce : list A -> B) (n : nat) (terms : list A) : list B := map reduce (blocks n terms).
(* refuted variant: reshape(n, -1) reduced along axis 0 groups the terms j, j + m, j + 2m, ... (m = number of points) *)
Definition strided (d : A) (n : nat) (l : list A) : list (list A) :=
  let m := Nat.div (length l) n in
  map (fun j => map (fun r => nth (j + r * m) l d) (seq 0 n)) (seq 0 m).
End Marg.

(* ---- AugmentedFlowProposal.log_prior (marginalise_augment = False): the log-prior that enters the weights is the model's
   log-prior plus log N(e_k) summed over ALL augment parameters - the product prior on the augmented space.  Stated over an
   arbitrary carrier with addition; instantiated at Z for the theorems and at IEEE values in Run/C09_run.v. *)
Section AugPrior.
Context {T : Type}.
Variables (add : T -> T -> T) (zero : T).
Definition augmented_prior (es : list T) : T := fold_left add es zero.             (* log_p = 0; for n: log_p += logpdf(x[n]) *)
Definition full_prior (m : T) (es : list T) : T := add m (augmented_prior es).     (* super().log_prior(x) + augmented_prior(x) *)
(* refuted variant: `log_p = ...` instead of `log_p += ...` keeps only the last factor *)
Definition last_only_prior (m : T) (es : list T) : T := add m (last es zero).
End AugPrior.

Definition prior_finite (c : cand) : bool := is_fin (lp c).
(* np.isfinite(log_prior(p)) / np.isfinite(points["logP"]) *)
Definition new_points (N : nat) (bs : list (list cand)) := fill_loop prior_finite N [] bs.
(* ImportanceFlowProposal.draw: first mask (in the unit hypercube, finite rescaling) is the inb flag, the second mask
   is isfinite(logP) & the log_q sanity flags, recorded per candidate as is_fin (lq c) *)
Definition ins_keep (c : cand) : bool := inb c && is_fin (lp c) && is_fin (lq c).
Definition ins_draw (N : nat) (bs : list (list cand)) := cat_loop ins_keep N [] bs.
(* ImportanceFlowProposal.draw_from_flows (final-sample redraw: draw_final_samples evaluates the likelihood on what it
   returns): ONE batch drawn from the prior and all the flows, the same three masks, everything that passes is returned *)
Definition ins_from_flows (cs : list cand) : list cand := filter ins_keep cs.

(* ---- the pool is handed out by popping indices from the end ----------------------------------------------- *)
(* state of a populated proposal: the permutation still to be handed out *)
Definition draw_one (indices : list nat) : option (nat * list nat * bool) :=
  match rev indices with
  | [] => None                                       (* IndexError: pop from empty list *)
  | i :: rest => Some (i, rev rest, negb (match rest with [] => true | _ => false end))
  end.
(* k draws in a row: the indices handed out and the `populated` flag after each *)
Fixpoint draws (k : nat) (indices : list nat) : list (nat * bool) :=
  match k with
  | O => []
  | S k' => match draw_one indices with
            | None => []
            | Some (i, rest, pop) => (i, pop) :: draws k' rest
            end
  end.

(* NestedSampler.yield_sample: the likelihood of a drawn point is (re)computed only when
   newparam["logP"] != -inf and its logL field is falsy *)
Definition yield_evaluates (c : cand) (logl_falsy : bool) : list cand :=
  match lp c with NInf => [] | _ => if logl_falsy then [c] else [] end.

(* ---- tie A: likelihood call sites -------------------------------------------------------------------------
   Every call of batch_evaluate_log_likelihood / evaluate_log_likelihood with where its argument comes from
   (in the same function) and the masks applied on the way. *)
Inductive source :=
| SrcPool           (* self.samples of a proposal: filled by a populate modelled above *)
| SrcNewPoint       (* Model.new_point: finite prior by construction, inside the bounds (uniform in the bounds) *)
| SrcProposalDraw   (* proposal.draw(...) of the standard or importance proposal: in-support pool points *)
| SrcDrawFromFlows  (* ImportanceFlowProposal.draw_from_flows: masks inside the callee *)
| SrcUnitCube       (* model.sample_unit_hypercube: inside the bounds, prior not yet checked *)
| SrcBackward       (* FlowProposal.backward_pass output: inside the bounds, prior not yet checked *)
| SrcUnchecked.     (* anything else: raw flow samples, draw_from_prior, a tuple, ... *)
Inductive mask :=
| MFinitePrior      (* np.isfinite(x["logP"]) where logP was just computed from the model's prior *)
| MWeights          (* rejection mask computed from log_w = log_p - log_q against log(u) *)
| MInBounds         (* model.in_bounds / in_unit_hypercube *)
| MPriorNotNInf     (* scalar guard  newparam["logP"] != -inf  (the standard sampler's loop) *)
| MSlice.           (* [:m], [:N], permutation-free re-indexing: keeps a sub-list *)
Record site := { s_src : source; s_masks : list mask; s_flagged : bool }.
   (* s_flagged: the site is on a path that cannot complete (listed in the driver with the reason) *)

Definition src_inb (s : source) : bool :=
  match s with SrcUnchecked => false | _ => true end.
Definition src_prior (s : source) : bool :=
  match s with SrcPool | SrcNewPoint | SrcProposalDraw | SrcDrawFromFlows => true | _ => false end.
Definition mask_prior (m : mask) : bool := match m with MFinitePrior | MWeights => true | _ => false end.
Definition mask_inb (m : mask) : bool := match m with MInBounds => true | _ => false end.
Definition site_ok (s : site) : bool :=
  s_flagged s ||
  ((src_inb (s_src s) || existsb mask_inb (s_masks s)) && (src_prior (s_src s) || existsb mask_prior (s_masks s))).
Definition sites_ok (l : list site) : bool := forallb site_ok l.

(* what a site hands to the likelihood: the source batch pushed through its masks; a mask keeps a sub-list and, for the
   kinds that test something, only points that pass the test (the tests are the predicates below) *)
Definition in_support (c : cand) : bool := inb c && is_fin (lp c).
Definition mask_keeps (m : mask) (c : cand) : bool :=
  match m with
  | MFinitePrior => is_fin (lp c)
  | MWeights => is_fin (lp c)          (* justified by accept_gt_fin / accept_ge_fin in the proofs *)
  | MInBounds => inb c
  | MPriorNotNInf => match lp c with NInf => false | _ => true end
  | MSlice => true
  end.
Definition src_guarantee (s : source) (c : cand) : bool :=
  (negb (src_inb s) || inb c) && (negb (src_prior s) || is_fin (lp c)).
(* any sub-list selection compatible with the masks: sel says which points each mask actually let through *)
Fixpoint apply_masks (ms : list mask) (sel : mask -> cand -> bool) (l : list cand) : list cand :=
  match ms with
  | [] => l
  | m :: r => apply_masks r sel (filter (fun c => sel m c && mask_keeps m c) l)
  end.
