(* C15 - the stopping criteria as real-number functions of the samples, with interval twins.

   Importance sampler (ImportanceNestedSampler.compute_stopping_criterion, _INSIntegralState,
   OrderedSamples.compute_evidence_ratio, nessai.utils.stats.effective_sample_size):
     l_i      = logL_i + logW_i                       (extended: -inf allowed)
     logZ     = ln (sum_i exp l_i) - ln n
     ess      = (sum_i w_i)^2 / sum_i w_i^2           (Kish)              w_i = exp l_i
     log_dZ   = | logZ(this iteration) - logZ(previous iteration) |
     u        = sqrt( sum_i (w_i - Zhat)^2 / (n (n-1)) )     Zhat = (sum_i w_i) / n   (standard error of Zhat)
     fractional_error = u / Zhat        ( = the error of ln Z that the sampler reports )
     Z_err (AS CODED) = exp (u / Zhat)  -- not the evidence error: see C15_Zerr_never_below_one
     ratio    = logZ(samples with logL >= threshold) - logZ(all)
     ratio_ns = logZ(live points) - logZ(nested samples)
   Standard sampler (NestedSampler.consume_sample):
     condition = ln (exp logZ + exp (logLmax - it / nlive)) - logZ

   Definitions only. *)
From Coq Require Import Reals ZArith List Bool.
From Interval Require Import Specific_bigint Specific_ops Float_full Xreal Interval Basic.
From NessaiV Require Import Lib.Enclose.
Import ListNotations.
Local Open Scope R_scope.

Definition dyad := (Z * Z)%type.
Definition dyv (y : dyad) : R := dyR (fst y) (snd y).

(* ---- real definitions ------------------------------------------------------------------------ *)
Definition xadd (a b : xlog) : xlog := match a, b with Some x, Some y => Some (x + y) | _, _ => None end.
Definition lw_R (s : list (option dyad * option dyad)) : list xlog :=
  map (fun ab => xadd (dyoR (fst ab)) (dyoR (snd ab))) s.

Definition cnt (l : list xlog) : R := IZR (Z.of_nat (length l)).
Definition logZ_R (l : list xlog) : R := lse_R l - ln (cnt l).
Definition ess_R (l : list xlog) : R := (sumexp_R l * sumexp_R l) / sumexp_R (map (xscale 2) l).
Definition zhat_R (l : list xlog) : R := sumexp_R l / cnt l.
Definition sqdev_R (l : list xlog) : R :=
  sum_R (map (fun x => (xexp x - zhat_R l) * (xexp x - zhat_R l)) l).
Definition u_R (l : list xlog) : R := sqrt (sqdev_R l / (cnt l * (cnt l - 1))).
Definition frac_R (l : list xlog) : R := u_R l / zhat_R l.
Definition zerr_code_R (l : list xlog) : R := exp (frac_R l).
Definition dz_R (l lprev : list xlog) : R := Rabs (logZ_R l - logZ_R lprev).
Definition ratio_R (la l : list xlog) : R := logZ_R la - logZ_R l.
Definition stdcond_R (logZ logLmax : R) (it nlive : Z) : R :=
  ln (exp logZ + exp (logLmax - IZR it / IZR nlive)) - logZ.

(* what "equal" means for a float64 output y of the implementation *)
Definition crit_ok (x : R) (y : dyad) : Prop := Rabs (x - dyv y) <= dyR 1 (-30) * (1 + Rabs x).

(* ---- interval twins --------------------------------------------------------------------------- *)
Section Twins.
Variable p : prec.
Definition xadd_I (a b : option I.type) : option I.type :=
  match a, b with Some x, Some y => Some (I.add p x y) | _, _ => None end.
Definition lw_I (s : list (option dyad * option dyad)) : list (option I.type) :=
  map (fun ab => xadd_I (dyo p (fst ab)) (dyo p (snd ab))) s.

Definition cnt_I (l : list (option I.type)) : I.type := iZ p (Z.of_nat (length l)).
Definition logZ_I (l : list (option I.type)) : I.type := I.sub p (lse_I p l) (I.ln p (cnt_I l)).
Definition ess_I (l : list (option I.type)) : I.type :=
  I.div p (I.sqr p (sumexp_I p l)) (sumexp_I p (map (xscale_I p (iZ p 2)) l)).
Definition zhat_I (l : list (option I.type)) : I.type := I.div p (sumexp_I p l) (cnt_I l).
Definition sqdev_I (l : list (option I.type)) : I.type :=
  let z := zhat_I l in sum_I p (map (fun x => I.sqr p (I.sub p (xexp_I p x) z)) l).
Definition u_I (l : list (option I.type)) : I.type :=
  I.sqrt p (I.div p (sqdev_I l) (I.mul p (cnt_I l) (I.sub p (cnt_I l) (iZ p 1)))).
Definition frac_I (l : list (option I.type)) : I.type := I.div p (u_I l) (zhat_I l).
Definition zerr_code_I (l : list (option I.type)) : I.type := I.exp p (frac_I l).
Definition dz_I (l lprev : list (option I.type)) : I.type := I.abs (I.sub p (logZ_I l) (logZ_I lprev)).
Definition ratio_I (la l : list (option I.type)) : I.type := I.sub p (logZ_I la) (logZ_I l).
Definition stdcond_I (logZ logLmax : I.type) (it nlive : Z) : I.type :=
  I.sub p (I.ln p (I.add p (I.exp p logZ)
                        (I.exp p (I.sub p logLmax (I.div p (iZ p it) (iZ p nlive)))))) logZ.

Definition tol_I (enc : I.type) : I.type := I.mul p (dy p 1 (-30)) (I.add p (iZ p 1) (I.abs enc)).
Definition near (enc : I.type) (y : dyad) : bool := close_to p enc y (tol_I enc).

(* ---- the checks the harness evaluates with vm_compute ---------------------------------------- *)
Definition is_some {A} (o : option A) : bool := match o with Some _ => true | None => false end.
Definition finite_b (s : list (option dyad * option dyad)) : bool :=
  existsb (fun ab => is_some (fst ab) && is_some (snd ab)) s.
Definition two_b (s : list (option dyad * option dyad)) : bool := (2 <=? length s)%nat.

Definition check_logZ s y := finite_b s && near (logZ_I (lw_I s)) y.
Definition check_ess s y := finite_b s && near (ess_I (lw_I s)) y.
Definition check_frac s y := finite_b s && two_b s && near (frac_I (lw_I s)) y.
Definition check_zerr_code s y := finite_b s && two_b s && near (zerr_code_I (lw_I s)) y.
Definition check_u s y := finite_b s && two_b s && near (u_I (lw_I s)) y.
Definition check_dz s sprev y := finite_b s && finite_b sprev && near (dz_I (lw_I s) (lw_I sprev)) y.
Definition check_ratio sa s y := finite_b sa && finite_b s && near (ratio_I (lw_I sa) (lw_I s)) y.
Definition check_stdcond (logZ logLmax : dyad) (it nlive : Z) y :=
  (0 <? nlive)%Z && near (stdcond_I (dy p (fst logZ) (snd logZ)) (dy p (fst logLmax) (snd logLmax)) it nlive) y.
End Twins.

(* ---- one case of the correspondence: which criterion, on which samples, what the code returned --- *)
Definition samples := list (option dyad * option dyad).      (* (logL_i, logW_i), None = -inf *)
Inductive ccase :=
| CLogZ (s : samples) (y : dyad)
| CEss (s : samples) (y : dyad)
| CFrac (s : samples) (y : dyad)              (* fractional_error, and the reported log-evidence error *)
| CZerrCode (s : samples) (y : dyad)          (* Z_err as coded: exp (u / Zhat) *)
| CU (s : samples) (y : dyad)                 (* the evidence error u (what Z_err would be once D10 is repaired) *)
| CDz (s sprev : samples) (y : dyad)
| CRatio (sabove s : samples) (y : dyad)      (* ratio (above threshold / all) and ratio_ns (live / nested) *)
| CStd (logZ logLmax : dyad) (it nlive : Z) (y : dyad).

Definition run_ccase (p : prec) (c : ccase) : bool :=
  match c with
  | CLogZ s y => check_logZ p s y
  | CEss s y => check_ess p s y
  | CFrac s y => check_frac p s y
  | CZerrCode s y => check_zerr_code p s y
  | CU s y => check_u p s y
  | CDz s sp y => check_dz p s sp y
  | CRatio sa s y => check_ratio p sa s y
  | CStd z l it n y => check_stdcond p z l it n y
  end.
Definition ccase_ok (c : ccase) : Prop :=
  match c with
  | CLogZ s y => crit_ok (logZ_R (lw_R s)) y
  | CEss s y => crit_ok (ess_R (lw_R s)) y
  | CFrac s y => crit_ok (frac_R (lw_R s)) y
  | CZerrCode s y => crit_ok (zerr_code_R (lw_R s)) y
  | CU s y => crit_ok (u_R (lw_R s)) y
  | CDz s sp y => crit_ok (dz_R (lw_R s) (lw_R sp)) y
  | CRatio sa s y => crit_ok (ratio_R (lw_R sa) (lw_R s)) y
  | CStd z l it n y => crit_ok (stdcond_R (dyv z) (dyv l) it n) y
  end.
