(* C18 - model of nessai.livepoint (all converters), nessai.config.LivepointsConfig
   (the global registry of non-sampling fields, with its cached properties) and
   nessai.livepoint.unstructured_view / Model.unstructured_view (memory model).
   Definitions only (runnable with vm_compute); proofs are in Proofs/C18_Livepoint_proofs.v.

   Values: a float64 is carried by its 64-bit pattern (all NaNs mapped to one
   canonical pattern by the harness, -0.0 and +0.0 distinct), the int32 field `it`
   by its integer value.  Field names are Coq strings (byte strings). *)
From Coq Require Import String.
From Coq Require Import List ZArith Bool Arith Lia.
Import ListNotations.
Local Open Scope Z_scope.

Inductive kind := F8 | I4.
Definition kind_eqb (a b : kind) : bool :=
  match a, b with F8, F8 | I4, I4 => true | _, _ => false end.
Definition ksize (k : kind) : Z := match k with F8 => 8 | I4 => 4 end.

Inductive val := VF (bits : Z) | VI (n : Z).
Definition val_eqb (a b : val) : bool :=
  match a, b with VF x, VF y => Z.eqb x y | VI x, VI y => Z.eqb x y | _, _ => false end.
Definition nan_bits : Z := 9221120237041090560.      (* 0x7FF8000000000000 *)
Definition vnan : val := VF nan_bits.

Definition mem (s : string) (l : list string) : bool := existsb (String.eqb s) l.
Fixpoint nodupb (l : list string) : bool :=
  match l with [] => true | x :: r => negb (mem x r) && nodupb r end.
Fixpoint index_of (s : string) (l : list string) : option nat :=
  match l with
  | [] => None
  | x :: r => if String.eqb s x then Some O
              else match index_of s r with Some i => Some (S i) | None => None end
  end.

Inductive res (A : Type) := Ok (a : A) | Err.
Arguments Ok {A} a.
Arguments Err {A}.

Fixpoint map_opt {A B} (f : A -> option B) (l : list A) : option (list B) :=
  match l with
  | [] => Some []
  | x :: r => match f x, map_opt f r with Some y, Some ys => Some (y :: ys) | _, _ => None end
  end.

(* ====================================================================== *)
(* 1. The registry: config.livepoints                                      *)
(* ====================================================================== *)
(* Three parallel lists (extra_parameters, extra_parameters_defaults,
   extra_parameters_dtype) and three cached properties
   (_non_sampling_parameters, _non_sampling_defaults, _non_sampling_dtype). *)
Record reg := {
  xp : list string; xd : list val; xt : list kind;
  cP : option (list string); cD : option (list val); cT : option (list kind)
}.

Inductive cache_id := CP | CD | CT.
Inductive xlist := XP | XD | XT.
Inductive src := SCore | SExtra.
Definition cache_eqb (a b : cache_id) :=
  match a, b with CP, CP | CD, CD | CT, CT => true | _, _ => false end.
Definition xlist_eqb (a b : xlist) :=
  match a, b with XP, XP | XD, XD | XT, XT => true | _, _ => false end.
Definition src_eqb (a b : src) :=
  match a, b with SCore, SCore | SExtra, SExtra => true | _, _ => false end.
Definition cmem (c : cache_id) l := existsb (cache_eqb c) l.
Definition xmem (c : xlist) l := existsb (xlist_eqb c) l.

(* The skeleton of config.LivepointsConfig + add_extra_parameters_to_live_points
   that the translator regenerates from the source (tie A). *)
Record cfg_sk := {
  k_core_names : list string;        (* default of core_parameters                                *)
  k_core_kinds : list kind;          (* core_parameters_dtype with the dtype fields resolved      *)
  k_core_defs : list val;            (* core_parameters_defaults with the value fields resolved   *)
  k_fill : val;                      (* default_float_value                                       *)
  k_fkind : kind;                    (* default_float_dtype                                       *)
  k_ord_names : list src;            (* non_sampling_parameters = core_parameters + extra_parameters *)
  k_ord_defs : list src;             (* non_sampling_defaults   = core defaults + extra defaults      *)
  k_ord_kinds : list src;            (* non_sampling_dtype      = core dtype + extra dtype            *)
  k_reset_props : list cache_id;     (* caches set to None by reset_properties()                  *)
  k_reset_lists : list xlist;        (* lists emptied by reset()                                  *)
  k_reset_calls_rp : bool;           (* reset() ends with reset_properties()                      *)
  k_add_appends : list xlist;        (* lists extended under the `p not in extra_parameters` guard *)
  k_add_calls_rp : bool              (* add_extra_... ends with reset_properties()                *)
}.

Definition cfg_today : cfg_sk := {|
  k_core_names := ["logP"; "logL"; "it"]%string;
  k_core_kinds := [F8; F8; I4];
  k_core_defs := [vnan; vnan; VI 0];
  k_fill := vnan;
  k_fkind := F8;
  k_ord_names := [SCore; SExtra];
  k_ord_defs := [SCore; SExtra];
  k_ord_kinds := [SCore; SExtra];
  k_reset_props := [CP; CD; CT];
  k_reset_lists := [XP; XD; XT];
  k_reset_calls_rp := true;
  k_add_appends := [XP; XD; XT];
  k_add_calls_rp := true
|}.

Section Registry.
Variable sk : cfg_sk.

Definition reg0 : reg := {| xp := []; xd := []; xt := []; cP := None; cD := None; cT := None |}.

Definition compose {A} (ord : list src) (core extra : list A) : list A :=
  concat (map (fun s => match s with SCore => core | SExtra => extra end) ord).

(* reading the three properties (get_dtype / every converter does it): fills the caches *)
Definition vis_names (r : reg) : list string :=
  match cP r with Some l => l | None => compose (k_ord_names sk) (k_core_names sk) (xp r) end.
Definition vis_defs (r : reg) : list val :=
  match cD r with Some l => l | None => compose (k_ord_defs sk) (k_core_defs sk) (xd r) end.
Definition vis_kinds (r : reg) : list kind :=
  match cT r with Some l => l | None => compose (k_ord_kinds sk) (k_core_kinds sk) (xt r) end.
Definition read (r : reg) : reg :=
  {| xp := xp r; xd := xd r; xt := xt r;
     cP := Some (vis_names r); cD := Some (vis_defs r); cT := Some (vis_kinds r) |}.

Definition reset_properties (r : reg) : reg :=
  {| xp := xp r; xd := xd r; xt := xt r;
     cP := if cmem CP (k_reset_props sk) then None else cP r;
     cD := if cmem CD (k_reset_props sk) then None else cD r;
     cT := if cmem CT (k_reset_props sk) then None else cT r |}.

Definition do_reset (r : reg) : reg :=
  let r1 := {| xp := if xmem XP (k_reset_lists sk) then [] else xp r;
               xd := if xmem XD (k_reset_lists sk) then [] else xd r;
               xt := if xmem XT (k_reset_lists sk) then [] else xt r;
               cP := cP r; cD := cD r; cT := cT r |} in
  if k_reset_calls_rp sk then reset_properties r1 else r1.

(* one iteration of `for p, dv in zip(parameters, default_values)` *)
Definition add_one (r : reg) (pd : string * val) : reg :=
  let '(p, d) := pd in
  if mem p (xp r) then r
  else {| xp := if xmem XP (k_add_appends sk) then xp r ++ [p] else xp r;
          xd := if xmem XD (k_add_appends sk) then xd r ++ [d] else xd r;
          xt := if xmem XT (k_add_appends sk) then xt r ++ [k_fkind sk] else xt r;
          cP := cP r; cD := cD r; cT := cT r |}.

(* default_values=None -> len(parameters) * (default_float_value,) ; zip truncates *)
Definition zip_defaults (ps : list string) (dv : option (list val)) : list (string * val) :=
  match dv with
  | None => map (fun p => (p, k_fill sk)) ps
  | Some l => combine ps l
  end.

(* the two logger.debug f-strings after the loop read non_sampling_parameters and
   non_sampling_defaults (f-strings are evaluated eagerly, whatever the log level) *)
Definition read_nd (r : reg) : reg :=
  {| xp := xp r; xd := xd r; xt := xt r;
     cP := Some (vis_names r); cD := Some (vis_defs r); cT := cT r |}.

Definition do_add (ps : list string) (dv : option (list val)) (r : reg) : reg :=
  let r1 := read_nd (fold_left add_one (zip_defaults ps dv) r) in
  if k_add_calls_rp sk then reset_properties r1 else r1.

Inductive rop :=
| RAdd (ps : list string) (dv : option (list val))
| RReset
| RRead.                      (* any use of the registry by get_dtype / a converter *)

Definition step (r : reg) (o : rop) : reg :=
  match o with RAdd ps dv => do_add ps dv r | RReset => do_reset r | RRead => read r end.
Definition run (ops : list rop) (r : reg) : reg := fold_left step ops r.

(* ---- what the history *should* produce (paired list, no caches) --------- *)
Definition spec_add_one (e : list (string * val)) (pd : string * val) : list (string * val) :=
  if mem (fst pd) (map fst e) then e else e ++ [pd].
Definition spec_step (e : list (string * val)) (o : rop) : list (string * val) :=
  match o with
  | RAdd ps dv => fold_left spec_add_one (zip_defaults ps dv) e
  | RReset => []
  | RRead => e
  end.
Definition spec_run (ops : list rop) (e : list (string * val)) := fold_left spec_step ops e.

(* ---- the boolean checker over the skeleton (tie A) ---------------------- *)
Definition ord_ok (o : list src) : bool :=
  match o with [SCore; SExtra] => true | _ => false end.
Definition all3c (l : list cache_id) := cmem CP l && cmem CD l && cmem CT l.
Definition all3x (l : list xlist) := xmem XP l && xmem XD l && xmem XT l.
Definition strs_eqb (a b : list string) : bool :=
  (length a =? length b)%nat && forallb (fun p => String.eqb (fst p) (snd p)) (combine a b).
Definition kinds_eqb (a b : list kind) : bool :=
  (length a =? length b)%nat && forallb (fun p => kind_eqb (fst p) (snd p)) (combine a b).
Definition vals_eqb (a b : list val) : bool :=
  (length a =? length b)%nat && forallb (fun p => val_eqb (fst p) (snd p)) (combine a b).

Definition cfg_ok : bool :=
  strs_eqb (k_core_names sk) ["logP"; "logL"; "it"]%string
  && kinds_eqb (k_core_kinds sk) [F8; F8; I4]
  && vals_eqb (k_core_defs sk) [vnan; vnan; VI 0]
  && val_eqb (k_fill sk) vnan && kind_eqb (k_fkind sk) F8
  && ord_ok (k_ord_names sk) && ord_ok (k_ord_defs sk) && ord_ok (k_ord_kinds sk)
  && all3c (k_reset_props sk)
  && all3x (k_reset_lists sk) && k_reset_calls_rp sk
  && all3x (k_add_appends sk) && k_add_calls_rp sk.
End Registry.

(* ====================================================================== *)
(* 2. Structured arrays and the converters                                 *)
(* ====================================================================== *)
(* what a converter sees of the registry *)
Record nsview := { ns_names : list string; ns_kinds : list kind; ns_defs : list val; ns_fill : val }.
Definition view_of (sk : cfg_sk) (r : reg) : nsview :=
  {| ns_names := vis_names sk r; ns_kinds := vis_kinds sk r; ns_defs := vis_defs sk r; ns_fill := k_fill sk |}.

Record sarr := { s_names : list string; s_kinds : list kind; s_rows : list (list val) }.

Definition aligned (v : nsview) : bool :=
  (length (ns_names v) =? length (ns_kinds v))%nat && (length (ns_names v) =? length (ns_defs v))%nat.

Definition dt_names (names : list string) (nsp : bool) (v : nsview) : list string :=
  names ++ (if nsp then ns_names v else []).
Definition dt_kinds (names : list string) (nsp : bool) (v : nsview) : list kind :=
  repeat F8 (length names) ++ (if nsp then ns_kinds v else []).
Definition tail_defs (nsp : bool) (v : nsview) : list val := if nsp then ns_defs v else [].

(* get_dtype + np.dtype: a field name that occurs twice is a ValueError.  A registry whose
   parallel lists are not aligned makes zip() drop fields silently; the model refuses (Err)
   instead of guessing - C18_registry shows this never happens. *)
Definition mk_arr (names : list string) (nsp : bool) (v : nsview) (rows : list (list val)) : res sarr :=
  if aligned v && nodupb (dt_names names nsp v)
  then Ok {| s_names := dt_names names nsp v; s_kinds := dt_kinds names nsp v; s_rows := rows |}
  else Err.

Definition default_row (names : list string) (nsp : bool) (v : nsview) : list val :=
  repeat (ns_fill v) (length names) ++ tail_defs nsp v.

Definition empty_sa (n : nat) (names : list string) (nsp : bool) (v : nsview) : res sarr :=
  mk_arr names nsp v (repeat (default_row names nsp v) n).

(* empty_structured_array(n, dtype=...) with a caller-supplied dtype: the fields may come in ANY
   order.  The parameter fields are "those whose name is not a non-sampling parameter"; they are filled
   with the default float value, then every non-sampling field is assigned BY NAME from
   zip(non_sampling_parameters, non_sampling_defaults).  A non-sampling parameter that is missing from the
   dtype is a ValueError (n > 0 only: n = 0 returns before anything is assigned). *)
Fixpoint assoc_def (n : string) (names : list string) (defs : list val) : option val :=
  match names, defs with
  | k :: names', d :: defs' => if String.eqb n k then Some d else assoc_def n names' defs'
  | _, _ => None
  end.
Definition field_default (v : nsview) (n : string) : val :=
  match assoc_def n (ns_names v) (ns_defs v) with Some d => d | None => ns_fill v end.
Definition empty_sa_dtype (n : nat) (fields : list (string * kind)) (v : nsview) : res sarr :=
  if aligned v && nodupb (map fst fields)
     && ((n =? 0)%nat || forallb (fun nm => mem nm (map fst fields)) (ns_names v))
  then Ok {| s_names := map fst fields; s_kinds := map snd fields;
             s_rows := repeat (map (fun f => field_default v (fst f)) fields) n |}
  else Err.

(* numpy_array_to_live_points: a 1-d input is one row; size 0 gives the empty array;
   columns beyond len(names) are ignored, fewer is an IndexError *)
Definition np_to_lp (a : list (list val)) (names : list string) (nsp : bool) (v : nsview) : res sarr :=
  if (length (concat a) =? 0)%nat then empty_sa 0 names nsp v
  else if forallb (fun r => (length names <=? length r)%nat) a
       then mk_arr names nsp v (map (fun r => firstn (length names) r ++ tail_defs nsp v) a)
       else Err.

(* parameters_to_live_point *)
Definition params_to_lp (ps : list val) (names : list string) (nsp : bool) (v : nsview) : res sarr :=
  match ps with
  | [] => empty_sa 0 names nsp v
  | _ => if (length ps =? length names)%nat then mk_arr names nsp v [ps ++ tail_defs nsp v] else Err
  end.

(* dataframe_to_live_points: df = (column names, rows); every row has one entry per column *)
Definition df_to_lp (df : list string * list (list val)) (nsp : bool) (v : nsview) : res sarr :=
  let '(cols, rows) := df in
  if forallb (fun r => (length r =? length cols)%nat) rows
  then mk_arr cols nsp v (map (fun r => r ++ tail_defs nsp v) rows)
  else Err.

(* dict_to_live_points: values are scalars or sequences *)
Inductive dval := DScalar (x : val) | DSeq (l : list val).
Definition dlen (d : dval) : nat := match d with DScalar _ => 1%nat | DSeq l => length l end.
Definition scalar_of (d : dval) : option val := match d with DScalar x => Some x | DSeq _ => None end.
(* struct_array[k] = v : numpy broadcasting of a scalar / a length-1 sequence / an exact-length one *)
Definition bcast (N : nat) (d : dval) : option (list val) :=
  match d with
  | DScalar x => Some (repeat x N)
  | DSeq l => if (length l =? N)%nat then Some l
              else match l with [x] => Some (repeat x N) | _ => None end
  end.
Definition rows_of_cols (N : nat) (cols : list (list val)) : list (list val) :=
  map (fun i => map (fun c => nth i c vnan) cols) (seq 0 N).

(* `lenient` = false is today's code: the one-row tuple path is taken whenever N = 1.
   `lenient` = true is the repaired code (fixes/C18_dict_one_point.diff): the tuple path is taken
   only when the first value is a scalar; a first value that is a sequence - of any length - goes
   through empty_structured_array + field assignment. *)
Definition dict_to_lp (lenient : bool) (d : list (string * dval)) (nsp : bool) (v : nsview) : res sarr :=
  match d with
  | [] => Err                                     (* a[0] : IndexError *)
  | (_, a0) :: _ =>
      let N := dlen a0 in
      let tuple_path := if lenient then (match a0 with DScalar _ => true | DSeq _ => false end)
                        else (N =? 1)%nat in
      if tuple_path then
        (* np.array([values + defaults], dtype): with numpy >= 2 a sequence (even of length 1)
           inside the tuple is "setting an array element with a sequence" *)
        match map_opt scalar_of (map snd d) with
        | Some row => mk_arr (map fst d) nsp v [row ++ tail_defs nsp v]
        | None => Err
        end
      else
        match map_opt (bcast N) (map snd d) with
        | Some cols => mk_arr (map fst d) nsp v (map (fun r => r ++ tail_defs nsp v) (rows_of_cols N cols))
        | None => Err
        end
  end.

(* reading back *)
Definition col_at (i : nat) (rows : list (list val)) : list val := map (fun r => nth i r vnan) rows.
Definition lp_to_array (x : sarr) (names : list string) : res (list (list val)) :=
  match map_opt (fun n => index_of n (s_names x)) names with
  | Some idx => Ok (map (fun r => map (fun i => nth i r vnan) idx) (s_rows x))
  | None => Err                                   (* KeyError *)
  end.
Definition lp_to_dict (x : sarr) (names : list string) : res (list (string * list val)) :=
  match map_opt (fun n => index_of n (s_names x)) names with
  | Some idx => Ok (combine names (map (fun i => col_at i (s_rows x)) idx))
  | None => Err
  end.
(* live_points_to_array(x) with the default names=None: ALL fields in storage order; the int32 field is
   converted to float64 by structured_to_unstructured (exact for |n| < 2^53) *)
Definition i2f (z : Z) : option Z :=
  if z =? 0 then Some 0
  else let a := Z.abs z in
       if 2 ^ 53 <=? a then None
       else let n := Z.log2 a in
            let b := (n + 1023) * 2 ^ 52 + (a * 2 ^ (52 - n) - 2 ^ 52) in
            Some (if z <? 0 then b + 2 ^ 63 else b).
Definition to_f8 (x : val) : val :=
  match x with VF b => VF b | VI n => match i2f n with Some b => VF b | None => VI n end end.
Definition lp_to_array_all (x : sarr) : res (list (list val)) :=
  match lp_to_array x (s_names x) with Ok m => Ok (map (map to_f8) m) | Err => Err end.
(* pandas.DataFrame(live_points_to_dict(x, names)) : (columns, rows) *)
Definition lp_to_df (x : sarr) (names : list string) : res (list string * list (list val)) :=
  match lp_to_array x names with Ok a => Ok (names, a) | Err => Err end.

(* ====================================================================== *)
(* 3. Memory model of the unstructured view                                *)
(* ====================================================================== *)
(* numpy packs the fields of an (unaligned) structured dtype in order *)
Fixpoint offsets_from (o : Z) (ks : list kind) : list Z :=
  match ks with [] => [] | k :: r => o :: offsets_from (o + ksize k) r end.
Definition offsets (ks : list kind) : list Z := offsets_from 0 ks.
Fixpoint itemsize (ks : list kind) : Z := match ks with [] => 0 | k :: r => ksize k + itemsize r end.

Definition field_offset (x : sarr) (n : string) : option Z :=
  match index_of n (s_names x) with
  | Some i => nth_error (offsets (s_kinds x)) i
  | None => None
  end.
(* address of field at byte offset off of row r of an array whose rows are `stride` bytes apart *)
Definition elem_addr (base stride : Z) (r : nat) (off : Z) : Z := base + Z.of_nat r * stride + off.

(* _unstructured_view_dtype(x, names) = np.dtype({name: x.dtype.fields[name]}) : the offsets of the
   chosen fields, itemsize = end of the last one;  np.ndarray(x.shape, dtype, x, 0, x.strides)
   .view((f8, k)) needs itemsize = 8 k ("total itemsize unchanged"), and element (r, c) of the
   result is the 8 bytes at   base + r * x.strides[0] + 8 c. *)
Definition view_dtype (x : sarr) (names : list string) : option (list Z) :=
  map_opt (field_offset x) names.
Definition view_itemsize (offs : list Z) : Z := fold_right (fun o m => Z.max (o + 8) m) 0 offs.
Definition view_ok (offs : list Z) : bool := view_itemsize offs =? 8 * Z.of_nat (length offs).
Definition view_addr (base stride : Z) (r c : nat) : Z := base + Z.of_nat r * stride + 8 * Z.of_nat c.

(* the float64 stored at byte offset off of a row (None: no f8 field starts there) *)
Fixpoint read_at (offs : list Z) (ks : list kind) (row : list val) (off : Z) : option val :=
  match offs, ks, row with
  | o :: offs', k :: ks', x :: row' =>
      if (o =? off) then (match k with F8 => Some x | I4 => None end) else read_at offs' ks' row' off
  | _, _, _ => None
  end.
Definition view_values (x : sarr) (offs : list Z) : res (list (list val)) :=
  if view_ok offs then
    match map_opt (fun r => map_opt (fun c => read_at (offsets (s_kinds x)) (s_kinds x) r (8 * Z.of_nat c))
                                    (seq 0 (length offs))) (s_rows x) with
    | Some m => Ok m
    | None => Err
    end
  else Err.                                       (* ValueError from .view *)
Definition unstructured_view (x : sarr) (names : list string) : res (list (list val)) :=
  match view_dtype x names with Some offs => view_values x offs | None => Err end.

(* ====================================================================== *)
(* 4. Specification vocabulary used by the theorems                         *)
(* ====================================================================== *)
Definition core_names := ["logP"; "logL"; "it"]%string.
Definition core_kinds := [F8; F8; I4].
Definition core_defs := [vnan; vnan; VI 0].

(* what every history must leave visible to get_dtype and the converters *)
Definition registry_spec (sk : cfg_sk) (ops : list rop) : Prop :=
  let r := run sk ops reg0 in
  let e := spec_run sk ops [] in
  vis_names sk r = core_names ++ map fst e
  /\ vis_defs sk r = core_defs ++ map snd e
  /\ vis_kinds sk r = core_kinds ++ repeat F8 (length e)
  /\ NoDup (map fst e)
  /\ aligned (view_of sk r) = true.

(* the same for ANY configured core fields / dtypes / default values: only the structure of the class
   (order of concatenation, caches cleared, lists emptied / appended) is required *)
Definition cfg_struct_ok (sk : cfg_sk) : bool :=
  ord_ok (k_ord_names sk) && ord_ok (k_ord_defs sk) && ord_ok (k_ord_kinds sk)
  && all3c (k_reset_props sk)
  && all3x (k_reset_lists sk) && k_reset_calls_rp sk
  && all3x (k_add_appends sk) && k_add_calls_rp sk.
Definition registry_spec_gen (sk : cfg_sk) (ops : list rop) : Prop :=
  let r := run sk ops reg0 in
  let e := spec_run sk ops [] in
  vis_names sk r = k_core_names sk ++ map fst e
  /\ vis_defs sk r = k_core_defs sk ++ map snd e
  /\ vis_kinds sk r = k_core_kinds sk ++ repeat (k_fkind sk) (length e)
  /\ NoDup (map fst e).

(* x is the live-point array over `names` that holds the data rows `a` and defaults elsewhere *)
Definition lp_of (names : list string) (nsp : bool) (v : nsview) (a : list (list val)) (x : sarr) : Prop :=
  s_names x = dt_names names nsp v /\ s_kinds x = dt_kinds names nsp v
  /\ s_rows x = map (fun r => r ++ tail_defs nsp v) a.

Definition wf_rows (names : list string) (a : list (list val)) : Prop :=
  Forall (fun r => length r = length names) a.

Definition columns (k : nat) (a : list (list val)) : list (list val) := map (fun c => col_at c a) (seq 0 k).

(* an array whose parameter fields come first and are all f8 *)
Record params_first (names : list string) (x : sarr) : Prop := {
  pf_names : exists rest, s_names x = names ++ rest /\ NoDup (names ++ rest);
  pf_kinds : exists restk, s_kinds x = repeat F8 (length names) ++ restk
}.
