(* C19 - model of nessai.utils.io (NessaiJSONEncoder.default, save_to_json, encode_for_hdf5,
   add_dict_to_hdf5_file, save_dict_to_hdf5) and of the extension handling / posterior
   conversion of FlowSampler.save_results.  Definitions only; proofs in Proofs/C19_Results_proofs.v.

   Values are trees of Python objects.  A float is carried by its float64 bit pattern (all NaNs
   identified by the harness), an int by its value, a bool by 0/1.
   The json and h5py libraries are oracles (DESIGN 2.4): json.load(json.dump(x)) returns x for
   JSON-native x (NaN / Infinity tokens allowed, tuples come back as lists); an h5py dataset
   reads back the numpy array it was created from.  The model therefore produces directly the
   value that is *read back*. *)
From Coq Require Import Ascii String.
From Coq Require Import List ZArith Bool Arith Lia.
Import ListNotations.
Local Open Scope Z_scope.

Inductive res (A : Type) := Ok (a : A) | Err.
Arguments Ok {A} a.
Arguments Err {A}.

Section MapRes.
Context {A B : Type}.
Variable f : A -> res B.
Fixpoint map_res (l : list A) : res (list B) :=
  match l with
  | [] => Ok []
  | x :: r => match f x, map_res r with Ok y, Ok ys => Ok (y :: ys) | _, _ => Err end
  end.
End MapRes.
Section MapOpt.
Context {A B : Type}.
Variable f : A -> option B.
Fixpoint map_opt (l : list A) : option (list B) :=
  match l with
  | [] => Some []
  | x :: r => match f x, map_opt r with Some y, Some ys => Some (y :: ys) | _, _ => None end
  end.
End MapOpt.

Inductive akind := KBool | KInt | KFloat.
Definition akind_eqb (a b : akind) : bool :=
  match a, b with KBool, KBool | KInt, KInt | KFloat, KFloat => true | _, _ => false end.
Definition krank (k : akind) : nat := match k with KBool => 0 | KInt => 1 | KFloat => 2 end.
Definition kmax (a b : akind) : akind := if (krank a <=? krank b)%nat then b else a.

Inductive tree :=
| TNone
| TBool (b : bool)
| TInt (z : Z)                               (* Python int *)
| TFloat (bits : Z)                          (* Python float (also np.float64, a float subclass) *)
| TStr (s : string)
| TNp (k : akind) (z : Z)                    (* numpy scalar that is NOT a Python float/int subclass:
                                                np.bool_, np.integer, np.float32 / np.longdouble *)
| TArr (shape : list nat) (k : akind) (data : list Z)             (* numeric ndarray, C order *)
| TStruct (fields : list (string * akind)) (rows : list (list Z)) (* 1-d structured array *)
| TList (l : list tree)
| TTuple (l : list tree)
| TDict (d : list (string * tree))           (* str keys *)
| TOpaque (repr : string).                   (* anything else, identified by str(obj) *)

(* ====================================================================== *)
(* 1. JSON                                                                 *)
(* ====================================================================== *)
Inductive jval :=
| JNull | JBool (b : bool) | JInt (z : Z) | JFloat (bits : Z) | JStr (s : string)
| JList (l : list jval) | JDict (d : list (string * jval)).

Definition jnum (k : akind) (z : Z) : jval :=
  match k with KBool => JBool (negb (z =? 0)) | KInt => JInt z | KFloat => JFloat z end.

(* ndarray.tolist(): nested lists following the shape *)
Definition prod (l : list nat) : nat := fold_right Nat.mul 1%nat l.
Fixpoint nest (shape : list nat) (k : akind) (data : list Z) : jval :=
  match shape with
  | [] => jnum k (hd 0 data)
  | n :: rest =>
      let sz := prod rest in
      JList (map (fun i => nest rest k (firstn sz (skipn (i * sz) data))) (seq 0 n))
  end.
Definition struct_rows (fields : list (string * akind)) (rows : list (list Z)) : jval :=
  JList (map (fun row => JList (map (fun p => jnum (snd (fst p)) (snd p)) (combine fields row))) rows).

(* ---- the isinstance ladder of NessaiJSONEncoder.default (tie A skeleton) -------------- *)
Inductive jtest := QNpInteger | QNpFloating | QNdarray | QNotJsonable | QElse.
Inductive jaction := AInt | AFloat | ATolist | AStr | ARaise | ANull.
Definition ladder := list (jtest * jaction).
Definition ladder_today : ladder :=
  [(QNpInteger, AInt); (QNpFloating, AFloat); (QNdarray, ATolist); (QNotJsonable, AStr); (QElse, ARaise)].

(* the classes of objects that reach default(): everything json cannot serialise natively *)
Inductive lclass := LNpInt | LNpFloat | LNpBool | LArr | LStruct | LOpaque.
Definition test_holds (q : jtest) (c : lclass) : bool :=
  match q, c with
  | QNpInteger, LNpInt => true
  | QNpFloating, LNpFloat => true
  | QNdarray, (LArr | LStruct) => true
  | QNotJsonable, _ => true          (* whatever reaches default() is not jsonable *)
  | QElse, _ => true
  | _, _ => false
  end.
Fixpoint run_ladder (l : ladder) (c : lclass) : jaction :=
  match l with
  | [] => ANull                       (* falling off the end of default() returns None *)
  | (q, a) :: r => if test_holds q c then a else run_ladder r c
  end.

Definition bool_str (z : Z) : string := if z =? 0 then "False"%string else "True"%string.
Definition unknown_str : string := "<str(obj) not modelled>"%string.

(* what default() returns for a leaf of class c, already passed through json again *)
Definition apply_action (a : jaction) (t : tree) : res jval :=
  match a, t with
  | ARaise, _ => Err
  | ANull, _ => Ok JNull
  | AStr, TOpaque r => Ok (JStr r)
  | AStr, TNp KBool z => Ok (JStr (bool_str z))
  | AStr, _ => Ok (JStr unknown_str)
  | AInt, TNp KInt z => Ok (JInt z)
  | AInt, TNp KBool z => Ok (JInt z)
  | AFloat, TNp KFloat z => Ok (JFloat z)
  | ATolist, TArr shape k data => Ok (nest shape k data)
  | ATolist, TStruct f rows => Ok (struct_rows f rows)
  | _, _ => Err                      (* int(ndarray), float(object), obj.tolist() on a non-array ... *)
  end.

Definition class_of (t : tree) : option lclass :=
  match t with
  | TNp KInt _ => Some LNpInt
  | TNp KFloat _ => Some LNpFloat
  | TNp KBool _ => Some LNpBool
  | TArr _ _ _ => Some LArr
  | TStruct _ _ => Some LStruct
  | TOpaque _ => Some LOpaque
  | _ => None
  end.

(* save_to_json followed by json.load *)
Fixpoint enc_json (l : ladder) (t : tree) : res jval :=
  match t with
  | TNone => Ok JNull
  | TBool b => Ok (JBool b)
  | TInt z => Ok (JInt z)
  | TFloat b => Ok (JFloat b)
  | TStr s => Ok (JStr s)
  | TList xs | TTuple xs =>
      match map_res (enc_json l) xs with Ok js => Ok (JList js) | Err => Err end
  | TDict d =>
      match map_res (fun kv => match enc_json l (snd kv) with Ok j => Ok (fst kv, j) | Err => Err end) d with
      | Ok js => Ok (JDict js)
      | Err => Err
      end
  | TNp k z => apply_action (run_ladder l (match k with KInt => LNpInt | KFloat => LNpFloat | KBool => LNpBool end)) t
  | TArr _ _ _ => apply_action (run_ladder l LArr) t
  | TStruct _ _ => apply_action (run_ladder l LStruct) t
  | TOpaque _ => apply_action (run_ladder l LOpaque) t
  end.

(* the specification: the same value up to the representation changes JSON imposes
   (array -> nested lists, tuple -> list, numpy scalar -> Python scalar, structured array ->
   rows in field order, opaque object -> its str()) *)
Fixpoint jview (t : tree) : jval :=
  match t with
  | TNone => JNull
  | TBool b => JBool b
  | TInt z => JInt z
  | TFloat b => JFloat b
  | TStr s => JStr s
  | TNp k z => jnum k z
  | TArr shape k data => nest shape k data
  | TStruct f rows => struct_rows f rows
  | TList xs | TTuple xs => JList (map jview xs)
  | TDict d => JDict (map (fun kv => (fst kv, jview (snd kv))) d)
  | TOpaque r => JStr r
  end.

(* np.bool_ scalars are the one numpy scalar the encoder does not keep (they become "True"/"False") *)
Fixpoint no_npbool (t : tree) : bool :=
  match t with
  | TNp KBool _ => false
  | TList xs | TTuple xs => forallb no_npbool xs
  | TDict d => forallb (fun kv => no_npbool (snd kv)) d
  | _ => true
  end.

(* checker over a regenerated ladder *)
Definition action_eqb (a b : jaction) : bool :=
  match a, b with
  | AInt, AInt | AFloat, AFloat | ATolist, ATolist | AStr, AStr | ARaise, ARaise | ANull, ANull => true
  | _, _ => false
  end.
Definition ladder_ok (l : ladder) : bool :=
  action_eqb (run_ladder l LNpInt) AInt
  && action_eqb (run_ladder l LNpFloat) AFloat
  && action_eqb (run_ladder l LArr) ATolist
  && action_eqb (run_ladder l LStruct) ATolist
  && action_eqb (run_ladder l LOpaque) AStr
  && action_eqb (run_ladder l LNpBool) AStr.
(* weaker: nothing raises (config.json can always be written and parsed) *)
Definition total_action (a : jaction) (c : lclass) : bool :=
  match a, c with
  | (AStr | ANull), _ => true
  | AInt, (LNpInt | LNpBool) => true
  | AFloat, LNpFloat => true
  | ATolist, (LArr | LStruct) => true
  | _, _ => false
  end.
Definition ladder_total (l : ladder) : bool :=
  forallb (fun c => total_action (run_ladder l c) c) [LNpInt; LNpFloat; LNpBool; LArr; LStruct; LOpaque].

(* ====================================================================== *)
(* 2. HDF5                                                                 *)
(* ====================================================================== *)
Inductive hval :=
| HStr (s : string)                                   (* variable-length string dataset *)
| HNum (k : akind) (z : Z)                            (* scalar dataset *)
| HArr (shape : list nat) (k : akind) (data : list Z)
| HStruct (fields : list (string * akind)) (rows : list (list Z))
| HStrs (l : list string).                            (* 1-d array of strings *)
Definition hfile := list (list string * hval).        (* dataset path -> content *)

Record h5_sk := {
  h_none : option string;      (* what encode_for_hdf5 substitutes for None (a string constant) *)
  h_recurse : bool             (* add_dict_to_hdf5_file recurses into dict values with path + key + "/" *)
}.
Definition h5_today : h5_sk := {| h_none := Some "__none__"%string; h_recurse := true |}.

(* exact float64 of an integer with |z| < 2^53 *)
Definition z2f (z : Z) : option Z :=
  if z =? 0 then Some 0
  else let a := Z.abs z in
       if 2 ^ 53 <=? a then None
       else let n := Z.log2 a in
            let b := (n + 1023) * 2 ^ 52 + (a * 2 ^ (52 - n) - 2 ^ 52) in
            Some (if z <? 0 then b + 2 ^ 63 else b).
Definition fits_int64 (z : Z) : bool := (- 2 ^ 63 <=? z) && (z <? 2 ^ 63).

(* np.asarray(nested list): shape and leaves, None when ragged or not numeric *)
Definition shape_eqb (a b : list nat) : bool :=
  (length a =? length b)%nat && forallb (fun p => (fst p =? snd p)%nat) (combine a b).
Fixpoint flat (t : tree) : option (list nat * list (akind * Z)) :=
  match t with
  | TBool b => Some ([], [(KBool, if b then 1 else 0)])
  | TInt z => if fits_int64 z then Some ([], [(KInt, z)]) else None
  | TFloat b => Some ([], [(KFloat, b)])
  | TNp k z => Some ([], [(k, z)])
  | TArr shape k data =>
      if (length data =? prod shape)%nat then Some (shape, map (fun z => (k, z)) data) else None
  | TList xs | TTuple xs =>
      match map_opt flat xs with
      | None => None
      | Some [] => Some ([0%nat], [])
      | Some ((s0, l0) :: rest) =>
          if forallb (fun p => shape_eqb (fst p) s0) rest
          then Some (length xs :: s0, l0 ++ concat (map snd rest))
          else None
      end
  | _ => None
  end.
(* dtype promotion *)
Definition convert (k : akind) (x : akind * Z) : option Z :=
  match k, fst x with
  | KBool, KBool => Some (snd x)
  | KInt, (KBool | KInt) => Some (snd x)
  | KFloat, KFloat => Some (snd x)
  | KFloat, (KBool | KInt) => z2f (snd x)
  | _, _ => None
  end.
Definition promote (leaves : list (akind * Z)) : option (akind * list Z) :=
  match leaves with
  | [] => Some (KFloat, [])                    (* np.asarray([]) is float64 *)
  | _ => let k := fold_right (fun x m => kmax (fst x) m) KBool leaves in
         match map_opt (convert k) leaves with Some d => Some (k, d) | None => None end
  end.
Definition str_of (t : tree) : option string := match t with TStr s => Some s | _ => None end.

(* hdf5_file[path + key] = encode_for_hdf5(value) for a non-dict value *)
Definition enc_leaf (sk : h5_sk) (t : tree) : res hval :=
  match t with
  | TNone => match h_none sk with Some s => Ok (HStr s) | None => Err end
  | TStr s => Ok (HStr s)
  | TBool b => Ok (HNum KBool (if b then 1 else 0))
  | TInt z => if fits_int64 z then Ok (HNum KInt z) else Err
  | TFloat b => Ok (HNum KFloat b)
  | TNp k z => Ok (HNum k z)
  | TArr [] k [x] => Ok (HNum k x)
  | TArr shape k data => if (length data =? prod shape)%nat then Ok (HArr shape k data) else Err
  | TStruct f rows => Ok (HStruct f rows)
  | TList xs | TTuple xs =>
      match flat t with
      | Some (shape, leaves) =>
          match promote leaves with Some (k, d) => Ok (HArr shape k d) | None => Err end
      | None =>
          match xs, map_opt str_of xs with
          | _ :: _, Some ss => Ok (HStrs ss)
          | _, _ => Err
          end
      end
  | TDict _ => Err
  | TOpaque _ => Err
  end.

(* add_dict_to_hdf5_file(hdf5_file, path, d) *)
Fixpoint add_tree (sk : h5_sk) (path : list string) (t : tree) : res hfile :=
  match t with
  | TDict d =>
      if h_recurse sk then
        match map_res (fun kv => add_tree sk (path ++ [fst kv]) (snd kv)) d with
        | Ok fs => Ok (concat fs)
        | Err => Err
        end
      else Err
  | _ => match enc_leaf sk t with Ok h => Ok [(path, h)] | Err => Err end
  end.
(* save_dict_to_hdf5(d, filename): the top level must be a dict *)
Definition enc_h5 (sk : h5_sk) (d : list (string * tree)) : res hfile :=
  match map_res (fun kv => add_tree sk [fst kv] (snd kv)) d with
  | Ok fs => Ok (concat fs)
  | Err => Err
  end.

(* ---- specification side ------------------------------------------------------------------ *)
(* the leaves of a nested dictionary with their key paths *)
Fixpoint leaves (path : list string) (t : tree) : list (list string * tree) :=
  match t with
  | TDict d => concat (map (fun kv => leaves (path ++ [fst kv]) (snd kv)) d)
  | _ => [(path, t)]
  end.
Definition top_leaves (d : list (string * tree)) : list (list string * tree) :=
  concat (map (fun kv => leaves [fst kv] (snd kv)) d).

(* numeric equality up to the dtype promotion numpy applies to a list *)
Definition num_equiv (a b : akind * Z) : bool :=
  match fst a, fst b with
  | KBool, KBool | KInt, KInt | KFloat, KFloat => snd a =? snd b
  | KBool, KInt => snd a =? snd b
  | (KBool | KInt), KFloat => match z2f (snd a) with Some f => f =? snd b | None => false end
  | _, _ => false
  end.
Fixpoint all2 {A B} (p : A -> B -> bool) (a : list A) (b : list B) : bool :=
  match a, b with
  | [], [] => true
  | x :: a', y :: b' => p x y && all2 p a' b'
  | _, _ => false
  end.
Definition none_marker : string := "__none__"%string.
Definition fields_eqb (a b : list (string * akind)) : bool :=
  all2 (fun p q => String.eqb (fst p) (fst q) && akind_eqb (snd p) (snd q)) a b.
Definition zs_eqb (a b : list Z) : bool := all2 Z.eqb a b.

(* the stored dataset h holds the value t, up to the representation changes HDF5 imposes
   (None -> "__none__", list/tuple -> array with numpy's promotion, 0-d array -> scalar) *)
Definition hequiv (t : tree) (h : hval) : bool :=
  match t, h with
  | TNone, HStr s => String.eqb s none_marker
  | TStr s, HStr s' => String.eqb s s' && negb (String.eqb s none_marker)
  | TBool b, HNum KBool z => z =? (if b then 1 else 0)
  | TInt z, HNum KInt z' => z =? z'
  | TFloat b, HNum KFloat b' => b =? b'
  | TNp k z, HNum k' z' => akind_eqb k k' && (z =? z')
  | TArr [] k [x], HNum k' x' => akind_eqb k k' && (x =? x')
  | TArr shape k data, HArr shape' k' data' =>
      shape_eqb shape shape' && akind_eqb k k' && zs_eqb data data'
  | TStruct f rows, HStruct f' rows' => fields_eqb f f' && all2 zs_eqb rows rows'
  | (TList xs | TTuple xs), HArr shape k data =>
      match flat t with
      | Some (shape', lv) => shape_eqb shape' shape && all2 num_equiv lv (map (fun z => (k, z)) data)
      | None => false
      end
  | (TList xs | TTuple xs), HStrs ss =>
      match map_opt str_of xs with Some ss' => all2 String.eqb ss' ss | None => false end
  | _, _ => false
  end.

(* keys usable as HDF5 link names: non-empty, no "/" *)
Fixpoint has_slash (s : string) : bool :=
  match s with
  | EmptyString => false
  | String c r => (Ascii.eqb c "/"%char) || has_slash r
  end.
Definition key_ok (s : string) : bool := negb (String.eqb s EmptyString) && negb (has_slash s).
Definition smem (s : string) (l : list string) : bool := existsb (String.eqb s) l.
Fixpoint snodup (l : list string) : bool :=
  match l with [] => true | x :: r => negb (smem x r) && snodup r end.
(* every dictionary (at any depth): keys are valid link names, distinct, and it is not empty
   (an empty dict leaves no trace in the file) *)
Fixpoint dict_ok (t : tree) : bool :=
  match t with
  | TDict d => negb (match d with [] => true | _ => false end)
               && forallb key_ok (map fst d) && snodup (map fst d)
               && forallb (fun kv => dict_ok (snd kv)) d
  | _ => true
  end.
Definition top_ok (d : list (string * tree)) : bool :=
  forallb key_ok (map fst d) && snodup (map fst d) && forallb (fun kv => dict_ok (snd kv)) d.

(* the name of a dataset inside the file: path + key + "/" + key ... *)
Fixpoint join (p : list string) : string :=
  match p with
  | [] => EmptyString
  | [a] => a
  | a :: r => (a ++ "/" ++ join r)%string
  end.

(* a str leaf equal to the None marker cannot be told from None after reading back *)
Fixpoint no_marker (t : tree) : bool :=
  match t with
  | TStr s => negb (String.eqb s none_marker)
  | TDict d => forallb (fun kv => no_marker (snd kv)) d
  | _ => true
  end.
Definition h5_ok (sk : h5_sk) : bool :=
  match h_none sk with Some s => String.eqb s none_marker | None => false end && h_recurse sk.

(* the shapes that occur in result dictionaries: these can always be written *)
Definition scalar_leaf (t : tree) : bool :=
  match t with
  | TNone | TBool _ | TFloat _ | TStr _ | TNp _ _ => true
  | TInt z => fits_int64 z
  | _ => false
  end.
Definition num_leaf_kind (t : tree) : option akind :=
  match t with
  | TBool _ => Some KBool
  | TInt z => if fits_int64 z then Some KInt else None
  | TFloat _ => Some KFloat
  | TNp k _ => Some k
  | _ => None
  end.
Definition same_kind_list (xs : list tree) : bool :=
  match xs with
  | [] => true
  | x :: _ => match num_leaf_kind x with
              | Some k => forallb (fun y => match num_leaf_kind y with Some k' => akind_eqb k k' | None => false end) xs
              | None => false
              end
  end.
Fixpoint result_shaped (t : tree) : bool :=
  match t with
  | TArr shape _ data => (length data =? prod shape)%nat
  | TStruct _ _ => true
  | TList xs | TTuple xs => same_kind_list xs        (* history lists: scalars of one numeric kind *)
  | TDict d => forallb (fun kv => result_shaped (snd kv)) d
  | TOpaque _ => false
  | _ => scalar_leaf t
  end.

(* ====================================================================== *)
(* 3. FlowSampler.save_results: extension handling and the JSON posterior  *)
(* ====================================================================== *)
Inductive writer := WJson | WHdf5.
(* ext = extension found in the file name ("" when there is none), arg = the extension argument *)
Definition choose_writer (stem ext : string) (arg : option string) : res (writer * string) :=
  let with_ext := if String.eqb ext EmptyString then stem else (stem ++ "." ++ ext)%string in
  match (match arg with
         | None => if String.eqb ext EmptyString then None else Some (ext, with_ext)
         | Some e => if String.eqb ext EmptyString then Some (e, (stem ++ "." ++ e)%string)
                     else Some (e, with_ext)
         end) with
  | None => Err                                            (* RuntimeError: must specify *)
  | Some (e, fname) =>
      if String.eqb e "json" then Ok (WJson, fname)
      else if String.eqb e "hdf5" || String.eqb e "h5" then Ok (WHdf5, fname)
      else Err                                             (* RuntimeError: unknown extension *)
  end.

(* the same on the path actually passed to save_results.  os.path.splitext(p)[1].lstrip("."):
   the text after the last "." of the LAST path component, provided a character other than "."
   precedes that dot inside the component; dots in directory names never count. *)
Definition ext_step (st : bool * option string) (c : ascii) : bool * option string :=
  if Ascii.eqb c "/"%char then (false, None)
  else if Ascii.eqb c "."%char then (fst st, if fst st then Some EmptyString else snd st)
  else (true, match snd st with Some e => Some (e ++ String c EmptyString)%string | None => None end).
Fixpoint ext_scan (st : bool * option string) (s : string) : bool * option string :=
  match s with EmptyString => st | String c r => ext_scan (ext_step st c) r end.
Definition path_ext (p : string) : string :=
  match snd (ext_scan (false, None) p) with Some e => e | None => EmptyString end.

Definition choose_writer_p (filename : string) (arg : option string) : res (writer * string) :=
  let ext := path_ext filename in
  match (match arg with
         | None => if String.eqb ext EmptyString then None else Some (ext, filename)
         | Some e => if String.eqb ext EmptyString then Some (e, (filename ++ "." ++ e)%string)
                     else Some (e, filename)
         end) with
  | None => Err
  | Some (e, fname) =>
      if String.eqb e "json" then Ok (WJson, fname)
      else if String.eqb e "hdf5" || String.eqb e "h5" then Ok (WHdf5, fname)
      else Err
  end.
Fixpoint has_dot (s : string) : bool :=
  match s with EmptyString => false | String c r => Ascii.eqb c "."%char || has_dot r end.
(* a file-name stem / an extension: non-empty, no "/" and no "." *)
Definition plain (s : string) : bool :=
  negb (String.eqb s EmptyString) && negb (has_slash s) && negb (has_dot s).

(* live_points_to_dict on the posterior before the JSON writer *)
Definition column (j : nat) (rows : list (list Z)) : list Z := map (fun r => nth j r 0) rows.
Definition struct_to_dict (fields : list (string * akind)) (rows : list (list Z)) : tree :=
  TDict (map (fun p => (fst (snd p), TArr [length rows] (snd (snd p)) (column (fst p) rows)))
             (combine (seq 0 (length fields)) fields)).
Definition prep_json (d : list (string * tree)) : list (string * tree) :=
  map (fun kv => if String.eqb (fst kv) "posterior_samples"
                 then (fst kv, match snd kv with TStruct f rows => struct_to_dict f rows | t => t end)
                 else kv) d.
Definition save_results (l : ladder) (sk : h5_sk) (d : list (string * tree)) (stem ext : string)
           (arg : option string) : res (string * (jval + hfile)) :=
  match choose_writer stem ext arg with
  | Err => Err
  | Ok (WJson, fname) =>
      match enc_json l (TDict (prep_json d)) with Ok j => Ok (fname, inl j) | Err => Err end
  | Ok (WHdf5, fname) =>
      match enc_h5 sk d with Ok f => Ok (fname, inr f) | Err => Err end
  end.
