(* C17 - the normalisation inside nessai.utils.stats.weighted_quantile, over the reals:
     log_weights -= logsumexp(log_weights); neff = exp(-logsumexp(2 log_weights)); weights = exp(log_weights)
     end_points = cumsum(weights) / cumsum(weights)[-1]
     q_p = sum_i (B(a, b, e_i) - B(a, b, e_{i-1})) v_i   with a = q (neff + 1), b = (1 - q) (neff + 1)
   B (scipy.special.betainc) is a parameter. *)
From Coq Require Import Reals List.
Import ListNotations.
Local Open Scope R_scope.

Definition rsum (l : list R) : R := fold_right Rplus 0 l.
Definition sexp (lw : list R) : R := rsum (map exp lw).
(* normalised weights exp(lw_i - logsumexp lw) *)
Definition nw (lw : list R) : list R := map (fun l => exp l / sexp lw) lw.
(* exp(-logsumexp(2 lw_norm)) = 1 / sum w_i^2 *)
Definition neff (lw : list R) : R := / rsum (map (fun w => w * w) (nw lw)).
Fixpoint cums (acc : R) (l : list R) : list R :=
  match l with [] => [] | w :: r => (acc + w) :: cums (acc + w) r end.
Definition ends (lw : list R) : list R :=
  let c := cums 0 (nw lw) in map (fun e => e / last c 1) c.
Fixpoint wq_sumR (B : R -> R) (prev : R) (ev : list (R * R)) : R :=
  match ev with [] => 0 | (e, v) :: r => (B e - B prev) * v + wq_sumR B e r end.
Definition wquant (B : R -> R -> R -> R) (q : R) (vals lw : list R) : R :=
  let n1 := neff lw + 1 in
  wq_sumR (B (q * n1) ((1 - q) * n1)) 0 (combine (ends lw) vals).
