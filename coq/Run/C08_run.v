(* Entry points evaluated with vm_compute by harness/c08.py: the glue of Model/C08_Flow.v instantiated at exact dyadics
   (m, e) = m * 2^e, applied to the component values recorded from the real flows, compared with the recorded top-level
   results.
   TOLERANCE (stated here, used nowhere else): the implementation performs ONE floating-point addition / subtraction of the
   recorded components (n - 1 for the composite total of n layers), so the exact value differs from the recorded one by at
   most 2^-24 (float32) or 2^-53 (float64) relative to the largest magnitude involved.  Allowed: 2^-20 resp. 2^-48 times
   max(|operands|, |result|) per operation - 16 / 32 ulps, far below any change of formula (a flipped sign moves the result
   by 2 |log-determinant|). *)
From Coq Require Import List ZArith Bool Arith.
Import ListNotations.
From NessaiV Require Import Model.C08_Flow.
Local Open Scope Z_scope.

Definition dy := (Z * Z)%type.
Definition dalign (a b : dy) : Z * Z * Z :=
  let e := Z.min (snd a) (snd b) in (fst a * 2 ^ (snd a - e), fst b * 2 ^ (snd b - e), e).
Definition dadd (a b : dy) : dy := let '(x, y, e) := dalign a b in (x + y, e).
Definition dsub (a b : dy) : dy := let '(x, y, e) := dalign a b in (x - y, e).
Definition dzero : dy := (0, 0).
Definition dabs (a : dy) : dy := (Z.abs (fst a), snd a).
Definition dleb (a b : dy) : bool := let '(x, y, _) := dalign a b in x <=? y.
Definition dmax (a b : dy) : dy := if dleb a b then b else a.
Definition dshift (a : dy) (k : Z) : dy := (fst a, snd a + k).          (* a * 2^k *)

Inductive prec := F32 | F64.
Definition tol_exp (p : prec) : Z := match p with F32 => -20 | F64 => -48 end.
Definition tiny : dy := (1, -120).           (* absolute floor: results that cancel to ~0 *)

(* |top - expected| <= n * 2^tol * max(tiny, |operands|, |top|) *)
Definition close (p : prec) (n : Z) (top expected : dy) (operands : list dy) : bool :=
  let scale := fold_left dmax (map dabs (top :: operands)) tiny in
  dleb (dabs (dsub top expected)) (dshift (fst scale * n, snd scale) (tol_exp p)).

Inductive kind :=
| KLogProb       (* NFlow.log_prob / forward_and_log_prob, FlowModel.log_prob / forward_and_log_prob: base(z) + logabsdet *)
| KSample        (* NFlow.sample_and_log_prob, FlowModel.sample_and_log_prob (z, alt_dist): latent(z) - logabsdet(inverse) *)
| KFwdPass       (* FlowProposal.forward_pass: log_prob + log_J *)
| KBwdPass       (* FlowProposal.backward_pass: log_prob - log_J(inverse rescaling) *)
| KInsRow.       (* ImportanceFlowProposal.compute_log_Q / update_log_q: log_prob_i + log_j *)

Definition glue (k : kind) (a b : dy) : dy :=
  match k with
  | KLogProb => g_log_prob dy dadd a b
  | KSample => g_sample_log_prob dy dsub a b
  | KFwdPass => g_forward_pass dy dadd a b
  | KBwdPass => g_backward_pass dy dsub a b
  | KInsRow => match g_ins_row dy dadd [a] b with [r] => r | _ => dzero end
  end.

(* (kind, precision of the operation, first component, second component, recorded top-level value) *)
Definition chk_glue (c : kind * prec * dy * dy * dy) : bool :=
  let '(k, p, a, b, top) := c in close p 1 top (glue k a b) [a; b].
(* CompositeTransform: (precision, per-layer log-determinants in application order, recorded total) *)
Definition chk_total (c : prec * list dy * dy) : bool :=
  let '(p, lds, total) := c in close p (Z.of_nat (length lds) + 1) total (g_total dy dadd dzero lds) lds.

Fixpoint mism_from {X} (chk : X -> bool) (k : nat) (l : list X) : list nat :=
  match l with
  | [] => []
  | x :: r => if chk x then mism_from chk (S k) r else k :: mism_from chk (S k) r
  end.
Definition mism {X} (chk : X -> bool) (l : list X) := mism_from chk 0%nat l.

(* ImportanceFlowProposal.draw: (n, recorded batches: accept mask, candidate ids, row ids; observed (sample id, row id)
   pairs in the order returned) - the model pairs the same two filtered, concatenated, trimmed arrays *)
Fixpoint pairs_eqb (a b : list (nat * nat)) : bool :=
  match a, b with
  | [], [] => true
  | (x, y) :: a', (u, v) :: b' => (x =? u)%nat && (y =? v)%nat && pairs_eqb a' b'
  | _, _ => false
  end.
Definition chk_draw_aligned (c : nat * list (draw_batch nat nat) * list (nat * nat)) : bool :=
  let '(n, bs, obs) := c in pairs_eqb (draw_aligned n bs) obs.
(* compact form used by the harness: candidate ids and row ids of a batch are the consecutive numbers start, start+1, ... *)
Definition chk_draw_aligned_seq (c : nat * list (nat * list bool) * list (nat * nat)) : bool :=
  let '(n, bs, obs) := c in
  chk_draw_aligned (n, map (fun b => (snd b, seq (fst b) (length (snd b)), seq (fst b) (length (snd b)))) bs, obs).
