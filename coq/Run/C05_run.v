From Coq Require Import Reals ZArith List Bool Arith.
From NessaiV Require Import Lib.Enclose Model.C02_Quadrature Model.C05_Results.
Import ListNotations.

Definition p100 : prec := mkprec 100%positive.
Definition dyI (d : Z * Z) : I.type := dy p100 (fst d) (snd d).
Definition dyad := (Z * Z)%type.

Fixpoint all2 {A B} (f : A -> B -> bool) (la : list A) (lb : list B) : bool :=
  match la, lb with
  | [], [] => true
  | a :: ra, b :: rb => f a b && all2 f ra rb
  | _, _ => false
  end.
Definition is_some {A} (o : option A) : bool := match o with Some _ => true | None => false end.

(* importance sampler: (logL + logW per returned sample, reported log Z, reported error, reported
   log posterior weights, tolerances for the three) ; result = list of failing clause numbers *)
Definition inscase := (list (option dyad) * dyad * dyad * list (option dyad) * dyad * dyad * dyad)%type.
Definition chk_ins (c : inscase) : list nat :=
  let '(ws, lz, er, lpw, tz, te, tw) := c in
  let wi := map (dyo p100) ws in
  (if existsb is_some ws && (2 <=? length ws)%nat then [] else [9])
  ++ (if close_to p100 (ins_lnZ_I p100 wi) lz (dyI tz) then [] else [1])
  ++ (if close_to p100 (ins_err_I p100 wi) er (dyI te) then [] else [2])
  ++ (if all2 (fun e y => close_to_opt p100 e y (dyI tw)) (ins_lpw_I p100 wi) lpw then [] else [3]).

(* standard sampler: (mode, returned logL, live-count schedule, base nlive, reported error, tolerance) *)
Definition errcase := (mode * list (option dyad) * list positive * positive * dyad * dyad)%type.
Definition chk_std_err (c : errcase) : bool :=
  let '(md, ls, ns, nl, er, te) := c in
  (length ls =? length ns)%nat && close_to p100 (std_err_I p100 md (map (dyo p100) ls) ns nl) er (dyI te).

(* the same with the two returned columns given separately: ws_i = logL_i + logW_i is formed exactly *)
Definition xadd_I (a b : option I.type) : option I.type :=
  match a, b with Some x, Some y => Some (I.add p100 x y) | _, _ => None end.
Definition inscase2 := (list (option dyad * option dyad) * dyad * dyad * list (option dyad) * dyad * dyad * dyad)%type.
Definition chk_ins2 (c : inscase2) : list nat :=
  let '(prs, lz, er, lpw, tz, te, tw) := c in
  let wi := map (fun pr => xadd_I (dyo p100 (fst pr)) (dyo p100 (snd pr))) prs in
  (if existsb (fun pr => is_some (fst pr) && is_some (snd pr)) prs && (2 <=? length prs)%nat then [] else [9])
  ++ (if close_to p100 (ins_lnZ_I p100 wi) lz (dyI tz) then [] else [1])
  ++ (if close_to p100 (ins_err_I p100 wi) er (dyI te) then [] else [2])
  ++ (if all2 (fun e y => close_to_opt p100 e y (dyI tw)) (ins_lpw_I p100 wi) lpw then [] else [3]).
