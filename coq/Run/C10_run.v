(* Entry points evaluated with vm_compute by harness/c10.py. *)
From Coq Require Import List Arith Bool.
Import ListNotations.
From NessaiV Require Import Model.C10_Batch.

Fixpoint list_eqb (a b : list nat) : bool :=
  match a, b with
  | [], [] => true
  | x :: a', y :: b' => (x =? y) && list_eqb a' b'
  | _, _ => false
  end.

(* indices of the cases on which model and implementation differ *)
Fixpoint mism_from {X} (chk : X -> bool) (k : nat) (l : list X) : list nat :=
  match l with
  | [] => []
  | x :: r => if chk x then mism_from chk (S k) r else k :: mism_from chk (S k) r
  end.
Definition mism {X} (chk : X -> bool) (l : list X) := mism_from chk 0 l.

Definition mk (p v : bool) (k np : nat) : binputs :=
  {| has_pool := p; vectorised := v; chunksize := k; n_pool := np |}.

(* (splitter, inputs, n, implementation's piece lengths) *)
Definition chk_pieces (c : splitter * binputs * nat * list nat) : bool :=
  let '(s, i, n, lens) := c in list_eqb (pieces_case s i n) lens.

(* (inputs, function table, implementation's output) against a given tree *)
Definition chk_out (t : dtree) (c : binputs * list nat * list nat) : bool :=
  let '(i, fvals, out) := c in list_eqb (run_case t i fvals) out.

(* pieces the model hands to the function on the branch taken (what the impl's calls should look like) *)
Fixpoint leaf_of (t : dtree) (i : binputs) : lexp :=
  match t with
  | Leaf e => e
  | IfPoolNone a b => if negb (has_pool i) then leaf_of a i else leaf_of b i
  | IfVect a b => if vectorised i then leaf_of a i else leaf_of b i
  | IfChunk a b => if negb (chunksize i =? 0) then leaf_of a i else leaf_of b i
  end.
Definition call_sizes (t : dtree) (i : binputs) (n : nat) : list nat :=
  match leaf_of t i with
  | LDirect => [n]
  | LConcatMap s _ => pieces_case s i n
  | LPointwise _ => repeat 1 n
  end.
Definition chk_calls (t : dtree) (c : binputs * nat * list nat) : bool :=
  let '(i, n, sizes) := c in list_eqb (call_sizes t i n) sizes.
