(* Entry points evaluated with vm_compute by harness/c09.py *)
From Coq Require Import List ZArith Bool Arith.
Import ListNotations.
From NessaiV Require Import Model.C09_Pool.
Local Open Scope Z_scope.

(* ---- library model of float64 subtraction: exact difference, rounded to nearest-even at 53 bits, overflow to
   +-inf.  (A difference of two doubles below 2^-1022 is a multiple of 2^-1074 and therefore exact.)
   Validated against numpy on every run (chk_sub). *)
Definition round53 (m e : Z) : Z * Z :=
  let a := Z.abs m in
  let n := Z.log2 a + 1 in
  if n <=? 53 then (m, e) else
  let s := n - 53 in
  let q := Z.shiftr a s in
  let r := a - Z.shiftl q s in
  let h := Z.shiftl 1 (s - 1) in
  let q' := if (h <? r) || ((r =? h) && Z.odd q) then q + 1 else q in
  (Z.sgn m * q', e + s).
Definition ieee_sub (m1 e1 m2 e2 : Z) : ext :=
  let e := Z.min e1 e2 in
  let m := m1 * 2 ^ (e1 - e) - m2 * 2 ^ (e2 - e) in
  let '(m', e') := round53 m e in
  if (e' >=? 0) && (2 ^ 1024 <=? Z.abs m' * 2 ^ e') then (if m' >? 0 then PInf else NInf)
  else if (e' <? 0) && (2 ^ (1024 - e') <=? Z.abs m') then (if m' >? 0 then PInf else NInf)
  else Fin m' e'.

Definition ext_eqb (a b : ext) : bool :=
  match a, b with
  | NaN, NaN => true | NInf, NInf => true | PInf, PInf => true
  | Fin m1 e1, Fin m2 e2 => match dy_cmp m1 e1 m2 e2 with Eq => true | _ => false end
  | _, _ => false
  end.

Fixpoint nl_eqb (a b : list nat) : bool :=
  match a, b with [], [] => true | x :: a', y :: b' => (x =? y)%nat && nl_eqb a' b' | _, _ => false end.
Fixpoint nbl_eqb (a b : list (nat * bool)) : bool :=
  match a, b with
  | [], [] => true
  | (x, p) :: a', (y, q) :: b' => (x =? y)%nat && Bool.eqb p q && nbl_eqb a' b'
  | _, _ => false
  end.

Fixpoint mism_from {X} (chk : X -> bool) (k : nat) (l : list X) : list nat :=
  match l with
  | [] => []
  | x :: r => if chk x then mism_from chk (S k) r else k :: mism_from chk (S k) r
  end.
Definition mism {X} (chk : X -> bool) (l : list X) := mism_from chk 0%nat l.

Definition mkc (i : nat) (q j : ext) (b : bool) (p : ext) : cand := {| cid := i; lq := q; lj := j; inb := b; lp := p |}.
Definition mkb (cs : list cand) (u : list ext) (a : bool) : batch := {| cands := cs; us := u; attempt := a |}.

(* (a, b, numpy's a - b) *)
Definition chk_sub (c : ext * ext * ext) : bool := let '(a, b, r) := c in ext_eqb (fsub ieee_sub a b) r.
(* (a, b, numpy's a > b, a >= b) *)
Definition chk_cmp (c : ext * ext * bool * bool) : bool :=
  let '(a, b, g, ge') := c in Bool.eqb (gt a b) g && Bool.eqb (ge a b) ge'.

(* observed outcome of a population: 0 = pool produced, 1 = the call raised IndexError, 2 = still looping when the
   supplied batches were used up *)
(* FlowProposal.populate, plain: (strict, min_log_q, N, batches, observed kind, ids of self.x in order) *)
Definition chk_plain (c : bool * option ext * nat * list batch * nat * list nat) : bool :=
  let '(strict, minlq, N, bs, kind, ids) := c in
  match flow_populate ieee_sub strict minlq N bs with
  | Done (pool, unused) => (kind =? 0)%nat && (unused =? 0)%nat && nl_eqb (map cid pool) ids
  | Raised => (kind =? 1)%nat
  | Starved => (kind =? 2)%nat
  end.
(* accumulate_weights: (strict, min_log_q, N, max_samples, batches, post-loop uniforms, kind, ids of self.x) *)
Definition chk_acc (c : bool * option ext * nat * nat * list batch * list ext * nat * list nat) : bool :=
  let '(strict, minlq, N, maxs, bs, fus, kind, ids) := c in
  match acc_populate ieee_sub strict minlq N maxs bs fus with
  | Done (pool, _, unused) => (kind =? 0)%nat && (unused =? 0)%nat && nl_eqb (map cid pool) ids
  | Raised => (kind =? 1)%nat
  | Starved => (kind =? 2)%nat
  end.
(* RejectionProposal.populate: (N, uniform batches consumed by Model.new_point, uniforms, ids of self.samples) *)
Definition chk_rej (c : nat * list (list cand) * list ext * list nat) : bool :=
  let '(N, bs, u, ids) := c in
  match new_points N bs with
  | Some (xs, unused) =>
      (unused =? 0)%nat &&
      match rej_populate ieee_sub xs u with Some pool => nl_eqb (map cid pool) ids | None => false end
  | None => false
  end.
Definition chk_same (c : list nat * list nat) : bool := let '(a, b) := c in nl_eqb a b.
(* Model.new_point(N > 1) and populate_live_points: (N, batches, ids returned) *)
Definition chk_newp (c : nat * list (list cand) * list nat) : bool :=
  let '(N, bs, ids) := c in
  match new_points N bs with Some (out, unused) => (unused =? 0)%nat && nl_eqb (map cid out) ids | None => false end.
(* ImportanceFlowProposal.draw *)
Definition chk_insdraw (c : nat * list (list cand) * list nat) : bool :=
  let '(N, bs, ids) := c in
  match ins_draw N bs with Some (out, unused) => (unused =? 0)%nat && nl_eqb (map cid out) ids | None => false end.
(* draws: (self.indices after populate, [(pool row handed out, populated flag afterwards)]) *)
Definition chk_draws (c : list nat * list (nat * bool)) : bool :=
  let '(perm, obs) := c in nbl_eqb (draws (length obs) perm) obs.

(* ImportanceFlowProposal.draw_from_flows: (the one batch of candidates, ids returned) *)
Definition chk_fromflows (c : list cand * list nat) : bool :=
  let '(cs, ids) := c in nl_eqb (map cid (ins_from_flows cs)) ids.

(* AugmentedFlowProposal._marginalise_augment: (n_marg, the recomputed terms in the order of the repeated rows, ln n_marg,
   tolerance, the values the real method returned).  logsumexp is an oracle; what is checked in exact arithmetic is the
   enclosure  max(block_i) <= out_i + ln n_marg <= max(block_i) + ln n_marg  of every returned value by ITS OWN block of
   terms (model [blocks]), up to the tolerance the harness states (2^-20 relative). *)
Definition ext_neg (a : ext) : ext := match a with Fin m e => Fin (- m) e | NInf => PInf | PInf => NInf | NaN => NaN end.
Definition ext_add (a b : ext) : ext := fsub ieee_sub a (ext_neg b).
Definition ext_maxl (l : list ext) : ext := match l with [] => NaN | x :: r => fold_left (max2) r x end.
Fixpoint marg_ok (ln_n tol : ext) (groups : list (list ext)) (outs : list ext) : bool :=
  match groups, outs with
  | [], [] => true
  | g :: gs, o :: os =>
      let m := ext_maxl g in
      let v := ext_add o ln_n in
      ge (ext_add v tol) m && ge (ext_add (ext_add m ln_n) tol) v && marg_ok ln_n tol gs os
  | _, _ => false
  end.
Definition chk_marg (c : nat * list ext * ext * ext * list ext) : bool :=
  let '(n, terms, ln_n, tol, outs) := c in marg_ok ln_n tol (blocks n terms) outs.

(* AugmentedFlowProposal.log_prior: (model log-prior, log N(e_k) for every augment parameter, tolerance, the value the real
   log_prior returned) - the model's full_prior at IEEE values *)
Definition chk_augprior (c : ext * list ext * ext * ext) : bool :=
  let '(m, es, tol, top) := c in
  let v := full_prior ext_add zero m es in
  if is_fin v && is_fin top then ge (ext_add v tol) top && ge (ext_add top tol) v else ext_eqb v top.
