(* Entry points evaluated with vm_compute by harness/c07.py.
   A case = one configured proposal (list of blocks in to_prime order) + a list of observed points:
   for every point the exact dyadic inputs, the oracle values (fold sign / auxiliary radius) and the
   four float64 outputs of the real code.  The model's interval twin is evaluated at the exact inputs
   and every output must lie inside its enclosure. *)
From Coq Require Import Reals ZArith List Bool.
From NessaiV Require Import Lib.C07_Interval Model.C07_Maps.
Import ListNotations.

Definition prec := F.PtoP prec_bits.

Definition fl := option (Z * Z).          (* None = inf / nan *)

Record obs := {
  o_in  : list (list dy);    (* per block: inputs *)
  o_aux : list dy;           (* per block: oracle value *)
  o_xp  : list (list fl);    (* per block: prime outputs *)
  o_lj  : fl;
  o_xb  : list (list fl);    (* per block: recovered inputs *)
  o_ljb : fl
}.

Definition ptI (d : dy) : I.type := pointI prec (fst d) (snd d).

(* 0 = outside ; 1 = inside, enclosure narrower than 2^-20 ; 2 = inside, wider ; 3 = improper enclosure (nothing demanded) *)
Definition judge (y : fl) (E : I.type) : nat :=
  if negb (I.bounded E) then 3
  else match y with
       | None => 0
       | Some (m, e) =>
           if insideb prec m e E then (if width_le prec E 1 (-20) then 1 else 2) else 0
       end.

Fixpoint judge_list (ys : list fl) (Es : list I.type) : list nat :=
  match ys, Es with
  | y :: ry, E :: rE => judge y E :: judge_list ry rE
  | [], [] => []
  | _, _ => [0]
  end.
Fixpoint judge_ll (ys : list (list fl)) (Es : list (list I.type)) : list nat :=
  match ys, Es with
  | y :: ry, E :: rE => judge_list y E ++ judge_ll ry rE
  | [], [] => []
  | _, _ => [0]
  end.

Definition all_some (l : list (list fl)) : bool :=
  forallb (forallb (fun o => match o with Some _ => true | None => false end)) l.
Definition unsome (l : list fl) : list dy := map (fun o => match o with Some d => d | None => (0%Z, 0%Z) end) l.

Fixpoint zip3 {A B C} (a : list A) (b : list B) (c : list C) : list (A * B * C) :=
  match a, b, c with
  | x :: ra, y :: rb, z :: rc => (x, y, z) :: zip3 ra rb rc
  | _, _, _ => []
  end.

Definition worst (l : list nat) : nat :=
  if existsb (Nat.eqb 0) l then 0 else fold_left Nat.max l 1.

(* result for one point: (forward values, forward lj, inverse values, inverse lj), each 0..3 ; 4 = not run *)
Definition check_point (blocks : list block) (o : obs) : list nat :=
  let fw := combI_fwd prec ulps (zip3 blocks (map (map ptI) (o_in o)) (map ptI (o_aux o))) I.zero in
  let jf := worst (judge_ll (o_xp o) (fst fw)) in
  let jl := judge (o_lj o) (snd fw) in
  if all_some (o_xp o) then
    let ys := map (fun l => map ptI (unsome l)) (o_xp o) in
    let bw := combI_bwd prec ulps (rev (zip3 blocks ys (map ptI (o_aux o)))) I.zero in
    let jb := worst (judge_ll (rev (o_xb o)) (fst bw)) in
    let jlb := judge (o_ljb o) (snd bw) in
    [jf; jl; jb; jlb]
  else [jf; jl; 4; 4]%nat.

Definition check_case (c : list block * list obs) : list (list nat) :=
  map (check_point (fst c)) (snd c).

(* prime-prior bounds of a RescaleToBounds parameter: the implementation's two floats inside the model's enclosures *)
Definition check_prime_bounds (c : rtb) (lo hi : fl) : list nat :=
  let ps := paramsI prec ulps (rtb_params c) [] in
  let env := I.zero :: I.zero :: ps in
  let (el, eh) := rtb_prime_bounds c in
  [judge lo (evalI prec ulps env el); judge hi (evalI prec ulps env eh)].

(* the model's parameters (for notes / debugging) *)
Definition show_params (c : rtb) := map (I.output true) (paramsI prec ulps (rtb_params c) []).

(* ---- is "reported log_j - true log|det J|" one constant over the points of a configuration? ------------------
   The model's log-Jacobian IS the true log|det J| of the map up to a point-independent constant (theorems
   C07_update_ok / C07_rtb_denotes: constant 0; C07_polar_logdet: ln s; C07_to_cartesian_jacobian: ln (sc/(b-a)) - ...;
   C07_spherical_logdet: 0; C07_*_lj_denotes for the expressions evaluated here).  D_j = lj_j - E_j encloses the offset at
   point j; a pair (j, k) with upper D_j < lower D_k proves that no single constant fits: a concrete failing input. *)
Definition offs (y : fl) (E : I.type) : option I.type :=
  match y with
  | Some (m, e) => if I.bounded E then Some (I.sub prec (pointI prec m e) E) else None
  | None => None
  end.

Definition check_point_full (blocks : list block) (o : obs) : list nat * option I.type * option I.type :=
  let fw := combI_fwd prec ulps (zip3 blocks (map (map ptI) (o_in o)) (map ptI (o_aux o))) I.zero in
  let jf := worst (judge_ll (o_xp o) (fst fw)) in
  let jl := judge (o_lj o) (snd fw) in
  if all_some (o_xp o) then
    let ys := map (fun l => map ptI (unsome l)) (o_xp o) in
    let bw := combI_bwd prec ulps (rev (zip3 blocks ys (map ptI (o_aux o)))) I.zero in
    let jb := worst (judge_ll (rev (o_xb o)) (fst bw)) in
    let jlb := judge (o_ljb o) (snd bw) in
    ([jf; jl; jb; jlb], offs (o_lj o) (snd fw), offs (o_ljb o) (snd bw))
  else ([jf; jl; 4; 4]%nat, offs (o_lj o) (snd fw), None).

Fixpoint pick (better : I.type -> I.type -> bool) (l : list (nat * option I.type)) (best : option (nat * I.type))
  : option (nat * I.type) :=
  match l with
  | [] => best
  | (_, None) :: r => pick better r best
  | (j, Some d) :: r =>
      pick better r (match best with
                     | None => Some (j, d)
                     | Some (_, b) => if better d b then Some (j, d) else best
                     end)
  end.

Definition separated (dj dk : I.type) : bool := I.F'.lt' (I.upper dj) (I.lower dk).

Definition offset_witness (ds : list (option I.type)) : list nat :=
  let ix := combine (seq 0 (length ds)) ds in
  match pick (fun d b => I.F'.lt' (I.upper d) (I.upper b)) ix None,
        pick (fun d b => I.F'.lt' (I.lower b) (I.lower d)) ix None with
  | Some (j, dj), Some (k, dk) => if separated dj dk then [j; k] else []
  | _, _ => []
  end.

(* verdicts per point, then the forward and the inverse witness (each [] or [j; k]) *)
Definition check_case2 (c : list block * list obs) : list (list nat) :=
  let rows := map (check_point_full (fst c)) (snd c) in
  map (fun r => fst (fst r)) rows
  ++ [offset_witness (map (fun r => snd (fst r)) rows); offset_witness (map snd rows)].

(* the enclosures of the log-Jacobians at one point, for the replay of a witness *)
Definition lj_enclosures (blocks : list block) (o : obs) :=
  let fw := combI_fwd prec ulps (zip3 blocks (map (map ptI) (o_in o)) (map ptI (o_aux o))) I.zero in
  let ys := map (fun l => map ptI (unsome l)) (o_xp o) in
  let bw := combI_bwd prec ulps (rev (zip3 blocks ys (map ptI (o_aux o)))) I.zero in
  (I.output true (snd fw), I.output true (snd bw)).

(* ---- prime priors: reported x_prime_log_prior minus the enclosure of "log p(x) - log_J" at the exact inputs;
   a separated pair of rows proves that the difference is not one constant per configuration *)
Definition check_prime_prior (e : expr) (rows : list (list dy * fl)) : list nat :=
  offset_witness (map (fun r => offs (snd r) (evalI prec ulps (map ptI (fst r)) e)) rows).
Definition prime_prior_enclosures (e : expr) (rows : list (list dy * fl)) :=
  map (fun r => I.output true (evalI prec ulps (map ptI (fst r)) e)) rows.
