(* Entry points evaluated with vm_compute by harness/c12.py. *)
From Coq Require Import List String Bool ZArith.
Import ListNotations.
From NessaiV Require Import Model.C12_Resume.
Open Scope string_scope.

Fixpoint mism_from {X} (chk : X -> bool) (k : nat) (l : list X) : list nat :=
  match l with
  | [] => []
  | x :: r => if chk x then mism_from chk (S k) r else k :: mism_from chk (S k) r
  end.
Definition mism {X} (chk : X -> bool) (l : list X) := mism_from chk 0 l.

Definition cls_of (cname : string) : field -> fclass :=
  if String.eqb cname "sampler" then cls_sampler
  else if String.eqb cname "ins_sampler" then cls_ins_sampler
  else if String.eqb cname "proposal" then cls_proposal
  else if String.eqb cname "ins_proposal" then cls_ins_proposal
  else if String.eqb cname "flowmodel" then cls_flowmodel
  else if String.eqb cname "model" then cls_model
  else if String.eqb cname "samples" then cls_samples
  else classify [] [].

Definition onat_eqb (a b : option nat) : bool :=
  match a, b with
  | None, None => true
  | Some x, Some y => Nat.eqb x y
  | _, _ => false
  end.

(* (class kind, field, digest id before pickling, digest id after resume in a fresh process,
    presumed transient by the harness: dropped by __getstate__ and not in any table) *)
Definition chk_field (c : string * string * option nat * option nat * bool) : bool :=
  let '(cname, f, before, after, presumed) := c in
  presumed || match cls_of cname f with
              | Transient => true
              | _ => onat_eqb before after
              end.

(* the model's roundtrip on the recorded object: fields the skeleton keeps come back *)
Definition chk_model_roundtrip (sk : skel) (c : string * list (string * nat)) : bool :=
  let '(cname, fields) := c in
  let o : obj nat := fun f => match find (fun p => String.eqb (fst p) f) fields with
                              | Some p => Some (snd p) | None => None end in
  let o' := roundtrip nat sk (fun _ => None) (fun _ => None) (fun _ _ => None) o in
  forallb (fun p => match cls_of cname (fst p) with
                    | Result => onat_eqb (o' (fst p)) (Some (snd p))
                    | _ => true
                    end) fields.

(* counters along a real kill / resume chain: (m0, d) per process and the count finally reported *)
Definition chk_chain (effs : list ceff) (c : list (Z * Z) * Z) : bool :=
  let '(segs, reported) := c in Z.eqb (chain effs segs) reported.

(* second-generation checkpoints: the state a resumed sampler holds when it writes its first checkpoint
   at loop entry (same iteration) against the state of the sampler that wrote the checkpoint it resumed
   from.  The clock has moved on: sampling_time and (time-triggered) _last_checkpoint may differ. *)
Definition entry_clock_fields : list field := ["sampling_time"; "_last_checkpoint"].
Definition chk_field_entry (c : string * string * option nat * option nat * bool) : bool :=
  let '(cname, f, before, after, presumed) := c in
  fmem f entry_clock_fields || chk_field c.
