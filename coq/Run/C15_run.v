(* Entry points evaluated with vm_compute by harness/c15.py (discrete part). *)
From Coq Require Import String.
From Coq Require Import List ZArith Bool Arith.
Import ListNotations.
From NessaiV Require Import Model.C15_Stop.
Local Open Scope Z_scope.

Fixpoint mism_from {X} (chk : X -> bool) (k : nat) (l : list X) : list nat :=
  match l with
  | [] => []
  | x :: r => if chk x then mism_from chk (S k) r else k :: mism_from chk (S k) r
  end.
Definition mism {X} (chk : X -> bool) (l : list X) := mism_from chk 0%nat l.

Fixpoint zlist_eqb (a b : list Z) : bool :=
  match a, b with [] , [] => true | x :: a', y :: b' => (x =? y) && zlist_eqb a' b' | _, _ => false end.
Definition ozlist_eqb (a b : option (list Z)) : bool :=
  match a, b with None, None => true | Some x, Some y => zlist_eqb x y | _, _ => false end.
Fixpoint slist_eqb (a b : list string) : bool :=
  match a, b with [] , [] => true | x :: a', y :: b' => String.eqb x y && slist_eqb a' b' | _, _ => false end.

(* ---- what the harness observes after one call of run() ---------------------------------------
   None            the real code raised
   Some None       the scripted body ran out of stream (the real loop wanted another iteration)
   Some (Some o)   returned: (bodies executed, condition, iteration, finalised, live points, nested samples)
   The lists are compared only when the harness tracks ids (scripted runs): [None] = not tracked. *)
Definition sobs := (nat * Z * Z * bool * bool * option (option (list Z) * list Z))%type.
   (* n, cond, it, finalised, live_is_none, ids *)

Definition sobs_ok (r : sst * nat * bool) (o : option (option sobs)) : bool :=
  let '(st, n, oof) := r in
  if s_err st then match o with None => true | _ => false end else
  if oof then match o with Some None => true | _ => false end else
  match o with
  | Some (Some (n', c, i, f, ln, ids)) =>
      (n =? n')%nat && (s_cond st =? c) && (s_it st =? i) && Bool.eqb (s_fin st) f
      && Bool.eqb (match s_live st with None => true | Some _ => false end) ln
      && match ids with
         | None => true
         | Some (lv, ns) => ozlist_eqb (s_live st) lv && zlist_eqb (s_ns st) ns
         end
  | _ => false
  end.

(* a history: successive run() calls on the same sampler object (each = initialise + loop) *)
Fixpoint s_hist (sk : sskel) (cfg : scfg) (st : sst)
         (calls : list (list Z * list (Z * Z) * option (option sobs))) : bool :=
  match calls with
  | [] => true
  | (fresh, stream, o) :: rest =>
      let r := s_run sk cfg st fresh stream in
      sobs_ok r o && (if s_err (fst (fst r)) || snd r then true else s_hist sk cfg (fst (fst r)) rest)
  end.
Definition mk_sst (c i : Z) (f : bool) (lv : option (list Z)) (ns : list Z) : sst :=
  {| s_cond := c; s_it := i; s_fin := f; s_live := lv; s_ns := ns; s_err := false |}.
Definition mk_scfg (t : Z) (cap : option Z) (pr : bool) : scfg := {| sc_tol := t; sc_cap := cap; sc_prior := pr |}.
Definition chk_shist (sk : sskel)
  (c : scfg * sst * list (list Z * list (Z * Z) * option (option sobs))) : bool :=
  let '(cfg, st, calls) := c in s_hist sk cfg st calls.

(* ---- importance sampler ---------------------------------------------------------------------- *)
Definition iobs := (nat * list Z * Z * bool * option (option (list Z) * list Z))%type.
   (* n, criterion, it, finalised, ids (live, dead) *)
Definition iobs_ok (r : ist * nat * bool) (o : option (option iobs)) : bool :=
  let '(st, n, oof) := r in
  if oof then match o with Some None => true | _ => false end else
  match o with
  | Some (Some (n', c, i, f, ids)) =>
      (n =? n')%nat && zlist_eqb (i_crit st) c && (i_it st =? i) && Bool.eqb (i_fin st) f
      && match ids with
         | None => true
         | Some (lv, dd) => ozlist_eqb (i_live st) lv && zlist_eqb (i_dead st) dd
         end
  | _ => false
  end.
Fixpoint i_hist (sk : iskel) (cfg : icfg) (st : ist)
         (calls : list (list (list Z * nat * list Z) * option (option iobs))) : bool :=
  match calls with
  | [] => true
  | (stream, o) :: rest =>
      let r := i_run sk cfg st stream in
      iobs_ok r o && (if snd r then true else i_hist sk cfg (fst (fst r)) rest)
  end.
Definition mk_ist (c : list Z) (i : Z) (f : bool) (lv : option (list Z)) (dd : list Z) : ist :=
  {| i_crit := c; i_it := i; i_fin := f; i_live := lv; i_dead := dd |}.
Definition mk_icfg (a : bool) (t : list Z) (mn : Z) (cap : option Z) : icfg :=
  {| ic_any := a; ic_tols := t; ic_min := mn; ic_cap := cap |}.
Definition chk_ihist (sk : iskel)
  (c : icfg * ist * list (list (list Z * nat * list Z) * option (option iobs))) : bool :=
  let '(cfg, st, calls) := c in i_hist sk cfg st calls.

(* ---- reached_tolerance, configure_stopping_criterion ------------------------------------------ *)
Definition chk_reached (g : bool -> list Z -> list Z -> bool) (c : bool * list Z * list Z * bool) : bool :=
  let '(a, cr, tl, o) := c in Bool.eqb (g a cr tl) o.
(* observed: None = ValueError; the model raises when nothing resolves or the lengths differ *)
Definition resolve_obs (t : atable) (names : list string) (ntol : nat) : option (list string) :=
  let r := resolve t names in
  match r with
  | [] => None
  | _ => if (length r =? ntol)%nat then Some r else None
  end.
Definition chk_resolve (t : atable) (c : list string * nat * option (list string)) : bool :=
  let '(names, ntol, o) := c in
  match resolve_obs t names ntol, o with
  | None, None => true
  | Some a, Some b => slist_eqb a b
  | _, _ => false
  end.

(* the stopping index the model predicts for a recorded stream (for the evidence) *)
Definition s_stop_index (sk : sskel) (cfg : scfg) (st : sst) (stream : list (Z * Z)) : nat * bool :=
  let '(_, n, oof) := s_run sk cfg st [] stream in (n, oof).
