From Coq Require Import List ZArith Bool Arith.
Import ListNotations.
From NessaiV Require Import Model.C17_Threshold.
Local Open Scope Z_scope.

Fixpoint mism_from {X} (chk : X -> bool) (k : nat) (l : list X) : list nat :=
  match l with
  | [] => []
  | x :: r => if chk x then mism_from chk (S k) r else k :: mism_from chk (S k) r
  end.
Definition mism {X} (chk : X -> bool) (l : list X) := mism_from chk 0%nat l.

Definition oz_eqb (a b : option Z) := match a, b with None, None => true | Some x, Some y => x =? y | _, _ => false end.
Definition ooz_eqb (a b : option (option Z)) :=
  match a, b with None, None => true | Some x, Some y => oz_eqb x y | _, _ => false end.

(* (likelihood keys, method's n, min_s, min_r, max_s (0 = None), nlive, dc, implementation:
    None = IndexError, Some None = literal 0, Some (Some k) = key of the returned threshold) *)
Definition chk_clamp (f : Z -> Z -> Z -> Z -> Z -> Z -> bool -> cres)
  (c : list Z * Z * Z * Z * Z * Z * bool * option (option Z)) : bool :=
  let '(keys, n, min_s, min_r, max_s, nlive, dc, obs) := c in
  ooz_eqb (threshold_key keys (f n (Z.of_nat (length keys)) min_s min_r max_s nlive dc)) obs.

(* (mask handed to np.argmax, its result) *)
Definition chk_argmax (c : list bool * nat) : bool := let '(m, r) := c in (argmax_mask m =? r)%nat.

(* (all training-sample keys, threshold key, min_s, observed number of training samples) *)
Definition chk_ntrain (c : list Z * Z * Z * Z) : bool :=
  let '(keys, thr, min_s, obs) := c in
  (Z.of_nat (length keys) - n_train keys thr min_s =? obs).
