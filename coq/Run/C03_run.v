From Coq Require Import Reals List Bool Arith ZArith.
From NessaiV Require Import Lib.Enclose Model.C03_Meta.
Import ListNotations.

Definition p80 : prec := mkprec 80%positive.

Fixpoint mism_from {X} (chk : X -> bool) (k : nat) (l : list X) : list nat :=
  match l with
  | [] => []
  | x :: r => if chk x then mism_from chk (S k) r else k :: mism_from chk (S k) r
  end.
Definition mism {X} (chk : X -> bool) (l : list X) := mism_from chk 0%nat l.

Definition dyI (d : Z * Z) : I.type := dy p80 (fst d) (snd d).

(* (counts, log_q row, logQ, logU, logW, tolerance for logQ, tolerance for logW), all exact dyadics *)
Definition rowcase := (list nat * list (option (Z * Z)) * (Z * Z) * (Z * Z) * (Z * Z) * (Z * Z) * (Z * Z))%type.
Definition chk_row (c : rowcase) : bool :=
  let '(cs, lq, lQ, lU, lW, tq, tw) := c in
  (match cs, lq with c0 :: _, Some _ :: _ => (0 <? c0)%nat | _, _ => false end)
  && (length lq =? length cs)%nat
  && close_to p80 (mix_I p80 (weights_I p80 cs) (map (dyo p80) lq)) lQ (dyI tq)
  && close_to p80 (I.sub p80 (dyI lU) (dyI lQ)) lW (dyI tw).

(* (counts, the proposal's weights as dyadics, tolerance) *)
Fixpoint all2 {A B} (f : A -> B -> bool) (la : list A) (lb : list B) : bool :=
  match la, lb with
  | [], [] => true
  | a :: ra, b :: rb => f a b && all2 f ra rb
  | _, _ => false
  end.
Definition chk_weights (c : list nat * list (Z * Z) * (Z * Z)) : bool :=
  let '(cs, ws, tol) := c in
  (0 <? total cs)%nat && all2 (fun wi w => close_to p80 wi w (dyI tol)) (weights_I p80 cs) ws.
