(* Entry points evaluated with vm_compute by harness/c20.py. *)
From Coq Require Import List ZArith Bool String Arith.
Import ListNotations.
From NessaiV Require Import Model.C20_Options.
Local Open Scope Z_scope.

Fixpoint mism_from {X} (chk : X -> bool) (k : nat) (l : list X) : list nat :=
  match l with
  | [] => []
  | x :: r => if chk x then mism_from chk (S k) r else k :: mism_from chk (S k) r
  end.
Definition mism {X} (chk : X -> bool) (l : list X) := mism_from chk 0%nat l.

Definition lres_eqb (a b : lres) : bool :=
  match a, b with
  | Done k x p, Done k' x' p' => Nat.eqb k k' && (x =? x') && (p =? p')
  | OutOfFuel, OutOfFuel => true
  | _, _ => false
  end.

Definition bt (e t : bool) (a : Z) := mkBatch e t a.

(* one observed call of FlowProposal.populate:
   (accumulate, N, drawsize, max_samples, batches as recorded at the loop head, observed result)
   the model runs with fuel = number of recorded passes (+1 for the final test) *)
Definition chk_populate (c : bool * Z * Z * Z * list batch * lres) : bool :=
  let '(acc, N, d, m, bs, obs) := c in
  lres_eqb (populate0 (S (List.length bs)) acc N d m (stream_of (mkBatch false false 0) bs)) obs.

(* one observed call of ImportanceFlowProposal.draw: (n, n_draw, accepted per pass, observed result) *)
Definition chk_ins_draw (c : Z * Z * list Z * lres) : bool :=
  let '(n, nd, bs, obs) := c in
  lres_eqb (ins_draw0 (S (List.length bs)) n nd (stream_of 0 bs)) obs.

(* validators: implementation outcome encoded as the model's result type *)
Definition vres_eqb (a b : vres) : bool :=
  match a, b with Accept, Accept => true | Reject _, Reject _ => true | _, _ => false end.
Definition vres_eqb_strict (a b : vres) : bool :=
  match a, b with Accept, Accept => true | Reject i, Reject j => Nat.eqb i j | _, _ => false end.

Definition chk_cc (f : Z -> Z -> Z -> Z -> vres) (c : Z * Z * Z * Z * vres) : bool :=
  let '(min_s, min_r, max_s, nlive, obs) := c in vres_eqb (f min_s min_r max_s nlive) obs.

Fixpoint slist_eqb (a b : list string) : bool :=
  match a, b with
  | [], [] => true
  | x :: a', y :: b' => String.eqb x y && slist_eqb a' b'
  | _, _ => false
  end.

Definition sc_eqb (a b : sc_res) : bool :=
  match a, b with
  | SCok c s, SCok c' s' => slist_eqb c c' && Bool.eqb s s'
  | SCerr i, SCerr j => Nat.eqb i j
  | _, _ => false
  end.
Definition chk_sc (aliases : list (string * list string)) (c : list string * nat * string * sc_res) : bool :=
  let '(req, n_tol, cc, obs) := c in sc_eqb (configure_stopping aliases req n_tol cc) obs.

Definition pc_eqb (a b : pc_res) : bool :=
  match a, b with
  | PCclass x, PCclass y | PCexternal x, PCexternal y => String.eqb x y
  | PCvalue_error, PCvalue_error | PCtype_error, PCtype_error => true
  | _, _ => false
  end.
Definition chk_pc (base : list (string * string)) (ext : list string) (c : pc_in * pc_res) : bool :=
  let '(i, obs) := c in pc_eqb (get_flow_proposal_class base ext i) obs.

(* kept names are compared as sets (dictionary order is not part of the contract) *)
Definition subset (a b : list string) : bool := forallb (fun x => mem x b) a.
Definition cpk_eqb (a b : cpk_res) : bool :=
  match a, b with
  | CPKok x, CPKok y => subset x y && subset y x
  | CPKerr i, CPKerr j => Nat.eqb i j
  | _, _ => false
  end.
Definition chk_cpk (c : list string * list string * list string * bool * cpk_res) : bool :=
  let '(ck, al, keys, strict, obs) := c in cpk_eqb (check_proposal_kwargs ck al keys strict) obs.

Definition tc_eqb (a b : tc_res) : bool :=
  match a, b with
  | TCok x, TCok y => Bool.eqb x y
  | TCerr i, TCerr j => Nat.eqb i j
  | _, _ => false
  end.
Definition chk_tc (c : bool * nat * tc_res) : bool :=
  let '(tg, sk, obs) := c in tc_eqb (update_training_noise tg sk) obs.

(* signatures extracted from the source against inspect.signature of the imported objects *)
Definition sig_eqb (a b : sig) : bool :=
  slist_eqb (s_pos a) (s_pos b) && Nat.eqb (s_nposonly a) (s_nposonly b) && slist_eqb (s_kwonly a) (s_kwonly b)
  && subset (s_req a) (s_req b) && subset (s_req b) (s_req a) && Bool.eqb (s_var a) (s_var b) && Bool.eqb (s_kw a) (s_kw b).
Definition chk_sig (c : sig * sig) : bool := sig_eqb (fst c) (snd c).

(* data-loader batch sizes *)
Definition oz_eqb (a b : option Z) : bool :=
  match a, b with None, None => true | Some x, Some y => x =? y | _, _ => false end.
(* (len(x), batch_size, result of the real check_batch_size: None = raised) *)
Definition chk_cbs (c : Z * Z * option Z) : bool := let '(n, bs, obs) := c in oz_eqb (check_batch_size n bs) obs.
(* (n_train, n_val, batch-size spec, observed (train loader batch size, validation loader batch size)) with a
   given validation-batch-size expression; None = prep_data raised *)
Definition ozz_eqb (a b : option (Z * option Z)) : bool :=
  match a, b with
  | None, None => true
  | Some (x, v), Some (y, w) => (x =? y) && oz_eqb v w
  | _, _ => false
  end.
Definition chk_loaders (vbs : Z -> Z -> option Z) (c : Z * Z * bs_spec * option (Z * option Z)) : bool :=
  let '(nt, nv, s, obs) := c in ozz_eqb (data_loaders vbs nt nv s) obs.

(* explanation of a failing binding: the offending keywords / markers *)
Local Open Scope string_scope.
Definition explain_bind (s : sig) (c : call) : list string :=
  filter (fun k => negb (mem k (kw_names s) || s_kw s)) (c_kws c)
  ++ (if s_var s || (c_npos c <=? List.length (s_pos s))%nat then [] else ["<too-many-positional>"])
  ++ map (fun k => "<multiple-values>" ++ k) (filter (fun k => mem k (firstn (c_npos c) (s_pos s))) (c_kws c))
  ++ (if c_star c || c_dstar c then []
      else map (fun r => "<missing>" ++ r)
               (filter (fun r => negb (mem r (firstn (c_npos c) (s_pos s)) || mem r (c_kws c))) (s_req s))).

Fixpoint explain_from (sigs : list sig) (k : nat) (l : list call) : list (nat * nat * string) :=
  match l with
  | [] => []
  | c :: r =>
    flat_map (fun i => match nth_error sigs i with
                       | Some s => map (fun w => (k, i, w)) (explain_bind s c)
                       | None => [(k, i, "<no-signature>")]
                       end) (c_sigs c)
    ++ explain_from sigs (S k) r
  end.
Definition explain_calls (t : table) := explain_from (t_sigs t) 0%nat (t_calls t).
