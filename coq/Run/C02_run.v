(* Entry points evaluated with vm_compute by harness/c02.py.
   A case carries the exact dyadic inputs (log-likelihoods, None = -inf; live counts), and groups of
   float64 outputs of the implementation as exact dyadics.  [check_case] returns the indices of the
   groups that are NOT within the stated tolerance of the enclosure of the real model
   (Model/C02_Quadrature.v; soundness: Proofs C02_check_group_sound). *)
From Coq Require Import Reals ZArith List Bool.
From Interval Require Import Basic.
From NessaiV Require Import Lib.Enclose Model.C02_Quadrature.
Import ListNotations.

Definition dyad := (Z * Z)%type.
(* group kinds: 0 = log_vols (m+1 values), 1 = [log Z rectangle], 2 = [log Z trapezoid], 3 = log posterior weights *)
Definition group := (nat * list (option dyad))%type.
Definition case := (mode * list (option dyad) * list positive * list group)%type.

Section Run.
Variable p : prec.

Fixpoint all2 {A B} (f : A -> B -> bool) (la : list A) (lb : list B) : bool :=
  match la, lb with
  | [], [] => true
  | a :: ra, b :: rb => f a b && all2 f ra rb
  | _, _ => false
  end.

Fixpoint check_lv_from (i : nat) (lv : list I.type) (ys : list (option dyad)) : bool :=
  match lv, ys with
  | [], [] => true
  | v :: rv, Some y :: ry => close_to p v y (tol_lv_I p i v) && check_lv_from (S i) rv ry
  | _, _ => false
  end.

Definition check_group (q : qencl) (g : group) : bool :=
  match fst g with
  | 0 => check_lv_from 0 (q_lv q) (snd g)
  | 1 => match snd g with [y] => close_to_opt p (Some (q_lnZrect q)) y (q_tol q) | _ => false end
  | 2 => match snd g with [y] => close_to_opt p (Some (q_lnZ q)) y (q_tol q) | _ => false end
  | 3 => all2 (fun e y => close_to_opt p e y (q_tol q)) (q_lnw q) (snd g)
  | _ => false
  end.

Fixpoint mism_from {X} (chk : X -> bool) (k : nat) (l : list X) : list nat :=
  match l with
  | [] => []
  | x :: r => if chk x then mism_from chk (S k) r else k :: mism_from chk (S k) r
  end.

Definition quad_of (c : case) : qencl :=
  let '(md, ls, ns, _) := c in quad_I p md (map (dyo p) ls) ns.

Definition is_some {A} (o : option A) : bool := match o with Some _ => true | None => false end.
(* the domain of the theorems: one live count per point, at least one finite log-likelihood *)
Definition guards (c : case) : list nat :=
  let '(_, ls, ns, _) := c in
  (if Nat.eqb (length ls) (length ns) then [] else [2000]) ++ (if existsb is_some ls then [] else [2001]).

(* failing group indices; 1000 is added when the evaluator itself produced no usable enclosure,
   2000 / 2001 when the case is outside the domain of the theorems *)
Definition check_with (q : qencl) (c : case) : list nat :=
  let '(_, _, _, gs) := c in
  guards c ++ (if is_defined (q_lnZ q) && is_defined (q_tol q) then [] else [1000])
           ++ mism_from (check_group q) 0 gs.
Definition check_case (c : case) : list nat := check_with (quad_of c) c.

(* ---- diagnostics (not part of any obligation): largest observed error / tolerance ------- *)
Definition ratio (enc : I.type) (y : dyad) (tol : I.type) : F.type :=
  I.upper (I.div p (I.abs (I.sub p enc (dy p (fst y) (snd y)))) tol).
Definition fmax (a b : F.type) : F.type :=
  match F.cmp a b with Xreal.Xlt => b | Xreal.Xund => (if F.real a then a else b) | _ => a end.
Fixpoint ratio_lv_from (i : nat) (lv : list I.type) (ys : list (option dyad)) : F.type :=
  match lv, ys with
  | v :: rv, Some y :: ry =>
      let r := ratio_lv_from (S i) rv ry in
      match i with O => r | _ => fmax (ratio v y (tol_lv_I p i v)) r end
  | _, _ => F.zero
  end.
Fixpoint ratio_w (es : list (option I.type)) (ys : list (option dyad)) (tol : I.type) : F.type :=
  match es, ys with
  | Some e :: re, Some y :: ry => fmax (ratio e y tol) (ratio_w re ry tol)
  | _ :: re, _ :: ry => ratio_w re ry tol
  | _, _ => F.zero
  end.
Definition ratio_group (q : qencl) (g : group) : F.type :=
  match fst g with
  | 0 => ratio_lv_from 0 (q_lv q) (snd g)
  | 1 => ratio_w [Some (q_lnZrect q)] (snd g) (q_tol q)
  | 2 => ratio_w [Some (q_lnZ q)] (snd g) (q_tol q)
  | 3 => ratio_w (q_lnw q) (snd g) (q_tol q)
  | _ => F.zero
  end.
Definition diag_case (c : case) : list nat * list (float F.radix) :=
  let q := quad_of c in
  let '(_, _, _, gs) := c in
  (check_with q c, map (fun g => F.toF (ratio_group q g)) gs).
End Run.

(* ---- what a passing check means, as a statement about reals (proved in Proofs/C02_Encl_proofs.v) ---- *)
Local Open Scope R_scope.
Definition near (t x : R) (y : dyad) : Prop := Rabs (x - dyR (fst y) (snd y)) <= t.
Definition near_opt (t : R) (x : xlog) (y : option dyad) : Prop :=
  match x, y with
  | None, None => True
  | Some a, Some d => near t a d
  | _, _ => False
  end.
Fixpoint lv_ok (i : nat) (lv : list R) (ys : list (option dyad)) : Prop :=
  match lv, ys with
  | [], [] => True
  | v :: rv, Some y :: ry => near (tol_lv i v) v y /\ lv_ok (S i) rv ry
  | _, _ => False
  end.
Definition group_ok (md : mode) (ls : list xlog) (ns : list positive) (g : group) : Prop :=
  match fst g with
  | 0%nat => lv_ok 0 (lvols md ns) (snd g)
  | 1%nat => exists y, snd g = [y] /\ near_opt (tol_q md ls ns) (Some (ln (Zrect md ls ns))) y
  | 2%nat => exists y, snd g = [y] /\ near_opt (tol_q md ls ns) (Some (cw_lnZ md ls ns)) y
  | 3%nat => Forall2 (near_opt (tol_q md ls ns)) (cw_lnw md ls ns) (snd g)
  | _ => False
  end.

Definition P100 := mkprec 100.
Definition P200 := mkprec 200.
