(* Entry points evaluated with vm_compute by harness/c15.py (numeric part: criteria recomputed from samples). *)
From Coq Require Import List ZArith Bool.
Import ListNotations.
From NessaiV Require Import Lib.Enclose Model.C15_Criteria.

Definition P80 : prec := mkprec 80%positive.

Fixpoint cmism_from (k : nat) (l : list ccase) : list nat :=
  match l with
  | [] => []
  | c :: r => if run_ccase P80 c then cmism_from (S k) r else k :: cmism_from (S k) r
  end.
Definition cmism (l : list ccase) : list nat := cmism_from 0%nat l.
