(* Entry points evaluated with vm_compute by harness/c16.py, and what a passing check means
   (soundness in Proofs/C16_Encl_proofs.v). *)
From Coq Require Import Reals ZArith List Bool.
From Interval Require Import Basic.
From NessaiV Require Import Lib.Enclose Model.C16_Resample.
Import ListNotations.

Definition dyad := (Z * Z)%type.
Definition is_some {A} (o : option A) : bool := match o with Some _ => true | None => false end.

Fixpoint all2 {A B} (f : A -> B -> bool) (la : list A) (lb : list B) : bool :=
  match la, lb with
  | [], [] => true
  | a :: ra, b :: rb => f a b && all2 f ra rb
  | _, _ => false
  end.
Fixpoint list_eqb (a b : list nat) : bool :=
  match a, b with
  | [], [] => true
  | x :: a', y :: b' => Nat.eqb x y && list_eqb a' b'
  | _, _ => false
  end.
Fixpoint strictly_incb (l : list nat) : bool :=
  match l with
  | a :: r => match r with b :: _ => Nat.ltb a b && strictly_incb r | [] => true end
  | [] => true
  end.
Definition memb (k : nat) (l : list nat) : bool := existsb (Nat.eqb k) l.

Section Run.
Variable p : prec.

(* ---- indices identify the returned samples (exact, integers only) ----------------------------- *)
(* rejection: indices strictly increasing, in range, and samples_out = samples_in[indices] *)
Definition check_subset (sorted : bool) (n : nat) (idx ids_in ids_out : list nat) : bool :=
  (negb sorted || strictly_incb idx) && forallb (fun i => Nat.ltb i n) idx && list_eqb (take 0%nat ids_in idx) ids_out.

(* ---- effective sample size --------------------------------------------------------------------- *)
Definition check_ess (lw : list (option dyad)) (y : dyad) : bool :=
  let li := map (dyo p) lw in
  let e := ess_I p li in
  existsb is_some lw && close_to p e y (I.mul p (tol_rel_I p li) e).

(* n = int(ess): n <= ESS + t  and  ESS - t <= n + 1  with t = tol_rel * ESS *)
Definition check_default_n (lw : list (option dyad)) (n : nat) : bool :=
  let li := map (dyo p) lw in
  let e := ess_I p li in
  let t := I.mul p (tol_rel_I p li) e in
  existsb is_some lw
  && is_nonneg (I.sub p (I.add p e t) (iZ p (Z.of_nat n)))
  && is_nonneg (I.sub p (iZ p (Z.of_nat n + 1)) (I.sub p e t)).

(* probabilities handed to np.random.choice *)
Definition check_probs (lw : list (option dyad)) (ps : list dyad) : bool :=
  let li := map (dyo p) lw in
  let t := tol_rel_I p li in
  existsb is_some lw && all2 (fun e y => close_to p e y (tol_p_I p t e)) (probs_I p li) ps.

(* ---- rejection: each decision agrees with  log_w_i - max > log u_i  up to the float64 slack ---- *)
Definition check_keep (M : I.type) (l : option dyad) (u : dyad) (b : bool) : bool :=
  match l with
  | None => negb b
  | Some (m, e) =>
      if (fst u =? 0)%Z then b
      else if (fst u <? 0)%Z then false
      else
        let d := I.sub p (dy p m e) M in
        let lu := I.ln p (dy p (fst u) (snd u)) in
        let mg := I.sub p d lu in
        let t := tol_margin_I p d lu in
        if b then is_nonneg (I.add p mg t) else is_nonpos (I.sub p mg t)
  end.
Fixpoint check_keeps_from (k : nat) (M : I.type) (lw : list (option dyad)) (us : list dyad) (idx : list nat) : list nat :=
  match lw, us with
  | [], [] => []
  | l :: rl, u :: ru =>
      (if check_keep M l u (memb k idx) then [] else [k]) ++ check_keeps_from (S k) M rl ru idx
  | _, _ => [k]
  end.
(* (some weight is finite, offending positions) *)
Definition check_rej (lw : list (option dyad)) (us : list dyad) (idx : list nat) : bool * list nat :=
  match xmaxo_I p (map (dyo p) lw) with
  | None => (false, [])
  | Some M => (true, check_keeps_from 0 M lw us idx)
  end.

(* ---- diagnostics: how close to the boundary the decisions were (not an obligation) ------------- *)
Definition rel_err (lw : list (option dyad)) (y : dyad) : float F.radix :=
  let li := map (dyo p) lw in
  let e := ess_I p li in
  F.toF (I.upper (I.div p (I.abs (I.sub p e (dy p (fst y) (snd y)))) (I.mul p (tol_rel_I p li) e))).
End Run.

(* ---- what the checks mean, as statements about reals ---------------------------------------------- *)
Local Open Scope R_scope.
Definition dyv (y : dyad) : R := dyR (fst y) (snd y).
Definition ess_ok (lw : list xlog) (y : dyad) : Prop := Rabs (ess lw - dyv y) <= tol_rel lw * ess lw.
Definition default_n_ok (lw : list xlog) (n : nat) : Prop :=
  INR n <= ess lw + tol_rel lw * ess lw /\ ess lw - tol_rel lw * ess lw <= INR n + 1.
Definition probs_ok (lw : list xlog) (ps : list dyad) : Prop :=
  Forall2 (fun pr y => Rabs (pr - dyv y) <= tol_p lw pr) (probs lw) ps.
Definition keep_agrees (M : R) (l : xlog) (u : R) (b : bool) : Prop :=
  match l with
  | None => b = false
  | Some x =>
      if Req_EM_T u 0 then b = true
      else 0 < u /\
           (b = true -> - tol_margin (x - M) (ln u) <= (x - M) - ln u) /\
           (b = false -> (x - M) - ln u <= tol_margin (x - M) (ln u))
  end.
Fixpoint keeps_agree_from (k : nat) (M : R) (lw : list xlog) (us : list R) (idx : list nat) : Prop :=
  match lw, us with
  | [], [] => True
  | l :: rl, u :: ru => keep_agrees M l u (memb k idx) /\ keeps_agree_from (S k) M rl ru idx
  | _, _ => False
  end.
Definition rej_ok (lw : list xlog) (us : list R) (idx : list nat) : Prop :=
  exists M, xmaxo lw = Some M /\ keeps_agree_from 0 M lw us idx.

Definition P100 := mkprec 100.
Definition P200 := mkprec 200.
