(* Entry points evaluated with vm_compute by harness/c13.py. *)
From Coq Require Import ZArith List Bool.
From NessaiV Require Import Lib.Effects Model.C01_LiveSet Model.C13_Signal.
Import ListNotations.

Fixpoint mism_from {X} (chk : X -> bool) (k : nat) (l : list X) : list nat :=
  match l with
  | [] => []
  | x :: r => if chk x then mism_from chk (S k) r else k :: mism_from chk (S k) r
  end.
Definition mism {X} (chk : X -> bool) (l : list X) := mism_from chk 0 l.

(* model summary [a] against observed summary [b].  The shift `live[:i-1] = live[1:i]` is a no-op when
   the new point goes to position 0, so "live set changed" can only be compared one way:
   observed changed -> the model has shifted (or written).                                          *)
Definition obs_eqb (a b : obs_delta) : bool :=
  let '(a1, a2, a3, a4, a5, a6) := a in let '(b1, b2, b3, b4, b5, b6) := b in
  Bool.eqb a1 b1 && Bool.eqb a2 b2 && Bool.eqb a3 b3 && Bool.eqb a4 b4 && implb b5 (a5 || a6) && Bool.eqb a6 b6.

(* one injected signal: boundary k of the regenerated list (the statement before which the handler
   ran), what the checkpoint showed relative to the start of the iteration, and whether the resumed
   run ended in a valid result                                                                    *)
Definition icase := (nat * obs_delta * bool)%type.

(* the model's summary of the prefix = the observed checkpoint *)
Definition chk_delta (effs : list eff) (c : icase) : bool :=
  let '(k, o, _) := c in
  match delta effs k with Some a => obs_eqb (abs_obs a) o | None => false end.
(* the model's verdict = the observed verdict *)
Definition chk_verdict (effs : list eff) (c : icase) : bool :=
  let '(k, _, safe) := c in
  match classify effs k with Some b => Bool.eqb b safe | None => false end.
(* the classification applied to the OBSERVED checkpoint predicts the observed verdict
   (used for injections inside callees, which have no boundary of their own)       *)
Definition chk_obs_verdict (c : obs_delta * bool) : bool :=
  let '(o, safe) := c in Bool.eqb (obs_balanced o) safe.

Definition summary (effs : list eff) :=
  (unsafe_boundaries effs, unclassified effs, outside_known_window effs,
   filter (fun k => witness_ok effs k) (unsafe_boundaries effs)).
