(* Entry points evaluated with vm_compute by harness/c14.py. *)
From Coq Require Import String.
From Coq Require Import List ZArith Bool Arith.
Import ListNotations.
From NessaiV Require Import Model.C14_Repro.
Local Open Scope Z_scope.

(* a group of real runs that the theorems say must be equal: (reference digest, [(label index, digest)]);
   digests are 96-bit prefixes of SHA-256 over nested samples / weights / evidence / evaluation counts *)
Definition group_bad (g : Z * list (nat * Z)) : list nat :=
  let '(ref, ds) := g in map fst (filter (fun p => negb (snd p =? ref)) ds).
Definition groups_bad (gs : list (Z * list (nat * Z))) : list nat := flat_map group_bad gs.

(* entries of the regenerated table that the checker rejects (explanation output) *)
Definition rejected (allowed : list string) (t : list entry) : list nat :=
  map fst (filter (fun p => negb (entry_ok allowed (snd p))) (combine (seq 0 (length t)) t)).
