(* Entry points evaluated with vm_compute by harness/c04.py *)
From Coq Require Import List ZArith Bool Arith.
Import ListNotations.
From NessaiV Require Import Lib.ListOps Model.C04_Store.
Local Open Scope Z_scope.

(* snapshot after a call: keys, ids, log_q tags, live (None allowed), dead, returned n *)
Definition snap := (list Z * list nat * list nat * option (list nat) * list nat * nat)%type.
Definition snap_of (s : store) (n : nat) : snap :=
  (map key (rows s), map sid (rows s), lq s, live s, dead s, n).

Fixpoint trace (s : store) (ops : list op) : list (option snap) :=
  match ops with
  | [] => []
  | o :: r => match step s o with
              | None => [None]                      (* the call raises; the harness stops there too *)
              | Some (s', n) => Some (snap_of s' n) :: trace s' r
              end
  end.

Fixpoint nl_eqb (a b : list nat) : bool :=
  match a, b with [], [] => true | x :: a', y :: b' => (x =? y)%nat && nl_eqb a' b' | _, _ => false end.
Fixpoint zl_eqb (a b : list Z) : bool :=
  match a, b with [], [] => true | x :: a', y :: b' => (x =? y) && zl_eqb a' b' | _, _ => false end.
Definition onl_eqb (a b : option (list nat)) : bool :=
  match a, b with None, None => true | Some x, Some y => nl_eqb x y | _, _ => false end.
Definition snap_eqb (a b : snap) : bool :=
  let '(k1, i1, q1, l1, d1, n1) := a in
  let '(k2, i2, q2, l2, d2, n2) := b in
  zl_eqb k1 k2 && nl_eqb i1 i2 && nl_eqb q1 q2 && onl_eqb l1 l2 && nl_eqb d1 d2 && (n1 =? n2)%nat.
Definition osnap_eqb (a b : option snap) : bool :=
  match a, b with None, None => true | Some x, Some y => snap_eqb x y | _, _ => false end.
(* Where the model's call raises, the call is a misuse of the API (add before the initial samples, a strict add or a
   selective removal without a threshold, an empty soft batch, removal / finalise without live points): the property
   says nothing about it, so whatever the implementation does from there on is accepted HERE; its snapshots are still
   subject to the direct predicate of harness/c04.py, which does not use the model. *)
Fixpoint tr_eqb (a b : list (option snap)) : bool :=
  match a, b with
  | [], [] => true
  | None :: _, _ :: _ => true
  | Some x :: a', Some y :: b' => snap_eqb x y && tr_eqb a' b'
  | _, _ => false
  end.

Definition mkrow (k : Z) (i : nat) : srow * qrow := ({| key := k; sid := i |}, i).

(* (strict, replace_all, history, implementation's trace) *)
Definition chk_case (c : bool * bool * list op * list (option snap)) : bool :=
  let '(st, rp, ops, obs) := c in tr_eqb (trace (empty_store st rp) ops) obs.

Fixpoint mism_from {X} (chk : X -> bool) (k : nat) (l : list X) : list nat :=
  match l with
  | [] => []
  | x :: r => if chk x then mism_from chk (S k) r else k :: mism_from chk (S k) r
  end.
Definition mism {X} (chk : X -> bool) (l : list X) := mism_from chk 0%nat l.

(* numpy primitive validation: (list, value, numpy's searchsorted) ; (list, idx, vals, numpy's insert) ;
   (n, idx, numpy's inverse) *)
Definition chk_ss (c : list Z * Z * nat) : bool :=
  let '(l, v, r) := c in (first_ge (fun x => x) l v =? r)%nat.
Definition chk_insert (c : list nat * list nat * list nat * list nat) : bool :=
  let '(l, idx, vals, r) := c in nl_eqb (np_insert l idx vals) r.
Definition chk_inv (c : nat * list nat * list nat) : bool :=
  let '(n, idx, r) := c in nl_eqb (inverse_indices n idx) r.
