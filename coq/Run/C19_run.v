(* Entry points evaluated with vm_compute by harness/c19.py. *)
From Coq Require Import Ascii String.
From Coq Require Import List ZArith Bool Arith.
Import ListNotations.
From NessaiV Require Import Model.C19_Results.
Local Open Scope Z_scope.

Fixpoint jval_eqb (a b : jval) : bool :=
  match a, b with
  | JNull, JNull => true
  | JBool x, JBool y => Bool.eqb x y
  | JInt x, JInt y => x =? y
  | JFloat x, JFloat y => x =? y
  | JStr x, JStr y => String.eqb x y
  | JList l, JList l' =>
      (fix go (l l' : list jval) : bool :=
         match l, l' with
         | [], [] => true
         | x :: r, y :: r' => jval_eqb x y && go r r'
         | _, _ => false
         end) l l'
  | JDict d, JDict d' =>
      (fix go (d d' : list (string * jval)) : bool :=
         match d, d' with
         | [], [] => true
         | (k, x) :: r, (k', y) :: r' => String.eqb k k' && jval_eqb x y && go r r'
         | _, _ => false
         end) d d'
  | _, _ => false
  end.

Definition hval_eqb (a b : hval) : bool :=
  match a, b with
  | HStr x, HStr y => String.eqb x y
  | HNum k x, HNum k' y => akind_eqb k k' && (x =? y)
  | HArr s k d, HArr s' k' d' => shape_eqb s s' && akind_eqb k k' && zs_eqb d d'
  | HStruct f r, HStruct f' r' => fields_eqb f f' && all2 zs_eqb r r'
  | HStrs l, HStrs l' => all2 String.eqb l l'
  | _, _ => false
  end.

Definition path_eqb (a b : list string) : bool := all2 String.eqb a b.
Fixpoint lookup (p : list string) (f : hfile) : option hval :=
  match f with
  | [] => None
  | (q, h) :: r => if path_eqb p q then Some h else lookup p r
  end.
(* h5py lists the members of a group in name order: files are compared as maps *)
Definition hfile_eqb (a b : hfile) : bool :=
  (length a =? length b)%nat
  && forallb (fun e => match lookup (fst e) b with Some h => hval_eqb (snd e) h | None => false end) a.

(* (value, what json.load returned - None when save_to_json raised) *)
Definition chk_json (l : ladder) (c : tree * option jval) : bool :=
  match enc_json l (fst c), snd c with
  | Ok j, Some j' => jval_eqb j j'
  | Err, None => true
  | _, _ => false
  end.
(* (dictionary, datasets found in the file - None when save_dict_to_hdf5 raised) *)
Definition chk_h5 (sk : h5_sk) (c : list (string * tree) * option hfile) : bool :=
  match enc_h5 sk (fst c), snd c with
  | Ok f, Some f' => hfile_eqb f f'
  | Err, None => true
  | _, _ => false
  end.
(* results written by FlowSampler.save_results as JSON: the posterior goes through live_points_to_dict *)
Definition chk_result_json (l : ladder) (c : list (string * tree) * option jval) : bool :=
  chk_json l (TDict (prep_json (fst c)), snd c).

Definition writer_eqb (a b : writer) : bool :=
  match a, b with WJson, WJson | WHdf5, WHdf5 => true | _, _ => false end.
(* (stem, extension in the file name, extension argument, observed (writer, file written)) *)
Definition chk_ext (c : string * string * option string * option (writer * string)) : bool :=
  let '(stem, ext, arg, o) := c in
  match choose_writer stem ext arg, o with
  | Ok (w, f), Some (w', f') => writer_eqb w w' && String.eqb f f'
  | Err, None => true
  | _, _ => false
  end.

(* (path passed to save_results, extension argument, observed (writer, file written)) *)
Definition chk_ext_p (c : string * option string * option (writer * string)) : bool :=
  let '(fname, arg, o) := c in
  match choose_writer_p fname arg, o with
  | Ok (w, f), Some (w', f') => writer_eqb w w' && String.eqb f f'
  | Err, None => true
  | _, _ => false
  end.

Fixpoint mism_from {X} (chk : X -> bool) (k : nat) (l : list X) : list nat :=
  match l with
  | [] => []
  | x :: r => if chk x then mism_from chk (S k) r else k :: mism_from chk (S k) r
  end.
Definition mism {X} (chk : X -> bool) (l : list X) := mism_from chk 0 l.
