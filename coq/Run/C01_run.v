(* Entry points evaluated with vm_compute by harness/c01.py: the model is run on the same proposal
   stream as the real NestedSampler and compared with what the implementation produced.        *)
From Coq Require Import ZArith List Bool.
From NessaiV Require Import Lib.Effects Model.C01_LiveSet.
Import ListNotations.

Fixpoint mism_from {X} (chk : X -> bool) (k : nat) (l : list X) : list nat :=
  match l with
  | [] => []
  | x :: r => if chk x then mism_from chk (S k) r else k :: mism_from chk (S k) r
  end.
Definition mism {X} (chk : X -> bool) (l : list X) := mism_from chk 0 l.

Fixpoint zlist_eqb (a b : list Z) : bool :=
  match a, b with
  | [], [] => true
  | x :: a', y :: b' => (x =? y)%Z && zlist_eqb a' b'
  | _, _ => false
  end.
Fixpoint nlist_eqb (a b : list nat) : bool :=
  match a, b with
  | [], [] => true
  | x :: a', y :: b' => (x =? y)%nat && nlist_eqb a' b'
  | _, _ => false
  end.

(* compact constructor for one element of the proposal stream *)
Definition Dr (id k : Z) (okp finp nanl inb : bool) (ek : Z) (pop : bool) : draw :=
  (mkpt id k 0 okp finp nanl inb, ek, pop).

(* a live point as the harness reports it: (id, key, it) *)
Definition lp := (Z * Z * nat)%type.
Fixpoint lp_eqb (a b : list lp) : bool :=
  match a, b with
  | [], [] => true
  | (i, k, t) :: a', (j, l, u) :: b' => (i =? j)%Z && (k =? l)%Z && (t =? u)%nat && lp_eqb a' b'
  | _, _ => false
  end.
Definition view (l : list pt) : list lp := map (fun p => (pid p, key p, pit p)) l.

(* what the implementation showed after one consume_sample:
   removed id, accepted id, returned index, live points after, rejected, evaluations, dead ids *)
Definition ostep := (Z * Z * nat * list lp * nat * nat * list Z)%type.

Definition chk_step (s : state) (o : ostep) : bool :=
  let '(rem, new, idx, lv, rj, ev, dd) := o in
  (last (map pid (dead s)) (-1)%Z =? rem)%Z
  && (last (idxs s) 0 =? idx)%nat
  && (pid (nth idx (live s) (mkpt (-1) 0 0 false false false false)) =? new)%Z
  && lp_eqb (view (live s)) lv
  && (rej s =? rj)%nat && (evals s =? ev)%nat
  && zlist_eqb (map pid (dead s)) dd
  && (length (idxs s) =? iter s)%nat && (length (dead s) =? iter s)%nat.

Fixpoint chk_steps (s : state) (ds : list draw) (os : list ostep) : option (state * list draw) :=
  match os with
  | [] => Some (s, ds)
  | o :: r =>
      match step s ds with
      | None => None
      | Some (s', ds') => if chk_step s' o then chk_steps s' ds' r else None
      end
  end.

(* final observation after finalise: dead ids, state.logLs keys, state.nlive *)
Definition ofinal := (list Z * list Z * list nat)%type.

(* a scripted case:
   n, stream, observed init (live, evals, stream position) or None when the stream ran out
   during populate, observed steps, "the stream ran out in the next consume_sample", final *)
Definition scase := (nat * list draw * option (list lp * nat * nat) * list ostep * bool * option ofinal)%type.

Definition chk_scripted (c : scase) : bool :=
  let '(n, stream, oi, os, exhausted, ofin) := c in
  match init n stream, oi with
  | None, None => true
  | Some (s0, r0), Some (lv, ev, pos) =>
      lp_eqb (view (live s0)) lv && (evals s0 =? ev)%nat
      && (length stream - length r0 =? pos)%nat
      && match chk_steps s0 r0 os with
         | None => false
         | Some (s, r) =>
             (if exhausted then match step s r with None => true | Some _ => false end else true)
             && match ofin with
                | None => true
                | Some (dd, ll, nl) =>
                    let f := finalise s in
                    zlist_eqb (map pid (dead f)) dd && zlist_eqb (logLs f) ll && nlist_eqb (nls f) nl
                    && (length (live f) =? 0)%nat
                end
         end
  | _, _ => false
  end.

(* the model's invariant (boolean form) along the model run of a scripted case: used to
   cross-check the theorem on concrete data (every intermediate state satisfies inv_b)   *)
Fixpoint inv_along (k : nat) (s : state) (ds : list draw) : bool :=
  inv_b s && match k with
             | O => true
             | S k' => match step s ds with None => true | Some (s', r) => inv_along k' s' r end
             end.
Definition chk_inv (c : scase) : bool :=
  let '(n, stream, _, os, _, _) := c in
  match init n stream with
  | None => true
  | Some (s0, r0) => inv_along (length os) s0 r0
  end.

(* ---- a traced real run ----------------------------------------------------------------- *)
(* events: (stream position after the iteration, removed id, index, new id, live after (if sampled)) *)
Definition revent := (nat * Z * nat * Z * option (list lp))%type.

Fixpoint chk_events (total : nat) (s : state) (ds : list draw) (evs : list revent) : option state :=
  match evs with
  | [] => Some s
  | (pos, rem, idx, new, olv) :: r =>
      match step s ds with
      | None => None
      | Some (s', ds') =>
          if (total - length ds' =? pos)%nat
             && (last (map pid (dead s')) (-1)%Z =? rem)%Z
             && (last (idxs s') 0 =? idx)%nat
             && (pid (nth idx (live s') (mkpt (-1) 0 0 false false false false)) =? new)%Z
             (* full live set and the (quadratic) boolean invariant at the sampled iterations;
                sortedness, size and counts at every iteration                                    *)
             && match olv with None => true | Some lv => lp_eqb (view (live s')) lv && inv_b s' end
             && sortedb (map key (live s')) && (length (live s') =? nlive s')%nat
             && (length (dead s') =? iter s')%nat && (length (idxs s') =? iter s')%nat
          then chk_events total s' ds' r else None
      end
  end.

(* n, stream, live after populate, stream position after populate, events,
   finalised?, final dead ids, final idxs, final logLs keys, final nls *)
Definition rcase := (nat * list draw * list lp * nat * list revent * bool * list Z * list nat * list Z * list nat)%type.

Definition chk_real (c : rcase) : bool :=
  let '(n, stream, lv0, pos0, evs, fin, dd, ii, ll, nl) := c in
  match init n stream with
  | None => false
  | Some (s0, r0) =>
      lp_eqb (view (live s0)) lv0 && (length stream - length r0 =? pos0)%nat
      && match chk_events (length stream) s0 r0 evs with
         | None => false
         | Some s =>
             let f := if fin then finalise s else s in
             zlist_eqb (map pid (dead f)) dd && nlist_eqb (idxs f) ii
             && zlist_eqb (logLs f) ll && nlist_eqb (nls f) nl
         end
  end.

(* first failing step of a scripted case, for the diagnostics in the evidence (0 = init) *)
Fixpoint first_bad (k : nat) (s : state) (ds : list draw) (os : list ostep) : nat :=
  match os with
  | [] => 0
  | o :: r => match step s ds with
              | None => k
              | Some (s', ds') => if chk_step s' o then first_bad (S k) s' ds' r else k
              end
  end.
