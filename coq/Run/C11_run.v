(* Entry points evaluated with vm_compute by harness/c11.py. *)
From Coq Require Import List Arith Bool.
Import ListNotations.
From NessaiV Require Import Lib.FSModel Model.C11_Checkpoint.

Fixpoint mism_from {X} (chk : X -> bool) (k : nat) (l : list X) : list nat :=
  match l with
  | [] => []
  | x :: r => if chk x then mism_from chk (S k) r else k :: mism_from chk (S k) r
  end.
Definition mism {X} (chk : X -> bool) (l : list X) := mism_from chk 0 l.

Definition acontent_eqb (a b : acontent payload) : bool :=
  match a, b with
  | Absent, Absent => true
  | Bad, Bad => true
  | Whole p, Whole q => payload_eqb p q
  | _, _ => false
  end.

Definition mkview (l : list (fname * acontent payload)) : fview := set_all empty_fs l.

(* file-system events the model predicts for an uncrashed execution (existence probes left out) *)
(* PUnknown: a file-system event the model has no operation for (e.g. os.remove inside a writer): it never
   equals a predicted event, so the comparison is decided (a mismatch) instead of failing to type-check *)
Inductive prim := PMove (a b : fname) | POpen (f : fname) | PWrite | PClose | PUnknown.
Definition prim_eqb (x y : prim) : bool :=
  match x, y with
  | PMove a b, PMove c d => fname_eqb a c && fname_eqb b d
  | POpen f, POpen g => fname_eqb f g
  | PWrite, PWrite => true
  | PClose, PClose => true
  | _, _ => false
  end.
Fixpoint trace (a : fstate) (ops : list op) : list prim :=
  match ops with
  | [] => []
  | o :: r =>
      (match o with
       | MoveIfExists x y => if aexists (afs a) x then [PMove x y] else []
       | Move x y => [PMove x y]
       | Open f => [POpen f]
       | Write _ => [PWrite]
       | Close => [PClose]
       end) ++ trace (astep a o) r
  end.
Fixpoint prims_eqb (a b : list prim) : bool :=
  match a, b with
  | [], [] => true
  | x :: a', y :: b' => prim_eqb x y && prims_eqb a' b'
  | _, _ => false
  end.

(* (initial directory, op list, observed events of the uncrashed run) *)
Definition chk_trace (c : list (fname * acontent payload) * list op * list prim) : bool :=
  let '(init, ops, obs) := c in prims_eqb (trace (closed (mkview init)) ops) obs.

(* (initial directory, op list, names compared, directory found after the kill):
   the directory the real kill left is one of the model's crash states *)
Definition chk_state (c : list (fname * acontent payload) * list op * list fname
                          * list (fname * acontent payload)) : bool :=
  let '(init, ops, names, post) := c in
  existsb (fun v => forallb (fun f => acontent_eqb (v f) (mkview post f)) names)
          (crash_states (closed (mkview init)) ops).

(* (directory found after the kill, what the real FlowSampler(resume=True) did):
   the real outcome is one of the model reader's possible outcomes *)
Definition chk_outcome (rc : rcfg) (c : list (fname * acontent payload) * outcome) : bool :=
  let '(post, o) := c in omem o (resume rc (mkview post)).

(* the checker's verdict on exactly this real initial directory (atomicity w.r.t. the reader) *)
Definition chk_atomic (rc : rcfg) (c : list (fname * acontent payload) * list op) : bool :=
  let '(init, ops) := c in atomic_safe rc (closed (mkview init)) ops.
