(* Entry points evaluated with vm_compute by harness/c18.py. *)
From Coq Require Import String.
From Coq Require Import List ZArith Bool Arith.
Import ListNotations.
From NessaiV Require Import Model.C18_Livepoint.

Definition f := VF.
Definition i := VI.

(* what the harness observed of one call of the real code *)
Inductive obs :=
| OArr (names : list string) (kinds : list kind) (rows : list (list val))   (* structured array / frame *)
| OMat (m : list (list val))                                                (* plain 2-d array *)
| ODict (d : list (string * list val))
| OErr.

Fixpoint list_eqb {A} (e : A -> A -> bool) (a b : list A) : bool :=
  match a, b with
  | [], [] => true
  | x :: a', y :: b' => e x y && list_eqb e a' b'
  | _, _ => false
  end.
Definition mat_eqb := list_eqb (list_eqb val_eqb).
Definition obs_eqb (a b : obs) : bool :=
  match a, b with
  | OArr n k r, OArr n' k' r' => list_eqb String.eqb n n' && list_eqb kind_eqb k k' && mat_eqb r r'
  | OMat m, OMat m' => mat_eqb m m'
  | ODict d, ODict d' =>
      list_eqb (fun p q => String.eqb (fst p) (fst q) && list_eqb val_eqb (snd p) (snd q)) d d'
  | OErr, OErr => true
  | _, _ => false
  end.

Definition of_sarr (r : res sarr) : obs :=
  match r with Ok x => OArr (s_names x) (s_kinds x) (s_rows x) | Err => OErr end.
Definition of_mat (r : res (list (list val))) : obs := match r with Ok m => OMat m | Err => OErr end.
Definition of_dict (r : res (list (string * list val))) : obs := match r with Ok d => ODict d | Err => OErr end.
Definition of_frame (r : res (list string * list (list val))) : obs :=
  match r with Ok (c, m) => OArr c [] m | Err => OErr end.
Definition bind {A B} (r : res A) (g : A -> res B) : res B := match r with Ok a => g a | Err => Err end.


Record ccase := {
  c_hist : list rop;                 (* registry history before the conversions *)
  c_names : list string;
  c_nsp : bool;
  c_data : list (list val);          (* n rows of len(names) values *)
  c_dx : list (string * dval);       (* an extra dictionary (broadcast / malformed stream) *)
  c_vnames : list string;            (* names for the generic unstructured_view *)
  c_qnames : list string;            (* names (any order / subset of the f8 fields) for live_points_to_array *)
  c_dnames : list string;            (* names (any order / subset of all fields) for live_points_to_dict *)
  c_fields : list (string * kind);   (* caller-supplied dtype (fields in any order) for empty_structured_array *)
  c_uniq : list obs;                 (* distinct observations of the implementation *)
  c_refs : list (nat * nat)          (* (converter id, index into c_uniq) *)
}.

Definition zi (z : Z) : val := VI z.
Definition meta (x : sarr) : obs :=
  OMat [[zi (itemsize (s_kinds x))]; map zi (offsets (s_kinds x)); [zi 0; zi (itemsize (s_kinds x)); zi 8]].

(* the model's prediction for converter `cid` *)
Definition predict_v (len : bool) (v : nsview) (c : ccase) (cid : nat) : obs :=
  let names := c_names c in
  let nsp := c_nsp c in
  let a := c_data c in
  let n := length a in
  let X := np_to_lp a names nsp v in
  let cols := columns (length names) a in
  match cid with
  | 0 | 1 => of_sarr X
  | 2 | 3 => of_sarr (empty_sa n names nsp v)
  | 4 => of_sarr (params_to_lp (hd [] a) names nsp v)
  | 5 => of_sarr (df_to_lp (names, a) nsp v)
  | 6 | 7 => of_sarr (dict_to_lp len (combine names (map DSeq cols)) nsp v)
  | 8 => of_sarr (dict_to_lp len (combine names (map DScalar (hd [] a))) nsp v)
  | 9 => of_sarr (dict_to_lp len (c_dx c) nsp v)
  | 10 | 11 => of_mat (bind X (fun x => lp_to_array x names))
  | 12 => of_dict (bind X (fun x => lp_to_dict x names))
  | 13 => of_dict (bind X (fun x => lp_to_dict x (s_names x)))
  | 14 => of_frame (bind X (fun x => lp_to_df x names))
  | 15 => of_sarr (bind X (fun x => bind (lp_to_dict x names) (fun d =>
                     dict_to_lp len (map (fun p => (fst p, DSeq (snd p))) d) nsp v)))
  | 16 => of_sarr (bind X (fun x => bind (lp_to_array x names) (fun m => np_to_lp m names nsp v)))
  | 17 => of_sarr (bind X (fun x => bind (lp_to_df x names) (fun d => df_to_lp d nsp v)))
  | 18 | 19 => of_mat (bind X (fun x => unstructured_view x names))
  | 20 => of_mat (bind X (fun x => unstructured_view x (c_vnames c)))
  | 21 => match X with Ok x => meta x | Err => OErr end
  | 22 | 23 => of_mat (bind X (fun x => lp_to_array x (c_qnames c)))
  | 24 => of_dict (bind X (fun x => lp_to_dict x (c_dnames c)))
  | 25 => of_sarr (empty_sa_dtype n (c_fields c) v)
  | 26 => of_mat (bind X lp_to_array_all)
  | 27 => of_mat (bind X (fun x => unstructured_view x names))
  | _ => OErr
  end.

Definition predict (len : bool) (sk : cfg_sk) (c : ccase) (cid : nat) : obs :=
  predict_v len (view_of sk (run sk (c_hist c) reg0)) c cid.

(* a dictionary holding one point as length-1 sequences (also lp -> dict -> lp of a one-point
   array): today's code raises (known finding), a repaired tree returns the array; both are
   accepted here, the direct predicate reports the former *)
Definition accept (sk : cfg_sk) (c : ccase) (cid : nat) (o : obs) : bool :=
  obs_eqb (predict false sk c cid) o || obs_eqb (predict true sk c cid) o.

(* returns 64 * case index + converter id for every disagreement *)
Fixpoint mism_conv (sk : cfg_sk) (k : nat) (l : list ccase) : list nat :=
  match l with
  | [] => []
  | c :: r =>
      map (fun p => 64 * k + fst p)
          (filter (fun p => negb (accept sk c (fst p) (nth (snd p) (c_uniq c) OErr))) (c_refs c))
      ++ mism_conv sk (S k) r
  end.

(* staged cases: after EVERY operation of the history all converters are called again for the same
   names and data (the converters read the registry, which fills its caches: RRead afterwards) *)
Fixpoint staged_bad (sk : cfg_sk) (c : ccase) (r : reg) (k : nat)
         (steps : list (rop * list obs * list (nat * nat))) : list nat :=
  match steps with
  | [] => []
  | (o, uniq, refs) :: rest =>
      let r1 := step sk r o in
      let v := view_of sk r1 in
      map (fun p => 64 * k + fst p)
          (filter (fun p => negb (obs_eqb (predict_v false v c (fst p)) (nth (snd p) uniq OErr)
                                  || obs_eqb (predict_v true v c (fst p)) (nth (snd p) uniq OErr))) refs)
      ++ staged_bad sk c (read sk r1) (S k) rest
  end.
Definition chk_staged (sk : cfg_sk) (c : ccase * list (rop * list obs * list (nat * nat))) : bool :=
  match staged_bad sk (fst c) reg0 0 (snd c) with [] => true | _ => false end.

(* registry histories: the three visible lists at every RRead *)
Fixpoint probes (sk : cfg_sk) (ops : list rop) (r : reg) : list (list string * list val * list kind) :=
  match ops with
  | [] => []
  | o :: rest =>
      let r' := step sk r o in
      match o with
      | RRead => (vis_names sk r, vis_defs sk r, vis_kinds sk r) :: probes sk rest r'
      | _ => probes sk rest r'
      end
  end.
Definition probe_eqb (a b : list string * list val * list kind) : bool :=
  let '(n, d, k) := a in let '(n', d', k') := b in
  list_eqb String.eqb n n' && list_eqb val_eqb d d' && list_eqb kind_eqb k k'.
Definition chk_hist (sk : cfg_sk) (c : list rop * list (list string * list val * list kind)) : bool :=
  list_eqb probe_eqb (probes sk (fst c) reg0) (snd c).

Fixpoint mism_from {X} (chk : X -> bool) (k : nat) (l : list X) : list nat :=
  match l with
  | [] => []
  | x :: r => if chk x then mism_from chk (S k) r else k :: mism_from chk (S k) r
  end.
Definition mism {X} (chk : X -> bool) (l : list X) := mism_from chk 0 l.
