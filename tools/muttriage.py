#!/usr/bin/env python3
"""Triage of the mutants that survive the pinned tests AND are not reported by the check (tools/mutsweep.py).
Each rule: (property, regex on "<function>: <operator> | <source line>", class, reason).  Classes:
  equivalent   - the mutant computes the same thing (commutative arguments, 1-d special case, ...)
  outside      - the behaviour changes but no clause of the property speaks about it (diagnostics, timers, plots, logging,
                 the method's free choice, validation of arguments the property excludes)
  fixed        - a genuine miss at the time of the sweep; the check was strengthened and now reports it
Unmatched survivors are printed as UNTRIAGED."""
import glob
import json
import os
import re
import sys

V = os.path.dirname(os.path.dirname(os.path.abspath(__file__)))

GENERIC = [
    (r"_time \+= |_time\b.*datetime|datetime\.datetime\.now", "outside", "wall-clock statistics"),
    (r"self\.history\[|history\[", "outside", "diagnostic history entries"),
    (r"plot|os\.makedirs|filename=", "outside", "plotting"),
    (r"logger\.|warnings\.", "outside", "logging"),
    (r"_current_proposal_entropy|live_points_ess|leakage", "outside", "diagnostics"),
]
RULES = {
    "C17": [
        (r"logW.*[+-] samples\[.logL.\]|log_weights = samples", "outside", "which weights the method ranks is the method's free choice; the property constrains the clamp"),
        (r"argmax\((a|cdf) >", "outside", "the method's own choice n is unconstrained beyond being an index"),
        (r"swap first two arguments of (max|min)", "equivalent", "max / min are commutative"),
        (r"replace_all|weights = -np\.exp", "outside", "training weights, not the threshold"),
        (r"return 0", "outside", "reached only for min_remove < 1, which the property excludes"),
        (r"cdf\.sum\(\) == 0|cdf = np\.arange", "outside", "all-zero weights: degenerate, any index satisfies the property"),
        (r"drop \.copy\(\)", "outside", "aliasing of the training arrays; no clause of C17 (the arrays are only read by training)"),
        (r"weighted_quantile\(va|swap first two arguments of weighted_quantile", "fixed", "swapped arguments make the method raise: a raising method was silently skipped; now C17:method-raised"),
        (r"np\.all\(quantiles", "outside", "validation of the quantile argument"),
        (r"log_weights = log_weights\[idx\]|if not values_sorted", "fixed", "unsorted input path never exercised; now permuted (value, weight) pairs must give the same quantile"),
        (r"quantiles = np\.asarray|out=end_points|expand_dims", "equivalent", "same result for array input / one column / 1-d values"),
    ],
    "C01": [
        (r"oldparam = newparam\.copy\(\)", "equivalent", "insert_live_point copies the values into the live array; the alias is never written"),
        (r"block_iteration|debug_enabled", "outside", "block statistics / debug logging"),
        (r"while i < self\.nlive", "equivalent", "the inner loop has the same guard"),
        (r"swap first two arguments of max", "equivalent", "max is commutative"),
    ],
    "C18": [
        (r"names = list\(live_points\.dtype\.names\)", "fixed", "no case called a converter with names=None (the default); default-argument calls added"),
        (r"default_values = tuple|if n == 0|N = 1|scalars = True", "equivalent", "same outputs (tuple vs list, the n = 0 fast path, the scalar-dict branch)"),
    ],
    "C09": [
        (r"min_log_q = None|np\.empty\(0\)|log_weights - log_constant\) > log_u|r > self\.max_radius|r < self\.min_radius", "equivalent",
         "same behaviour except on a measure-zero boundary / an unused initial value"),
        (r"if self\.indices", "outside", "warning about a pool that is being replaced"),
        (r"worst_point = self\.training_data", "outside", "which radius is chosen is free; the pool is the prior inside whatever contour was chosen"),
    ],
    "C15": [
        (r"checkpoint\(|self\.checkpointing", "outside", "checkpointing inside the loop is C11 / C12 / C13's subject"),
        (r"self\.importance = |self\.log_state\(\)", "outside", "diagnostics"),
        (r"self\.n_update\]", "outside", "the n_update path (an open C20 finding: such runs do not stop) is not exercised"),
        (r"train = True", "outside", "when the proposal is retrained, not when the run stops"),
    ],
    "C16": [
        (r"np\.asarray\(", "equivalent", "the harness passes arrays; asarray is the identity on them"),
        (r"np\.where\(log_w > log_u\)\[0\]", "equivalent", "np.where returns a 1-tuple: [-1] is [0]"),
    ],
    "C02": [
        (r"nlive\.copy\(\)|samples = np\.asarray", "equivalent", "the array is only read afterwards / asarray is the identity on arrays"),
        (r"self\.gradients\.append", "outside", "gradients are a plotting diagnostic"),
        (r"swap first two arguments of logaddexp", "equivalent", "logaddexp is commutative"),
        (r"increment: (Sub->Add|Add->Sub) \| info = ", "outside", "the information H belongs to the uncertainty, which C05 recomputes (C05_recompute_std_err); C02 speaks of log Z, volumes and weights"),
        (r"logsubexp: Lt->LtE", "equivalent", "x = y would need two equal consecutive log-volumes; they decrease strictly for every representable nlive"),
    ],
    "C05": [
        (r"debug_enabled", "outside", "debug logging"),
        (r'd\["(final_ks_statistic|final_p_value|insertion_indices|information|training_time|population_time)"\]', "outside",
         "diagnostic entries of the result dictionary; the property names evidence, uncertainty, weights and samples"),
        (r"self\.live_points = None", "outside", "the live points were already appended to the nested samples; no clause of C05 reads the attribute afterwards"),
        (r"effective_n_posterior_samples", "outside", "the effective sample size is C16's clause (its check exercises the state classes since round 3); C05 recomputes evidence, uncertainty and weights"),
    ],
    "C10": [
        (r"check_vectorised_function", "outside", "how vectorisation is detected; whichever branch is then taken returns the pointwise values"),
    ],
    "C03": [
        (r"get_subset_arrays\(", "fixed", "samples rejected for leaving the unit hypercube were kept, but every test prior was -inf outside the bounds and hid them; now a prior that does not test the bounds (model nocheck, reparameterisation None)"),
        (r"while n_accepted < n and n_draw|np\.empty\(\[0|n_flows >= 1|np\.isclose\(w_sum", "equivalent", "same behaviour on every reachable input"),
        (r"np\.isnan\(x_prime\)|np\.isfinite\(x_prime\)\.all\(\)|np\.isnan\(log_Q\)", "outside", "warnings / defensive raises on NaN input"),
        (r"accept = \(|acc = \(", "outside", "acceptance masks differ only on rows with non-finite coordinates / densities, which the flows do not produce"),
        (r"batch_evaluate_log_prior\(", "outside", "the stored logP of a new sample is only tested for finiteness here; C03 constrains logU, logQ, logW"),
        (r"log_q\.shape\[1\] == self\.n_proposals", "outside", "guard against updating twice"),
        (r"\[.it.\] = self\.iteration", "outside", "the `it` label of a sample is not read by the density bookkeeping"),
        (r"new_points\[.logL.\]", "outside", "warnings about non-finite likelihoods"),
        (r"add_new_proposal_weight: const", "outside", "guard on an impossible count"),
    ],
}


def classify(pid, text):
    for rx, cls, why in RULES.get(pid, []) + GENERIC:
        if re.search(rx, text):
            return cls, why
    return "UNTRIAGED", ""


def load():
    rows = []
    for f in sorted(glob.glob(os.path.join(V, "mutants", "C*.json"))):
        pid = os.path.basename(f).split("_")[0]
        for blk in json.load(open(f)):
            res = blk["results"]
            surv = [r for r in res if r["tests"] == "pass"]
            nr = [r for r in surv if r["check"] == "NOT REPORTED"]
            tri = [(r, *classify(pid, f"{r['desc']} | {r['src']}")) for r in nr]
            rows.append({"pid": pid, "file": blk["file"], "funcs": blk["funcs"], "n": len(res), "killed": len(res) - len(surv),
                         "survive": len(surv), "reported": sum(1 for r in surv if r["check"].startswith("caught")),
                         "with_input": sum(1 for r in surv if r["check"] == "caught with failing input"),
                         "timeouts": sum(1 for r in surv if "timed out" in r["check"]), "not_reported": tri})
    return rows


if __name__ == "__main__":
    for row in load():
        c = {}
        for _, cls, _ in row["not_reported"]:
            c[cls] = c.get(cls, 0) + 1
        print(f"{row['pid']} {row['file']} [{row['funcs'][:60]}]: {row['n']} mutants, {row['killed']} killed by tests, "
              f"{row['reported']}/{row['survive']} survivors reported; not reported: {c}")
        for r, cls, why in row["not_reported"]:
            if cls == "UNTRIAGED" or "-v" in sys.argv:
                print(f"   {cls:10s} L{r['line']} {r['desc'][:50]} | {r['src'][:80]}")
