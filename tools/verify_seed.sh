#!/bin/bash
# tools/verify_seed.sh <worktree> <seed-name> <PID> [full]
# Confirms a seeded change: patch applies; demo passes without / fails with; (full: whole pinned suite passes);
# then runs ./check PID against the patched worktree (never /repo).
WT="$1"; NAME="$2"; PID="$3"; FULL="$4"
S="$WT/seeded/$NAME"
cd "$WT" || exit 2
git checkout -q -- nessai
echo "--- demo on unchanged tree"; PYTHONPATH="$WT" timeout 300 /venv/bin/python "$S/demo.py" 2>&1 | grep -v "WARNING conda" | tail -3; echo "exit=${PIPESTATUS[0]}"
git apply "$S/patch.diff" || { echo "PATCH DOES NOT APPLY"; exit 2; }
echo "--- demo on changed tree"; PYTHONPATH="$WT" timeout 300 /venv/bin/python "$S/demo.py" 2>&1 | grep -v "WARNING conda" | tail -4; echo "exit=${PIPESTATUS[0]}"
if [ "$FULL" = "full" ]; then
  echo "--- pinned suite on changed tree"
  PYTHONPATH="$WT" timeout 1500 /venv/bin/python -m pytest -q -p no:cacheprovider --timeout=900 --continue-on-collection-errors -p no:randomly 2>&1 | grep -v "WARNING conda" | tail -4
fi
echo "--- ./check $PID (quick) on changed tree"
cd /verif && NESSAI_REPO="$WT" ./check "$PID" --tier quick 2>&1 | grep -E "VIOLATION|KNOWN-FINDING|obligations|broken obligation" | cut -c1-260 | grep -v "^KNOWN-FINDING" | head -12
cd "$WT" && git checkout -q -- nessai
