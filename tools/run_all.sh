#!/bin/bash
# tools/run_all.sh [tier] : every enabled check, three lanes in parallel; prints one line per check
TIER="${1:-quick}"; cd /verif; mkdir -p build/all
run_lane(){ for p in "$@"; do /usr/bin/time -f "%e s" ./check $p --tier $TIER > build/all/$p.log 2>&1; echo "$p rc=$? $(grep -c '^KNOWN' build/all/$p.log) known  $(grep -E "^$p $TIER" build/all/$p.log | cut -c1-160)"; done; }
ALL=($(cat manifest.d/ENABLED))
L1=(); L2=(); L3=(); i=0
for p in "${ALL[@]}"; do case $((i%3)) in 0) L1+=($p);; 1) L2+=($p);; 2) L3+=($p);; esac; i=$((i+1)); done
run_lane "${L1[@]}" & run_lane "${L2[@]}" & run_lane "${L3[@]}" & wait
