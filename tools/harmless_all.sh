#!/bin/bash
# runs every property-preserving refactor under tools/harmless/ (file name = <pid>_<what>.py) against its check; the check must stay quiet
cd /verif
echo "{" > /tmp/harmless_results.json
first=1
for f in tools/harmless/c*.py; do
  b=$(basename "$f"); pid=$(echo "${b%%_*}" | tr c C)
  out=$(tools/harmless.sh "$pid" "$b" 2>&1 | grep -v conda)
  v="quiet"; echo "$out" | grep -q "^VIOLATION" && v="ALARM"; echo "$out" | grep -q "DID NOT APPLY" && v="refactor did not apply"
  doc=$(python3 -c "import ast,sys; print((ast.get_docstring(ast.parse(open('$f').read())) or '').replace('\"','\\\\\"'))")
  [ $first -eq 1 ] || echo "," >> /tmp/harmless_results.json; first=0
  echo "\"$b\": {\"property\": \"$pid\", \"what\": \"$doc\", \"verdict\": \"$v\", \"summary\": \"$(echo "$out" | grep 'obligations,' | head -1 | cut -c1-120)\"}" >> /tmp/harmless_results.json
  echo "$b: $v"
done
echo "}" >> /tmp/harmless_results.json
python3 -c "import json; d=json.load(open('/tmp/harmless_results.json')); json.dump(d, open('/verif/tools/harmless/results.json','w'), indent=1)"
rm -f /tmp/harmless_results.json
