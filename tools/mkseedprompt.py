#!/usr/bin/env python3
"""tools/mkseedprompt.py <round> : writes /tmp/seed<round>_prompt_<id>.txt for every claimed property.
The prompt gives a fresh sub-agent ONLY the property text, its own scratch worktree and the list of mechanisms already used."""
import glob, json, os, sys
V = os.path.dirname(os.path.dirname(os.path.abspath(__file__)))
rnd = sys.argv[1]
props = [json.loads(l) for l in open(os.path.join(V, "properties.jsonl"))]
enabled = open(os.path.join(V, "manifest.d/ENABLED")).read().split()
for p in props:
    pid = p["id"]
    if pid not in enabled:
        continue
    low = pid.lower()
    wt = f"/tmp/wt{rnd}-{low}"
    prev = []
    for d in sorted(glob.glob(os.path.join(V, "seeded", pid + "-*"))):
        m = json.load(open(os.path.join(d, "meta.json")))
        prev.append(f"- {os.path.basename(d)[len(pid) + 1:]}: {str(m.get('summary', ''))[:330]} (files: {m.get('files_changed')})")
    text = f"""You are testing how well a verification effort detects realistic regressions in the Python library nessai (nested sampling with normalising flows). You work ONLY inside your own scratch git worktree of the library at {wt} (a full checkout; the package is {wt}/nessai, tests are {wt}/tests). Do not read or touch /verif or /repo. Run python as `cd {wt} && PYTHONPATH={wt} /venv/bin/python ...` (this makes `import nessai` resolve to your worktree; every command prints a harmless "WARNING conda" line). The pinned test suite is run with `cd {wt} && PYTHONPATH={wt} /venv/bin/python -m pytest -q -p no:cacheprovider --timeout=900 -x <paths>`; the full suite takes ~3 minutes (2 tests in tests/test_plot.py::test_corner_plot_w_include_and_truths always fail - ignore them; because of those two failures the pytest-integration plugin skips the integration-marked tests in a full run, so also run the integration tests relevant to your change separately with `--with-integration --with-slow-integration` on the relevant test files).

Here is one semantic property the library is supposed to satisfy (JSON, with code anchors):

{json.dumps(p, indent=1)}

{len(prev)} changes were already produced for this property by others; do NOT repeat their mechanisms, and prefer other functions / other clauses of the property statement / other parts of the quantifier than the ones they touched:
""" + "\n".join(prev) + f"""

Task: produce TWO different, independent source changes to the library (not to the tests), each of which BREAKS this property while the package still imports and the existing test suite still passes unchanged. Each change should be the kind of thing a developer could plausibly introduce (a refactor slip, an "optimisation", an off-by-one, a wrong operator, a changed default, a caching layer, an API modernisation, two edits that each look fine alone) - not sabotage with an obviously weird condition - and should need something specific to manifest: an unusual but legitimate input, a boundary or tie case, a multi-step sequence of operations, a particular configuration, or two cooperating sites; NOT something that any ordinary use would expose at once. The two changes should break the property through different mechanisms / different functions where possible. Look especially at corners of the quantifier ("{p['quantifier']['text'][:300]}") that the earlier changes did not use.

For each change deliver, under {wt}/seeded/<short-name>/ :
  patch.diff   - `git -C {wt} diff` of the library change only (relative to HEAD), applying cleanly with `git apply`
  demo.py      - a small self-contained program (uses the real library code, no mocks of the code under test) that exits 1 and prints what went wrong when run against the changed library and exits 0 against the unchanged library; it should exercise the property from the outside (public functions / classes named in the anchors), state the expected behaviour from the property text, finish within a minute, and clean up any temporary directories it creates
  meta.json    - {{"property": "<id>", "summary": "...", "needs_to_manifest": "...", "files_changed": [...], "tests_run": "<the pytest command(s) you ran and the result>"}}
Work on one change at a time: make it, run the relevant test files (and the full suite once per change if you can afford it), write demo.py, verify demo fails with the change and passes without (`git stash` / `git checkout -- nessai` to switch), save the three files, then `git checkout -- nessai` before starting the next change. Leave the worktree with NO modifications to tracked files at the end (only the new seeded/ directory) and leave nothing else behind under /tmp. Reply with a short summary of the two changes (what, why it escapes the tests, how the demo shows it).
"""
    open(f"/tmp/seed{rnd}_prompt_{low}.txt", "w").write(text)
    print(pid, len(prev), "previous")
