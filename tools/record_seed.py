#!/usr/bin/env python3
"""tools/record_seed.py <worktree> <name> <PID> <suite> <check verdict> <caught_by;...>  -> seeded/<PID>-<name>/ with verification."""
import json, os, shutil, sys
wt, name, pid, suite, verdict, caught = sys.argv[1:7]
src = os.path.join(wt, "seeded", name)
dst = os.path.join("/verif/seeded", f"{pid}-{name}")
os.makedirs(dst, exist_ok=True)
for f in ("patch.diff", "demo.py", "meta.json"):
    shutil.copy(os.path.join(src, f), os.path.join(dst, f))
for f in os.listdir(src):
    if f not in ("patch.diff", "demo.py", "meta.json") and os.path.isfile(os.path.join(src, f)) and os.path.getsize(os.path.join(src, f)) < 200000:
        shutil.copy(os.path.join(src, f), os.path.join(dst, f))
m = json.load(open(os.path.join(dst, "meta.json")))
import re as _re
_m = _re.search(r"/wt(\d+)-", wt)
m["round"] = int(_m.group(1)) if _m else 1
m["verification"] = {"breaks": pid, "demo": "exit 0 unchanged / exit 1 changed (confirmed)", "suite": suite,
                     "check": verdict, "caught_by": [c for c in caught.split(";") if c]}
m["confirmed_in"] = f"scratch worktree {wt} (removed afterwards), tools/verify_seed.sh"
json.dump(m, open(os.path.join(dst, "meta.json"), "w"), indent=1)
print("recorded", dst)
