#!/usr/bin/env python3
"""tools/mutsweep.py PID FILE FUNC[,FUNC..] TESTPATH[,TESTPATH..] [--max N] [--jobs J] [--seed S] [--out FILE]

Systematic first-order mutants of the anchored functions of a property, each applied to a scratch COPY of /repo
(never /repo itself):  1. the relevant part of the pinned test suite is run against the copy (a mutant the tests kill is
not interesting);  2. for the survivors `./check PID --tier quick` is run against the copy (NESSAI_REPO).
A survivor the check does not report is either an equivalent mutant, a change the property does not speak about, or a
miss: those are listed for triage.  FUNC may be `Class.method` or a plain function name.
Operators: comparison flips (< <= > >= == !=), + <-> -, and <-> or, `not` on an if/while test, integer constant +-1,
slice bound +-1, deletion of an expression / assignment statement, swap of the two branches of an if/else.
"""
import argparse
import ast
import copy
import json
import os
import random
import shutil
import subprocess
import sys
import tempfile
from concurrent.futures import ThreadPoolExecutor

REPO = "/repo"
VERIF = os.path.dirname(os.path.dirname(os.path.abspath(__file__)))
PY = "/venv/bin/python"

CMP = {ast.Lt: ast.LtE, ast.LtE: ast.Lt, ast.Gt: ast.GtE, ast.GtE: ast.Gt, ast.Eq: ast.NotEq, ast.NotEq: ast.Eq}


def find_funcs(mod, names):
    out = []
    for n in names:
        if "." in n:
            c, f = n.split(".")
            for node in mod.body:
                if isinstance(node, ast.ClassDef) and node.name == c:
                    out += [x for x in node.body if isinstance(x, (ast.FunctionDef,)) and x.name == f]
        else:
            out += [x for x in mod.body if isinstance(x, ast.FunctionDef) and x.name == n]
    return out


def is_logging(stmt):
    return (isinstance(stmt, ast.Expr) and isinstance(stmt.value, ast.Call) and isinstance(stmt.value.func, ast.Attribute)
            and isinstance(stmt.value.func.value, ast.Name) and stmt.value.func.value.id in ("logger", "logging", "warnings"))


def stmts_of(fn):
    """all simple statements and if/while headers inside fn with their parent list + index"""
    res = []

    def walk(body):
        for i, s in enumerate(body):
            if i == 0 and isinstance(s, ast.Expr) and isinstance(getattr(s, "value", None), ast.Constant) and isinstance(s.value.value, str):
                continue
            res.append((body, i, s))
            for fld in ("body", "orelse", "finalbody"):
                sub = getattr(s, fld, None)
                if isinstance(sub, list) and sub and isinstance(sub[0], ast.stmt):
                    walk(sub)
            if isinstance(s, ast.Try):
                for h in s.handlers:
                    walk(h.body)
    walk(fn.body)
    return res


def mutants_of_stmt(s):
    """-> list of (description, new statement or None for deletion)"""
    out = []
    if is_logging(s) or isinstance(s, (ast.Raise, ast.Pass, ast.Import, ast.ImportFrom, ast.Global, ast.FunctionDef, ast.ClassDef)):
        return out
    # header-only view for compound statements: only mutate the test / iter, not nested bodies (they are visited separately)
    compound = isinstance(s, (ast.If, ast.While, ast.For, ast.With, ast.Try))
    targets = []
    if isinstance(s, (ast.If, ast.While)):
        targets = [("test", s.test)]
    elif isinstance(s, ast.For):
        targets = [("iter", s.iter)]
    elif not compound:
        targets = [("stmt", s)]
    for label, root in targets:
        nodes = list(ast.walk(root))
        for k, node in enumerate(nodes):
            def variant(mut):
                new = copy.deepcopy(s)
                r2 = getattr(new, label) if label != "stmt" else new
                n2 = list(ast.walk(r2))[k]
                mut(n2)
                return ast.fix_missing_locations(new)
            if isinstance(node, ast.Compare):
                for j, op in enumerate(node.ops):
                    if type(op) in CMP:
                        out.append((f"{type(op).__name__}->{CMP[type(op)].__name__}",
                                    variant(lambda n, j=j, op=op: n.ops.__setitem__(j, CMP[type(op)]()))))
            elif isinstance(node, ast.BinOp) and isinstance(node.op, (ast.Add, ast.Sub)):
                new_op = ast.Sub if isinstance(node.op, ast.Add) else ast.Add
                out.append((f"{type(node.op).__name__}->{new_op.__name__}", variant(lambda n, new_op=new_op: setattr(n, "op", new_op()))))
            elif isinstance(node, ast.BoolOp):
                new_op = ast.Or if isinstance(node.op, ast.And) else ast.And
                out.append((f"{type(node.op).__name__}->{new_op.__name__}", variant(lambda n, new_op=new_op: setattr(n, "op", new_op()))))
            elif isinstance(node, ast.Constant) and isinstance(node.value, int) and not isinstance(node.value, bool) and abs(node.value) <= 2:
                for d in (1, -1):
                    out.append((f"const {node.value}->{node.value + d}", variant(lambda n, d=d: setattr(n, "value", n.value + d))))
            elif isinstance(node, ast.Slice):
                for fld in ("lower", "upper"):
                    if getattr(node, fld) is not None:
                        out.append((f"slice {fld}+1", variant(lambda n, fld=fld: setattr(n, fld, ast.BinOp(getattr(n, fld), ast.Add(), ast.Constant(1))))))
            elif isinstance(node, ast.UnaryOp) and isinstance(node.op, ast.USub):
                out.append(("drop unary minus", variant(lambda n: (setattr(n, "op", ast.UAdd())))))
            elif isinstance(node, ast.Call):
                fname = node.func.attr if isinstance(node.func, ast.Attribute) else getattr(node.func, "id", "")
                SWAP = {"min": "max", "max": "min", "argmax": "argmin", "argmin": "argmax", "minimum": "maximum", "maximum": "minimum",
                        "nanmax": "max", "nanmin": "min", "any": "all", "all": "any", "floor": "ceil", "ceil": "floor",
                        "log1p": "log", "expm1": "exp", "isfinite": "isnan", "cumsum": "cumprod", "zeros": "ones", "empty": "zeros"}
                if fname in SWAP:
                    def sw(n, to=SWAP[fname]):
                        if isinstance(n.func, ast.Attribute):
                            n.func.attr = to
                        else:
                            n.func.id = to
                    out.append((f"{fname}->{SWAP[fname]}", variant(sw)))
                if fname == "searchsorted":
                    has = [kw for kw in node.keywords if kw.arg == "side"]
                    if has:
                        out.append(("searchsorted side flipped", variant(lambda n: [setattr(kw, "value", ast.Constant(
                            "left" if getattr(kw.value, "value", "left") == "right" else "right")) for kw in n.keywords if kw.arg == "side"])))
                    else:
                        out.append(("searchsorted side=right", variant(lambda n: n.keywords.append(ast.keyword("side", ast.Constant("right"))))))
                if fname == "copy" and isinstance(node.func, ast.Attribute) and not node.args:
                    # x.copy() -> x   (aliasing)
                    def drop_copy(n):
                        inner = n.func.value
                        n.__class__ = inner.__class__
                        n.__dict__.clear()
                        n.__dict__.update(inner.__dict__)
                    out.append(("drop .copy()", variant(drop_copy)))
                if len(node.args) >= 2 and fname not in ("searchsorted", "insert", "isinstance", "getattr", "setattr", "join", "format"):
                    out.append((f"swap first two arguments of {fname}", variant(lambda n: n.args.__setitem__(slice(0, 2), [n.args[1], n.args[0]]))))
                for kw in node.keywords:
                    if isinstance(kw.value, ast.Constant) and isinstance(kw.value.value, bool):
                        out.append((f"{fname}({kw.arg}=not)", variant(lambda n, a=kw.arg: [setattr(k, "value", ast.Constant(not k.value.value)) for k in n.keywords if k.arg == a])))
            elif isinstance(node, ast.Constant) and isinstance(node.value, bool):
                out.append((f"const {node.value}->{not node.value}", variant(lambda n: setattr(n, "value", not n.value))))
            elif isinstance(node, ast.Constant) and isinstance(node.value, float) and node.value not in (0.0,):
                out.append((f"const {node.value}->{node.value * 2}", variant(lambda n: setattr(n, "value", n.value * 2))))
    if isinstance(s, (ast.If, ast.While)):
        new = copy.deepcopy(s)
        new.test = ast.UnaryOp(ast.Not(), new.test)
        out.append(("negate test", ast.fix_missing_locations(new)))
        if isinstance(s, ast.If) and s.orelse and not (len(s.orelse) == 1 and isinstance(s.orelse[0], ast.If)):
            pass
    if isinstance(s, (ast.Expr, ast.Assign, ast.AugAssign)) and not compound:
        out.append(("delete statement", None))
    return out


def splice(src_lines, s, new):
    """replace the source lines of statement s by the unparsed new statement (or `pass`)"""
    indent = src_lines[s.lineno - 1][: s.col_offset]
    if isinstance(s, (ast.If, ast.While, ast.For)):
        # header only: from s.lineno to the line before the first body statement
        end = s.body[0].lineno - 1
        head = ast.unparse(new).split("\n")[0]
        return src_lines[: s.lineno - 1] + [indent + head + "\n"] + src_lines[end:]
    text = "pass" if new is None else ast.unparse(new)
    new_lines = [indent + l + "\n" for l in text.split("\n")]
    return src_lines[: s.lineno - 1] + new_lines + src_lines[s.end_lineno:]


def run_one(job):
    idx, pid, relfile, desc, lineno, new_src, tests, orig_line = job
    d = tempfile.mkdtemp(prefix="mut_", dir="/tmp")
    try:
        shutil.copytree(os.path.join(REPO, "nessai"), os.path.join(d, "nessai"))
        shutil.copytree(os.path.join(REPO, "tests"), os.path.join(d, "tests"))
        for f in ("pyproject.toml", "conftest.py", "setup.cfg", "pytest.ini"):
            if os.path.exists(os.path.join(REPO, f)):
                shutil.copy(os.path.join(REPO, f), d)
        with open(os.path.join(d, relfile), "w") as fh:
            fh.write(new_src)
        env = dict(os.environ, PYTHONPATH=d, PYTHONHASHSEED="0")
        try:
            subprocess.run([PY, "-c", "import nessai"], cwd=d, env=env, check=True, capture_output=True, timeout=120)
        except Exception:
            return {"i": idx, "desc": desc, "line": lineno, "src": orig_line, "tests": "import fails", "check": "-"}
        try:
            r = subprocess.run([PY, "-m", "pytest", "-q", "-x", "-p", "no:cacheprovider", "--timeout=600", "-p", "no:randomly"] + tests,
                               cwd=d, env=env, capture_output=True, text=True, timeout=1500)
            tail = [l for l in r.stdout.strip().splitlines() if l.strip()][-1:] or [""]
            killed = r.returncode != 0
        except subprocess.TimeoutExpired:
            killed, tail = True, ["timeout"]
        if killed:
            return {"i": idx, "desc": desc, "line": lineno, "src": orig_line, "tests": "killed: " + tail[0][:80], "check": "-"}
        env2 = dict(os.environ, NESSAI_REPO=d)
        try:
            r = subprocess.run(["./check", pid, "--tier", "quick"], cwd=VERIF, env=env2, capture_output=True, text=True, timeout=3000)
            lines = r.stdout.splitlines()
            viol = [l for l in lines if l.startswith("VIOLATION")]
            summ = [l for l in lines if "obligations," in l][:1]
            if not viol:
                verdict = "NOT REPORTED"
            elif any("no-failing-input-found" not in l for l in viol):
                verdict = "caught with failing input"
            else:
                verdict = "caught (no-failing-input-found)"
            broken = [l.strip()[:160] for l in lines if l.strip().startswith("broken obligation")][:2]
        except subprocess.TimeoutExpired:
            verdict, summ, broken = "check timed out", [""], []
        return {"i": idx, "desc": desc, "line": lineno, "src": orig_line, "tests": "pass", "check": verdict,
                "summary": (summ or [""])[0][:140], "broken": broken}
    finally:
        shutil.rmtree(d, ignore_errors=True)


def main():
    ap = argparse.ArgumentParser()
    ap.add_argument("pid"); ap.add_argument("file"); ap.add_argument("funcs"); ap.add_argument("tests")
    ap.add_argument("--max", type=int, default=40); ap.add_argument("--jobs", type=int, default=4)
    ap.add_argument("--seed", type=int, default=0); ap.add_argument("--out", default=None)
    a = ap.parse_args()
    path = os.path.join(REPO, a.file)
    src = open(path).read()
    lines = src.splitlines(keepends=True)
    mod = ast.parse(src)
    fns = find_funcs(mod, a.funcs.split(","))
    if not fns:
        sys.exit("no such function")
    jobs = []
    for fn in fns:
        for body, i, s in stmts_of(fn):
            for desc, new in mutants_of_stmt(s):
                try:
                    new_src = "".join(splice(lines, s, new))
                    ast.parse(new_src)
                except Exception:
                    continue
                if new_src == src:
                    continue
                jobs.append((fn.name, desc, s.lineno, new_src, lines[s.lineno - 1].strip()[:90]))
    random.Random(a.seed).shuffle(jobs)
    jobs = jobs[: a.max]
    tests = a.tests.split(",")
    work = [(k, a.pid, a.file, f"{fnname}: {desc}", ln, ns, tests, ol) for k, (fnname, desc, ln, ns, ol) in enumerate(jobs)]
    print(f"{len(work)} mutants of {a.funcs} in {a.file}", flush=True)
    res = []
    with ThreadPoolExecutor(max_workers=a.jobs) as ex:
        for r in ex.map(run_one, work):
            res.append(r)
            print(json.dumps(r), flush=True)
    out = a.out or os.path.join(VERIF, "mutants", f"{a.pid}_{os.path.basename(a.file)[:-3]}.json")
    os.makedirs(os.path.dirname(out), exist_ok=True)
    old = []
    if os.path.exists(out):
        old = json.load(open(out))
    json.dump(old + [{"file": a.file, "funcs": a.funcs, "seed": a.seed, "results": res}], open(out, "w"), indent=1)
    surv = [r for r in res if r["tests"] == "pass"]
    print(f"{len(res)} mutants: {len(res) - len(surv)} killed by the tests / import; {len(surv)} survive the tests, of which "
          f"{sum(1 for r in surv if r['check'].startswith('caught'))} reported by the check, "
          f"{sum(1 for r in surv if r['check'] == 'NOT REPORTED')} not reported")


if __name__ == "__main__":
    main()
