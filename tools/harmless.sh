#!/bin/bash
# tools/harmless.sh <PID> <script under tools/harmless/> [tier]
# Runs ./check PID against a scratch COPY of /repo rewritten by a property-preserving refactor; the check must stay quiet.
PID="$1"; SCR="$2"; TIER="${3:-quick}"
D=$(mktemp -d /tmp/harm_XXXXXX)
cp -r /repo/nessai "$D/nessai"
python3 /verif/tools/harmless/"$SCR" "$D" || { rm -rf "$D"; echo "REFACTOR DID NOT APPLY"; exit 3; }
cd /verif && NESSAI_REPO="$D" ./check "$PID" --tier "$TIER" 2>&1 | grep -E "VIOLATION|obligations|broken obligation|declined" | cut -c1-300 | head -12
rm -rf "$D"
