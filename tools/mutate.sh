#!/bin/bash
# tools/mutate.sh <PID> <file-relative-to-repo> <python-regex> <replacement> [tier]
# Runs ./check PID against a scratch COPY of /repo with one textual mutation; never touches /repo.
PID="$1"; FILE="$2"; PAT="$3"; REP="$4"; TIER="${5:-quick}"
D=$(mktemp -d /tmp/mut_XXXXXX)
cp -r /repo/nessai "$D/nessai"
python3 - "$D/$FILE" "$PAT" "$REP" <<'PY'
import re,sys
p,pat,rep=sys.argv[1:4]
s=open(p).read()
n=len(re.findall(pat,s))
if n==0: print("MUTATION DID NOT APPLY"); sys.exit(3)
s=re.sub(pat,rep,s,count=1)
open(p,'w').write(s)
print(f"mutated {p} ({n} candidate sites, first replaced)")
PY
[ $? -eq 0 ] || { rm -rf "$D"; exit 3; }
cd /verif && NESSAI_REPO="$D" ./check "$PID" --tier "$TIER" 2>&1 | grep -E "VIOLATION|KNOWN-FINDING|obligations|broken obligation" | cut -c1-300 | head -12
rm -rf "$D"
