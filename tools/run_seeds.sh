#!/bin/bash
# tools/run_seeds.sh "<seeds>" [lanes]: every enabled quick check under each VERIF_SEED, prints only what is not green
cd /verif; mkdir -p build/all
for s in $1; do
  for p in $(cat manifest.d/ENABLED); do echo "$s $p"; done
done | xargs -P "${2:-3}" -L1 bash -c 'VERIF_SEED=$0 ./check $1 --tier quick > build/all/$1.seed$0.log 2>&1; rc=$?; line=$(grep -E "^$1 quick" build/all/$1.seed$0.log | cut -c1-150); if [ $rc -ne 0 ] || grep -q "^VIOLATION" build/all/$1.seed$0.log; then echo "NOT GREEN seed=$0 $1 rc=$rc $line"; else echo "ok seed=$0 $line"; fi'
