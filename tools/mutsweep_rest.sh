#!/bin/bash
# tools/mutsweep_all.sh [jobs] [max per target] : runs tools/mutsweep.py over the anchored functions of the properties, one target after the other.
J="${1:-4}"; M="${2:-60}"
cd /verif
IS=nessai/samplers/importancesampler.py
NS=nessai/samplers/nestedsampler.py
TI=tests/test_samplers/test_importance_nested_sampler
TN=tests/test_samplers/test_nested_sampler
run() { echo "=== $*"; timeout 14000 tools/mutsweep.py "$@" --max "$M" --jobs "$J" 2>&1 | grep -v conda | tail -1; }
run C02 nessai/posterior.py compute_weights tests/test_posterior.py
run C16 nessai/posterior.py draw_posterior_samples tests/test_posterior.py
run C05 nessai/evidence.py _INSIntegralState.compute_uncertainty,_INSIntegralState.update_evidence,_INSIntegralState.compute_evidence_ratio,log_evidence_from_ins_samples,_BaseNSIntegralState.effective_n_posterior_samples tests/test_evidence
run C05 $NS NestedSampler.get_result_dictionary,NestedSampler.finalise,NestedSampler.consume_sample $TN
run C01 $NS NestedSampler.consume_sample,NestedSampler.insert_live_point,NestedSampler.yield_sample,NestedSampler.populate_live_points,NestedSampler.finalise $TN
run C18 nessai/livepoint.py live_points_to_array,numpy_array_to_live_points,empty_structured_array,dict_to_live_points,live_points_to_dict,add_extra_parameters_to_live_points,reset_extra_live_points_parameters,get_dtype,unstructured_view tests/test_livepoint.py
run C19 nessai/utils/io.py NessaiJSONEncoder.default,save_to_json,save_dict_to_hdf5,encode_for_hdf5,add_dict_to_hdf5_file,save_live_points tests/test_utils
run C15 $NS NestedSampler.nested_sampling_loop,NestedSampler.check_state,NestedSampler.update_state $TN
run C15 $IS ImportanceNestedSampler.compute_stopping_criterion,ImportanceNestedSampler.nested_sampling_loop,ImportanceNestedSampler.reached_tolerance $TI
run C11 nessai/utils/io.py safe_file_dump tests/test_utils
run C09 nessai/proposal/flowproposal.py FlowProposal.populate,FlowProposal.backward_pass,FlowProposal.check_prior_bounds,FlowProposal.convert_to_samples tests/test_proposal/test_flowproposal
